----------------------------- MODULE DefVarargs -----------------------------
(***************************************************************************)
(* C13, second sentence, for *args / **kwargs whose annotation says what   *)
(* the extra arguments ARE (PEP 646, PEP 692), in every spelling in which  *)
(* the annotation can reach pyanalyze:                                     *)
(*   *args: int | Unpack[tuple[int, str]] | Unpack[tuple[int, ...]]        *)
(*          | *tuple[int, str]                                             *)
(*   **kw:  int | Unpack[TDN]     class TDN(TypedDict): p: int             *)
(*                                                      q: NotRequired[str]*)
(* each written as an expression (the function object holds the OBJECT),   *)
(* quoted (a STRING for both routes) and in a PEP 563 module (the def      *)
(* route sees the expression, the function object holds a string).         *)
(* Impl: DefHeaders!ImplSigDef / ImplSigRt (translate_vararg_type and the  *)
(* expansion of Signature.make included).                                  *)
(* Ref: the DECLARED meaning -- RefSlots(h) -- which both views must show. *)
(***************************************************************************)
EXTENDS DefHeaders

(***************************************************************************)
(* Ref: what the header declares (PEP 646 "*args: *tuple[A, B]" = exactly  *)
(* two more positional arguments of types A and B; "*args: *tuple[A, ...]" *)
(* = any number of A; PEP 692 "**kw: Unpack[TD]" = keyword arguments as    *)
(* the keys of TD, the required ones required; quoting an annotation does  *)
(* not change its meaning, PEP 484 / PEP 563).                             *)
(* A slot = one declared parameter:                                        *)
(*   [src, name, kind, dflt ("none" | "some" | "asheader"), typ]           *)
(* src = index of the header parameter it comes from; typ = the declared   *)
(* type as a Value, or NoType where the ordinary per-parameter clauses of  *)
(* DefHeaders apply; name "" = immaterial (extra positionals).             *)
(***************************************************************************)
NoType == V("notype", "", << >>)
Slot(src, name, kind, dflt, typ) == [src |-> src, name |-> name, kind |-> kind, dflt |-> dflt, typ |-> typ]
RefIntT == V("Typed", "int", << >>)
RefStrT == V("Typed", "str", << >>)
RefParamSlots(p, i) ==
    LET e == StripQuote(p.ann)
    IN CASE p.kind = "VAR_POSITIONAL" /\ IsUnpackTuple(p.ann) ->
              LET targs == IF e.k = "star" THEN e.args[1].args ELSE e.args[1].args       \* the tuple[...] arguments
              IN IF Len(targs) = 2 /\ targs[2].k = "ellipsis"
                 THEN <<Slot(i, p.name, "VAR_POSITIONAL", "none", V("Generic", "tuple", <<RefIntT>>))>>
                 ELSE <<Slot(i, "", "POSITIONAL_ONLY", "none", RefIntT), Slot(i, "", "POSITIONAL_ONLY", "none", RefStrT)>>
         [] p.kind = "VAR_KEYWORD" /\ IsUnpackDict(p.ann) ->
              <<Slot(i, "p", "KEYWORD_ONLY", "none", RefIntT), Slot(i, "q", "KEYWORD_ONLY", "some", RefStrT)>>
         [] OTHER -> <<Slot(i, p.name, p.kind, "asheader", NoType)>>
RECURSIVE RefSlotsFrom(_, _)
RefSlotsFrom(h, i) == IF i > Len(h.params) THEN << >> ELSE RefParamSlots(h.params[i], i) \o RefSlotsFrom(h, i + 1)
RefSlots(h) == RefSlotsFrom(h, 1)

\* one view shows slot sl as parameter x
RefShowsSlot(h, sl, x) ==
    /\ x.t = "Param"
    /\ (sl.name = "" \/ x.n = sl.name)
    /\ x.a[1].n = sl.kind
    /\ CASE sl.dflt = "none" -> x.a[2].t = "nodefault"
         [] sl.dflt = "some" -> x.a[2].t # "nodefault"
         [] OTHER -> (x.a[2].t = "nodefault") = (h.params[sl.src].dflt = "none")
    /\ (sl.typ # NoType => RefSame(x.a[3], sl.typ))
\* both views show the declared parameters, and agree on what the header leaves to them
RefVarargViews(h, s1, s2) ==
    LET sl == RefSlots(h) n == Len(sl)
    IN /\ s1.t = "Sig" /\ s2.t = "Sig" /\ Len(s1.a) = n + 1 /\ Len(s2.a) = n + 1
       /\ \A k \in 1..n :
             /\ RefShowsSlot(h, sl[k], s1.a[k]) /\ RefShowsSlot(h, sl[k], s2.a[k])
             /\ (sl[k].typ = NoType =>
                    /\ RefSameDefaultP(h.params[sl[k].src], s1.a[k], s2.a[k])
                    /\ RefSameAnnotation(h.params[sl[k].src], s1.a[k], s2.a[k]))
       /\ RefSame(s1.a[n + 1], s2.a[n + 1])

\* Known deviation: the PEP 646 spelling `*args: *tuple[int, str]`.  The annotation is an ast.Starred node: the
\* def-derived view evaluates it to Any[error] (so *args: tuple[Any, ...]), the function object holds the unpacked
\* alias and the runtime view is the two declared positionals; in a PEP 563 module the text "*tuple[int, str]" is
\* not an expression and both views say tuple[Any[error], ...].
Dev_StarredVararg(h) == \E i \in 1..Len(h.params) : TopStar(h.params[i].ann)

\* Known deviation: a *args of fixed length behind a positional-or-keyword parameter,
\* `def f(a: int, *args: Unpack[tuple[int, str]])`.  Signature.make turns the *args into positional-only parameters
\* @1, @2 although `a` can be passed by keyword; Signature.validate rejects that order and InvalidSignature escapes:
\* internal_error at the def statement and at every call in the defining module and in importers, the nested twin's
\* name stays undefined.  (A view whose *args is not of fixed length -- the Any[error] of the starred spelling -- is
\* not affected, so the two classes can meet in one header.)
IsFixedTupleVararg(p) ==
    p.kind = "VAR_POSITIONAL" /\ IsUnpackTuple(p.ann)
    /\ LET e == StripQuote(p.ann) IN ~(Len(e.args[1].args) = 2 /\ e.args[1].args[2].k = "ellipsis")
Dev_FixedTupleAfterKeywordable(h) ==
    \E i \in 1..Len(h.params) : IsFixedTupleVararg(h.params[i]) /\ \E j \in 1..(i - 1) : h.params[j].kind = "POSITIONAL_OR_KEYWORD"
KnownVarargDeviation(h) == Dev_StarredVararg(h) \/ Dev_FixedTupleAfterKeywordable(h)

(***************************************************************************)
(* Calls: DefHeaders!Calls with the TypedDict's keys in the keyword        *)
(* universe                                                                *)
(***************************************************************************)
VKwUniverse(h) ==
    KwUniverse(h) \cup (IF \E i \in 1..Len(h.params) : IsUnpackDict(h.params[i].ann) THEN {"p", "q"} ELSE {})
VCalls(h) == {[npos |-> n, kws |-> k, bad |-> b] :
                n \in 0..MaxPos, k \in {s \in SUBSET VKwUniverse(h) : Cardinality(s) <= MaxKw}, b \in BOOLEAN}

\* the slice: at least one annotated *args / **kwargs
InSlice(h) == \E i \in 1..Len(h.params) : IsVar(h.params[i].kind) /\ h.params[i].ann # NoAnn

VarargViewsAgree ==
    (stage = "done" /\ InSlice(case)) => (RefVarargViews(case, ImplSigDef(case), ImplSigRt(case)) \/ KnownVarargDeviation(case))
\* no view raises outside the class that says so
VarargNoCrash ==
    (stage = "done" /\ InSlice(case) /\ ~Dev_FixedTupleAfterKeywordable(case)) =>
        (ImplSigDef(case).t = "Sig" /\ ImplSigRt(case).t = "Sig")
VarargViewsAgreeStrict == (stage = "done" /\ InSlice(case)) => RefVarargViews(case, ImplSigDef(case), ImplSigRt(case))
=============================================================================
