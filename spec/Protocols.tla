------------------------------ MODULE Protocols ------------------------------
(***************************************************************************)
(* Property C04 on the protocol sub-universe: the structural check behind  *)
(* `TypedValue(P).can_assign(...)` for run-time typing.Protocol classes    *)
(* (type_object.py:113-203, checker.py:142-182 + 445-456) as an explicit   *)
(* model, judged against structural membership written from PEP 544.       *)
(*                                                                         *)
(* Add-only module: nothing here changes Values.tla / Assign.tla; the      *)
(* classes below exist only in PTab (real counterparts of the same names:  *)
(* harness/proto_universe.py, compared with PTab by the driver self-test). *)
(*                                                                         *)
(* Class table entry  [kind, rt, mro, own, gargs]                          *)
(*   kind  "proto" (class with _is_protocol) | "abc" (collections.abc base *)
(*         that typing allows for protocols) | "plain" | "builtin" |       *)
(*         "special" (object / Generic / Protocol)                         *)
(*   rt    isinstance() works: @runtime_checkable (or inherited flag)      *)
(*   mro   the linearisation WITHOUT the class itself                      *)
(*   own   what the class body / __dict__ / __annotations__ holds, only    *)
(*         names of PNameOrder:  [n, k, t, ps, v, req]                     *)
(*           k  "method" (t = return type, ps = parameter types after self)*)
(*              "attr"  (annotated class attribute with value v)           *)
(*              "iattr" (annotation only; instances hold v)                *)
(*              "prop"  (property returning t; instances yield v)          *)
(*              "none"  (attribute set to None, e.g. __hash__ = None)      *)
(*              "slot"  (class-level bookkeeping: __slots__,               *)
(*                       __class_getitem__)                                *)
(*           req  the entry is a protocol member in the sense of PEP 544   *)
(*                (declared in a protocol body, or abstract method of the  *)
(*                ABC); FALSE for bookkeeping entries                      *)
(*   gargs type arguments with which the class subclasses a generic        *)
(*         protocol nominally (KPGi(PG[int]))                              *)
(***************************************************************************)
EXTENDS Assign

TVT == [k |-> "ptvar"]                      \* the protocol's own type parameter inside a member type
TInt == Typed("int")   TStr == Typed("str")   TBool == Typed("bool")   TObj == Typed("object")
TNone == Known(NONE)

PE(n, kind, t, ps, v, req) == [n |-> n, k |-> kind, t |-> t, ps |-> ps, v |-> v, req |-> req]
MethE(n, t) == PE(n, "method", t, << >>, NONE, TRUE)
Meth1E(n, p, t) == PE(n, "method", t, <<p>>, NONE, TRUE)
AttrE(n, t, v) == PE(n, "attr", t, << >>, v, TRUE)
IAttrE(n, t, v) == PE(n, "iattr", t, << >>, v, TRUE)
PropE(n, t, v) == PE(n, "prop", t, << >>, v, TRUE)
NoneE(n) == PE(n, "none", TNone, << >>, NONE, TRUE)
SlotE(n) == PE(n, "slot", TNone, << >>, NONE, FALSE)

PCls(kind, rt, mro, own) == [kind |-> kind, rt |-> rt, mro |-> mro, own |-> own, gargs |-> << >>]
ProtoMro == <<"Protocol", "Generic", "object">>
Proto(rt, own) == PCls("proto", rt, ProtoMro, own)
Plain(own) == PCls("plain", FALSE, <<"object">>, own)

\* names in Python's sorted() order (type_object.py:176 iterates sorted(self.protocol_members))
PNameOrder == <<"__call__", "__class_getitem__", "__contains__", "__hash__", "__len__", "__slots__", "get", "hex", "k", "m",
                "n", "name", "nxt", "p", "put", "q", "take", "x", "z">>

mInt == MethE("m", TInt)   nStr == MethE("n", TStr)   kInt == MethE("k", TInt)   nameStr == MethE("name", TStr)
lenInt == MethE("__len__", TInt)   hashInt == MethE("__hash__", TInt)
containsM == Meth1E("__contains__", TObj, TBool)

PTab ==
    (  "object"    :> PCls("special", FALSE, << >>, <<hashInt>>)
    @@ "Generic"   :> PCls("special", FALSE, <<"object">>, <<SlotE("__class_getitem__")>>)
    @@ "Protocol"  :> PCls("special", FALSE, <<"Generic", "object">>, <<SlotE("__slots__")>>)
    \* run-time classes of the function literals / class literals (never offered as types themselves)
    @@ "function"  :> PCls("rtype", FALSE, <<"object">>, <<MethE("__call__", TObj)>>)
    @@ "type"      :> PCls("rtype", FALSE, <<"object">>, <<MethE("__call__", TObj)>>)
    @@ "Sized"     :> PCls("abc", FALSE, <<"object">>, <<lenInt, SlotE("__slots__")>>)
    @@ "Hashable"  :> PCls("abc", FALSE, <<"object">>, <<hashInt, SlotE("__slots__")>>)
    @@ "Container" :> PCls("abc", FALSE, <<"object">>, <<SlotE("__class_getitem__"), containsM, SlotE("__slots__")>>)
    @@ "int"       :> PCls("builtin", FALSE, <<"object">>, <<hashInt>>)
    @@ "bool"      :> PCls("builtin", FALSE, <<"int", "object">>, << >>)
    @@ "float"     :> PCls("builtin", FALSE, <<"object">>, <<hashInt, MethE("hex", TStr)>>)
    @@ "complex"   :> PCls("builtin", FALSE, <<"object">>, <<hashInt>>)
    @@ "str"       :> PCls("builtin", FALSE, <<"object">>, <<containsM, hashInt, lenInt>>)
    \* ---- protocols
    @@ "P1"        :> Proto(TRUE, <<mInt>>)
    @@ "P2"        :> Proto(FALSE, <<mInt, nStr>>)
    @@ "P3"        :> PCls("proto", TRUE, <<"P1">> \o ProtoMro, <<kInt>>)     \* (CPython 3.12: _is_runtime_protocol is inherited from P1)
    @@ "PS"        :> PCls("proto", TRUE, <<"Sized">> \o ProtoMro, <<nameStr>>)
    @@ "PLen"      :> PCls("proto", FALSE, <<"Sized">> \o ProtoMro, << >>)
    @@ "PH"        :> PCls("proto", FALSE, <<"Hashable">> \o ProtoMro, <<nameStr>>)
    @@ "PC"        :> PCls("proto", FALSE, <<"Container">> \o ProtoMro, <<nameStr>>)
    @@ "PG"        :> Proto(FALSE, <<MethE("get", TVT)>>)
    @@ "PA"        :> Proto(TRUE, <<IAttrE("x", TInt, NONE)>>)
    @@ "PAn"       :> Proto(FALSE, <<IAttrE("x", TInt, NONE)>>)
    @@ "PP"        :> Proto(FALSE, <<PropE("x", TInt, NONE)>>)
    @@ "PRec"      :> Proto(FALSE, <<MethE("nxt", Typed("PRec"))>>)
    @@ "PQ1"       :> Proto(FALSE, <<MethE("q", Typed("PQ2")), MethE("z", TInt)>>)
    @@ "PQ2"       :> Proto(FALSE, <<MethE("p", Typed("PQ1"))>>)
    @@ "PAcc"      :> Proto(FALSE, <<Meth1E("take", Typed("PAcc"), TInt)>>)
    @@ "PPut"      :> Proto(FALSE, <<Meth1E("put", TInt, TNone)>>)
    @@ "PCall"     :> Proto(FALSE, <<Meth1E("__call__", TInt, TInt)>>)
    @@ "PHex"      :> Proto(FALSE, <<MethE("hex", TStr)>>)
    @@ "PHashOnly" :> Proto(TRUE, <<hashInt>>)
    \* ---- candidates: every subset of m / n / k, then right / covariant / wrong member types
    @@ "K_"        :> Plain(<< >>)
    @@ "K_m"       :> Plain(<<mInt>>)
    @@ "K_n"       :> Plain(<<nStr>>)
    @@ "K_k"       :> Plain(<<kInt>>)
    @@ "K_mn"      :> Plain(<<mInt, nStr>>)
    @@ "K_mk"      :> Plain(<<kInt, mInt>>)
    @@ "K_nk"      :> Plain(<<kInt, nStr>>)
    @@ "K_mnk"     :> Plain(<<kInt, mInt, nStr>>)
    @@ "Kmb"       :> Plain(<<MethE("m", TBool)>>)
    @@ "Kms"       :> Plain(<<MethE("m", TStr)>>)
    @@ "Kmattr"    :> Plain(<<AttrE("m", TInt, I0)>>)
    @@ "Kinh"      :> PCls("plain", FALSE, <<"K_m", "object">>, <<nStr>>)
    @@ "KP1"       :> PCls("plain", FALSE, <<"P1">> \o ProtoMro, <<mInt>>)
    @@ "KP1x"      :> PCls("plain", FALSE, <<"P1">> \o ProtoMro, << >>)
    @@ "KP3"       :> PCls("plain", FALSE, <<"P3", "P1">> \o ProtoMro, <<kInt>>)
    @@ "Kname"     :> Plain(<<nameStr>>)
    @@ "Klen"      :> Plain(<<lenInt>>)
    @@ "KnameLen"  :> Plain(<<lenInt, nameStr>>)
    @@ "KnameI"    :> Plain(<<lenInt, MethE("name", TInt)>>)
    @@ "KPS"       :> PCls("plain", FALSE, <<"PS", "Sized">> \o ProtoMro, <<lenInt, nameStr>>)
    @@ "KNoHash"   :> Plain(<<NoneE("__hash__")>>)
    @@ "KnameNoHash" :> Plain(<<NoneE("__hash__"), nameStr>>)
    @@ "KPH"       :> PCls("plain", FALSE, <<"PH", "Hashable">> \o ProtoMro, <<hashInt, nameStr>>)
    @@ "KnameCont" :> Plain(<<containsM, nameStr>>)
    @@ "KPC"       :> PCls("plain", FALSE, <<"PC", "Container">> \o ProtoMro, <<containsM, nameStr>>)
    @@ "Kgi"       :> Plain(<<MethE("get", TInt)>>)
    @@ "Kgs"       :> Plain(<<MethE("get", TStr)>>)
    @@ "Kgb"       :> Plain(<<MethE("get", TBool)>>)
    @@ "KPGi"      :> [PCls("plain", FALSE, <<"PG">> \o ProtoMro, <<MethE("get", TInt)>>) EXCEPT !.gargs = <<TInt>>]
    @@ "Kx"        :> Plain(<<AttrE("x", TInt, I0)>>)
    @@ "Kxs"       :> Plain(<<AttrE("x", TStr, SE)>>)
    @@ "Kxb"       :> Plain(<<AttrE("x", TBool, BT)>>)
    @@ "Kxann"     :> Plain(<<IAttrE("x", TInt, I0)>>)
    @@ "Kxprop"    :> Plain(<<PropE("x", TInt, I0)>>)
    @@ "Kxprops"   :> Plain(<<PropE("x", TStr, SE)>>)
    \* x exists per instance only (declared object): the instance "inst" holds 0, the instance "s" holds ""
    @@ "Kxi"       :> Plain(<<IAttrE("x", TObj, I0)>>)
    @@ "KRec"      :> Plain(<<MethE("nxt", Typed("KRec"))>>)
    @@ "KRecBad"   :> Plain(<<MethE("nxt", TInt)>>)
    @@ "KRecP"     :> Plain(<<MethE("nxt", Typed("PRec"))>>)
    @@ "KQ"        :> Plain(<<MethE("p", Typed("KQ")), MethE("q", Typed("KQ"))>>)
    @@ "KQz"       :> Plain(<<MethE("p", Typed("KQz")), MethE("q", Typed("KQz")), MethE("z", TInt)>>)
    @@ "KAccSelf"  :> Plain(<<Meth1E("take", Typed("KAccSelf"), TInt)>>)
    @@ "KAccP"     :> Plain(<<Meth1E("take", Typed("PAcc"), TInt)>>)
    @@ "KAccObj"   :> Plain(<<Meth1E("take", TObj, TInt)>>)
    @@ "Kput_int"  :> Plain(<<Meth1E("put", TInt, TNone)>>)
    @@ "Kput_obj"  :> Plain(<<Meth1E("put", TObj, TNone)>>)
    @@ "Kput_bool" :> Plain(<<Meth1E("put", TBool, TNone)>>)
    @@ "Kcall"     :> Plain(<<Meth1E("__call__", TInt, TInt)>>)
    @@ "Kcalls"    :> Plain(<<Meth1E("__call__", TStr, TInt)>>)
    @@ "Khex"      :> Plain(<<MethE("hex", TStr)>>)
    )

PClassNames == DOMAIN PTab
ProtoNames == {c \in PClassNames : PTab[c].kind = "proto"}
PlainNames == {c \in PClassNames : PTab[c].kind = "plain"}
BuiltinCands == {"int", "bool", "float", "str"}
SpecialNames == {"object", "Generic", "Protocol"}

FullMro(c) == <<c>> \o PTab[c].mro
RangeOf(s) == {s[i] : i \in 1..Len(s)}
IsProtoCls(c) == c \in PClassNames /\ PTab[c].kind = "proto"

\* first class of the sequence whose body holds an entry called n
NoEntry == [found |-> FALSE, e |-> SlotE(""), owner |-> ""]
OwnIdx(c, n) == {i \in 1..Len(PTab[c].own) : PTab[c].own[i].n = n}
RECURSIVE FindIn(_, _)
FindIn(classes, n) ==
    IF classes = << >> THEN NoEntry
    ELSE LET c == Head(classes)  hits == OwnIdx(c, n)
         IN IF hits # {} THEN [found |-> TRUE, e |-> PTab[c].own[CHOOSE i \in hits : TRUE], owner |-> c]
            ELSE FindIn(Tail(classes), n)

\* function literals: objects [c |-> "function", v |-> name] with their own signatures (parameter types, return type)
PFun == (  "F_ii"  :> [ps |-> <<TInt>>, t |-> TInt]
        @@ "F_si"  :> [ps |-> <<TStr>>, t |-> TInt]
        @@ "F_oi"  :> [ps |-> <<TObj>>, t |-> TInt]
        @@ "F_ib"  :> [ps |-> <<TInt>>, t |-> TBool]
        @@ "F_iii" :> [ps |-> <<TInt, TInt>>, t |-> TInt] )
FunObj(n) == Obj("function", n)
FunObjs == {FunObj(n) : n \in DOMAIN PFun}
FunEntry(o) == PE("__call__", "method", PFun[o.v].t, PFun[o.v].ps, NONE, TRUE)
KxiS == Obj("Kxi", "s")                       \* the second instance of Kxi
\* what `o.n` finds on a literal object: a function's __call__ is its own signature; a class object sees the class-level
\* entries of its MRO (not the instance-only ones); an instance sees its class's MRO, data members with ITS value
ObjLookup(o, n) ==
    IF o.c = "function" /\ n = "__call__" THEN [found |-> TRUE, e |-> FunEntry(o), owner |-> "function"]
    ELSE IF o.c = "type" THEN (LET r == FindIn(FullMro(o.v), n) IN IF r.found /\ r.e.k # "iattr" THEN r ELSE NoEntry)
    ELSE LET r == FindIn(FullMro(o.c), n)
         IN IF r.found /\ o = KxiS THEN [r EXCEPT !.e.v = SE] ELSE r

\* ---- terms of the sub-universe
PInst(c) == Obj(c, "inst")
ClsOf(T) == IF T.k = "known" THEN T.o.c ELSE T.c
IsPT(T) == T.k \in {"typed", "generic"} /\ IsProtoCls(T.c)                  \* a protocol type (possibly PG[t])
ValuesClasses == {"object", "int", "bool", "float", "complex", "str"}
InValues(T) ==      \* terms on which Assign.tla's ImplCA / Values.tla's Member are defined
    CASE T.k = "known" -> T.o.c \in Classes
      [] T.k = "typed" -> T.c \in ValuesClasses
      [] OTHER -> FALSE
SubstT(t, T) == IF t = TVT THEN (IF T.k = "generic" THEN T.args[1] ELSE AnyG) ELSE t
SubstE(e, T) == [e EXCEPT !.t = SubstT(e.t, T), !.ps = [i \in 1..Len(e.ps) |-> SubstT(e.ps[i], T)]]

(***************************************************************************)
(* Impl: the code path, branch by branch.  F is a record of switches: the  *)
(* value RealF is the unchanged tree; every other value is either the      *)
(* repair of one confirmed deviation (used to *define* the deviation class *)
(* as "the verdict flips when exactly this mechanism is repaired") or a    *)
(* seeded mistake used as sensitivity self-test.                           *)
(*   firstlit     Value.can_assign checks only the first literal of each   *)
(*                run-time type of a union on the right (seeded mistake)   *)
(*   skipabc      _extract_protocol_members ignores bases without          *)
(*                _is_protocol (seeded mistake)                            *)
(*   propany      a property is read as Any(inference) on a TypedValue     *)
(*   noneany      a class attribute set to None is read as Any(error) on a *)
(*                TypedValue                                               *)
(*   artretry     type_object.py:157 retries with the artificial bases     *)
(*                float / complex of int                                   *)
(*   rescue       value.py:829 accepts a literal that isinstance() accepts *)
(*                although the structural check failed                     *)
(*   callany      the signature of a literal (KnownValue) object that has a *)
(*                __call__ method is (...) -> Any                          *)
(*   keyleft      positive cache keyed by the protocol only (the mistake   *)
(*                repaired by commit 73ce54b; seeded mistake)              *)
(*   cacheassumed positive results are cached although they were computed  *)
(*                under an outer recursion-guard assumption                *)
(***************************************************************************)
RealF == [firstlit |-> FALSE, skipabc |-> FALSE, propany |-> TRUE, noneany |-> TRUE, artretry |-> TRUE, rescue |-> TRUE, callany |-> TRUE,
          keyleft |-> FALSE, cacheassumed |-> TRUE]
DevFlags == {"propany", "noneany", "artretry", "rescue", "callany"}
Repair(f) == [RealF EXCEPT ![f] = FALSE]
AllRepaired == [RealF EXCEPT !.propany = FALSE, !.noneany = FALSE, !.artretry = FALSE, !.rescue = FALSE, !.callany = FALSE,
                            !.cacheassumed = FALSE]

\* checker.py:445 _extract_protocol_members, one base of the MRO
ImplExtract(c, F) ==
    IF c \in SpecialNames THEN {}                                            \* typ is object / Generic / Protocol
    ELSE IF F.skipabc /\ PTab[c].kind # "proto" THEN {}
    ELSE {PTab[c].own[i].n : i \in 1..Len(PTab[c].own)}                      \* set(typ.__dict__) - EXCLUDED | __annotations__
\* checker.py:169-180: is a protocol at run time -> union over get_mro(typ)
ImplProtoMembers(p, F) == UNION {ImplExtract(c, F) : c \in RangeOf(FullMro(p))}
ImplMemberSeq(p, F) == SelectSeq(PNameOrder, LAMBDA n : n \in ImplProtoMembers(p, F))

\* attribute lookup on a value of the sub-universe (attributes.py through ctx.get_attribute_from_value): the first
\* class of the MRO -- object / Protocol / Generic included -- that holds the name
\* (on = the class the attribute was fetched from: a classmethod comes back bound to it)
ImplLookup(T, n) ==
    LET r == IF T.k = "known" THEN ObjLookup(T.o, n) ELSE FindIn(FullMro(ClsOf(T)), n)
    IN [found |-> r.found, e |-> SubstE(r.e, T), owner |-> r.owner, on |-> ClsOf(T)]

ArtSeq(c) == IF c \in {"int", "bool"} THEN <<"float", "complex">> ELSE IF c = "float" THEN <<"complex">> ELSE << >>

\* typing._ProtocolMeta.__instancecheck__ (CPython 3.12) as used by TypeObject.is_instance / safe_isinstance:
\* not runtime_checkable -> TypeError -> False; nominal instance -> True; else every protocol attribute is present
\* and a callable member is not None
ReqClasses(p) == {d \in RangeOf(FullMro(p)) : d \notin SpecialNames}
RefReqNames(p) == UNION {{PTab[c].own[i].n : i \in {j \in 1..Len(PTab[c].own) : PTab[c].own[j].req}} : c \in ReqClasses(p)}
RefReqOf(p, n) == FindIn(SelectSeq(FullMro(p), LAMBDA d : d \notin SpecialNames), n)
RtIsInstance(o, p) ==
    /\ PTab[p].rt
    /\ \/ p \in RangeOf(FullMro(o.c))
       \/ \A n \in RefReqNames(p) :
             LET a == ObjLookup(o, n)
             IN a.found /\ (a.e.k = "none" => RefReqOf(p, n).e.k # "method")

Res(r, c) == [r |-> r, c |-> c]
St(c, a) == [cache |-> c, assumed |-> a]

RECURSIVE PCA(_, _, _, _), PTypedCA(_, _, _, _), PTObj(_, _, _, _), PCompat(_, _, _, _, _), PCompare(_, _, _, _, _),
          PAllOf(_, _, _, _, _), PAnyOf(_, _, _, _, _), PArtRetry(_, _, _, _), PSigCompare(_, _, _, _, _, _), PCallableCA(_, _, _, _)

\* nominal TypeObject.can_assign (type_object.py:122-140) for classes of PTab
PNominal(sc, B) ==
    LET oc == ClsOf(B)
    IN IF IsProtoCls(oc) THEN sc = "object"
       ELSE sc \in RangeOf(FullMro(oc)) \/ sc \in RangeOf(ArtSeq(oc))

\* Value.can_assign dispatch restricted to the sub-universe
PCA(X, Y, st, F) ==
    IF X.k = "any" THEN Res(TRUE, st.cache)
    ELSE IF X.k = "union" THEN                                             \* MultiValuedValue.can_assign (value.py:1992)
         IF Y.k = "union" THEN PAllOf(X, Y.ms, st, F, {}) ELSE PAnyOf(X.ms, Y, st, F, FALSE)
    ELSE IF Y.k = "any" THEN Res(TRUE, st.cache)
    ELSE IF Y.k = "union" THEN PAllOf(X, Y.ms, st, F, {})                   \* Value.can_assign (value.py:107), Never included
    ELSE IF X.k = "callable" THEN PCallableCA(X, Y, st, F)                  \* CallableValue.can_assign (value.py:1761)
    ELSE IF Y.k = "callable" THEN Res(X = TObj, st.cache)                   \* a Callable type offered to a class: object only
    ELSE IF InValues(X) /\ InValues(Y) THEN Res(ImplCA(X, Y, FALSE), st.cache)
    ELSE IF IsPT(X) THEN PTypedCA(X, Y, st, F)
    ELSE IF X.k = "known" THEN Res(Y.k = "known" /\ Y.o = X.o, st.cache)    \* KnownValue.can_assign: equality only
    ELSE IF Y.k = "known" /\ ~(Y.o.c \in PClassNames) THEN Res(X.c = "object", st.cache)     \* None literal
    ELSE Res(PNominal(X.c, Y), st.cache)                                    \* TypedValue of a non-protocol class

\* every member of the union on the right, first failure returns.  (seen / F.firstlit: the seeded mistake "for an
\* expected TypedValue without generic arguments check only the first literal of each run-time type")
PAllOf(X, ms, st, F, seen) ==
    IF ms = << >> THEN Res(TRUE, st.cache)
    ELSE LET h == Head(ms)
             lit == F.firstlit /\ X.k \in {"typed", "callable"} /\ h.k = "known"
         IN IF lit /\ h.o.c \in seen THEN PAllOf(X, Tail(ms), st, F, seen)
            ELSE LET r == PCA(X, h, st, F)
                 IN IF ~r.r THEN r ELSE PAllOf(X, Tail(ms), St(r.c, st.assumed), F, IF lit THEN seen \cup {h.o.c} ELSE seen)

\* Signature.can_assign for the signatures of the sub-universe: return type first, then arity, then the parameters
\* contravariantly (signature.py:1490)
PSigCompare(eret, eps, aret, aps, st, F) ==
    LET r1 == PCA(eret, aret, st, F)
    IN IF ~r1.r THEN r1
       ELSE IF Len(eps) # Len(aps) THEN Res(FALSE, r1.c)
       ELSE IF eps = << >> THEN r1
       ELSE LET r2 == PCA(aps[1], eps[1], St(r1.c, st.assumed), F)
            IN IF ~r2.r \/ Len(eps) = 1 THEN r2 ELSE PCA(aps[2], eps[2], St(r2.c, st.assumed), F)

\* CallableValue.can_assign: the signature of the other value (ctx.signature_from_value) against the expected one
CallPs(X) == [i \in 1..Len(X.ps) |-> X.ps[i].t[1]]
PCallableCA(X, Y, st, F) ==
    IF Y.k = "callable" THEN PSigCompare(X.ret, CallPs(X), Y.ret, CallPs(Y), st, F)
    ELSE LET act == ImplLookup(Y, "__call__")
         IN IF ~act.found \/ act.e.k # "method" THEN Res(FALSE, st.cache)             \* "is not a callable type"
            \* the signature of a literal object with a __call__ method is (...) -> Any
            ELSE IF Y.k = "known" /\ Y.o.c # "function" /\ F.callany THEN Res(TRUE, st.cache)
            ELSE PSigCompare(X.ret, CallPs(X), act.e.t, act.e.ps, st, F)

\* every member of the union on the left is tried (no early exit), value.py:2030
PAnyOf(ms, Y, st, F, acc) ==
    IF ms = << >> THEN Res(acc, st.cache)
    ELSE LET r == PCA(Head(ms), Y, st, F)
         IN PAnyOf(Tail(ms), Y, St(r.c, st.assumed), F, acc \/ r.r)

\* TypedValue.can_assign (value.py:819) / GenericValue.can_assign (value.py:1042) when the type object is a protocol
GenArgsFor(B, pc) ==
    IF B.k = "generic" /\ B.c = pc THEN Found(B.args)
    ELSE IF pc \in RangeOf(PTab[ClsOf(B)].mro) /\ PTab[ClsOf(B)].gargs # << >> THEN Found(PTab[ClsOf(B)].gargs)
    ELSE NotFound
PTypedCA(A, B, st, F) ==
    LET ga == IF A.k = "generic" THEN GenArgsFor(B, A.c) ELSE NotFound
    IN IF ga.found /\ Len(ga.args) = Len(A.args)
       THEN PCA(A.args[1], ga.args[1], st, F)                               \* argument-wise (value.py:1053)
       ELSE LET r == PTObj(A, B, st, F)
            IN IF B.k = "known" /\ ~r.r /\ F.rescue /\ RtIsInstance(B.o, A.c)
               THEN Res(TRUE, r.c)                                          \* value.py:829 is_instance rescue
               ELSE r

\* TypeObject.can_assign, protocol branch (type_object.py:141-167)
PTObj(A, B, st, F) ==
    LET key == IF F.keyleft THEN <<A, A>> ELSE <<A, B>>
        pair == <<ClsOf(A), ClsOf(B)>>
    IN IF key \in st.cache THEN Res(TRUE, st.cache)                         \* positive cache hit
       ELSE IF pair \in st.assumed THEN Res(TRUE, st.cache)                 \* recursion guard
       ELSE LET st1 == St(st.cache, st.assumed \cup {pair})
                r1 == PCompat(A, B, ImplMemberSeq(A.c, F), st1, F)
                r2 == IF ~r1.r /\ F.artretry THEN PArtRetry(A, ArtSeq(ClsOf(B)), St(r1.c, st1.assumed), F) ELSE r1
            IN IF r2.r /\ (F.cacheassumed \/ st.assumed = {}) THEN Res(TRUE, r2.c \cup {key}) ELSE r2

PArtRetry(A, bases, st, F) ==
    IF bases = << >> THEN Res(FALSE, st.cache)
    ELSE LET r == PCompat(A, Typed(Head(bases)), ImplMemberSeq(A.c, F), st, F)
         IN IF r.r THEN r ELSE PArtRetry(A, Tail(bases), St(r.c, st.assumed), F)

\* TypeObject._is_compatible_with_protocol (type_object.py:171-203): members in sorted order, first failure returns
PCompat(A, B, names, st, F) ==
    IF names = << >> THEN Res(TRUE, st.cache)
    ELSE LET n == Head(names)
             exp == ImplLookup(A, n)
             \* (for __call__ the other value itself is compared: its signature is that of its __call__)
             act == ImplLookup(B, n)
             r == IF ~act.found THEN Res(FALSE, st.cache)                   \* "has no attribute" / "is not a callable type"
                  \* the signature of a literal object with a __call__ method is (...) -> Any
                  ELSE IF n = "__call__" /\ B.k = "known" /\ B.o.c # "function" /\ act.e.k = "method" /\ F.callany THEN Res(TRUE, st.cache)
                  ELSE PCompare(exp, act, B.k = "known", st, F)
         IN IF ~r.r THEN r ELSE PCompat(A, B, Tail(names), St(r.c, st.assumed), F)

\* expected.can_assign(actual) for the attribute values the lookups produce
PCompare(exp, act, known, st, F) ==
    LET e == exp.e  a == act.e
        ok == Res(TRUE, st.cache)  no == Res(FALSE, st.cache)
        dataExpected ==                                                     \* expected is TypedValue(e.t)
            CASE a.k = "method" -> IF e.t = TObj THEN ok ELSE no
              [] a.k = "none" -> IF known THEN PCA(e.t, TNone, st, F) ELSE IF F.noneany THEN ok ELSE PCA(e.t, TNone, st, F)
              [] a.k = "prop" -> IF known THEN PCA(e.t, Known(a.v), st, F) ELSE IF F.propany THEN ok ELSE PCA(e.t, a.t, st, F)
              [] a.k \in {"attr", "iattr"} -> IF known THEN PCA(e.t, Known(a.v), st, F) ELSE PCA(e.t, a.t, st, F)
              [] OTHER -> no
    IN \* bookkeeping entries are compared as literals: every __slots__ is (), __class_getitem__ is a classmethod bound to
       \* the class it was fetched from (equal only for the same class)
       CASE e.k = "slot" -> IF a.k = "slot" /\ (e.n = "__slots__" \/ exp.on = act.on) THEN ok ELSE no
         [] e.k = "prop" -> IF F.propany THEN ok ELSE dataExpected          \* expected is Any(inference)
         [] e.k \in {"attr", "iattr"} -> dataExpected
         [] e.k = "method" ->
              CASE a.k = "method" ->                                        \* Signature.can_assign: return first, then parameters
                     PSigCompare(e.t, e.ps, a.t, a.ps, st, F)
                [] a.k = "none" -> IF known THEN no ELSE IF F.noneany THEN ok ELSE no
                [] a.k = "prop" -> IF known THEN no ELSE IF F.propany THEN ok ELSE no
                [] OTHER -> no

Accept(A, B, cache, F) == PCA(A, B, St(cache, {}), F)
AcceptF(A, B, F) == Accept(A, B, {}, F).r

(***************************************************************************)
(* Ref: structural membership from first principles (PEP 544 / typing      *)
(* spec).  The members of a protocol are the names declared in its own     *)
(* body and in the bodies of its protocol bases, plus the abstract methods *)
(* of a collections.abc base (entries with req; compared by the driver     *)
(* with CPython's own P.__protocol_attrs__).  An object belongs to P iff   *)
(* its class provides every member with a compatible declared type: method *)
(* return types covariantly, parameter types contravariantly, data members *)
(* read-compatibly.  Type inclusion is the greatest relation closed under  *)
(* these rules (protocols may be recursive): the greatest fixed point of   *)
(* RStep, computed by iteration from the full relation.                    *)
(***************************************************************************)
\* a provider is Typed(class) (what instances of the class provide: MRO lookup, object included) or a protocol
\* type (what every conforming object is known to provide: only the declared members)
RProv(X, n) ==
    IF IsPT(X) THEN (IF n \in RefReqNames(X.c) THEN LET r == RefReqOf(X.c, n) IN [r EXCEPT !.e = SubstE(r.e, X)] ELSE NoEntry)
    ELSE FindIn(FullMro(ClsOf(X)), n)

DataKinds == {"attr", "iattr", "prop"}
ScalarIncl(X, Y) == \A o \in ScalarObjs : Member(o, X) => Member(o, Y)

\* X is included in Y, given the current approximation S of the pairs <<provider, protocol type>>
RSub(X, Y, S) ==
    IF Y = TObj THEN TRUE
    ELSE IF IsPT(Y) THEN (IF X.k = "known" THEN (X.o.c \in PClassNames /\ <<Typed(X.o.c), Y>> \in S) ELSE <<X, Y>> \in S)
    ELSE IF InValues(X) /\ InValues(Y) THEN ScalarIncl(X, Y)
    ELSE IF IsPT(X) \/ X.k = "known" \/ Y.k = "known" THEN FALSE
    ELSE Y.c \in RangeOf(FullMro(X.c))                                        \* nominal classes of PTab

REntryOK(e, r, S) ==
    CASE r.k = "method" -> e.k = "method" /\ Len(e.ps) = Len(r.ps) /\ RSub(e.t, r.t, S)
                           /\ \A i \in 1..Len(r.ps) : RSub(r.ps[i], e.ps[i], S)
      [] r.k \in DataKinds -> \/ e.k \in DataKinds /\ RSub(e.t, r.t, S)
                              \/ e.k = "none" /\ RSub(TNone, r.t, S)
                              \/ e.k = "method" /\ r.t = TObj
      [] OTHER -> FALSE

RConf(X, PT, S) ==
    \A n \in RefReqNames(PT.c) :
        LET r == SubstE(RefReqOf(PT.c, n).e, PT)
            p == RProv(X, n)
        IN p.found /\ REntryOK(p.e, r, S)

ScalarArgs == {TInt, TBool, TStr}
ProtoTypes == {Typed(p) : p \in ProtoNames \ {"PG"}} \cup {Generic("PG", <<t>>) : t \in ScalarArgs}
Providers == {Typed(c) : c \in PlainNames \cup BuiltinCands} \cup ProtoTypes
RECURSIVE Gfp(_)
Gfp(S) == LET S2 == {pr \in S : RConf(pr[1], pr[2], S)} IN IF S2 = S THEN S ELSE Gfp(S2)
RefConf == Gfp(Providers \X ProtoTypes)

\* objects of the sub-universe: one instance per plain class (two of Kxi), the builtin scalars, the function literals
\* and four class objects
ClassLitNames == {"Kx", "Kxs", "Kxb", "K_"}
PObjects == {PInst(c) : c \in PlainNames} \cup {I1, BT, F15, SA, KxiS} \cup FunObjs \cup {ClassObj(c) : c \in ClassLitNames}
\* membership of an OBJECT: what the object itself provides (ObjLookup) -- a data member by the value the object holds,
\* a method by its declared signature (RefConf closes the recursion through protocol-typed member types)
RECURSIVE PMemberRaw(_, _)
PMemberRaw(o, T) ==
    CASE T.k = "any" -> TRUE
      [] T.k = "known" -> o = T.o
      [] T.k = "union" -> \E i \in 1..Len(T.ms) : PMemberRaw(o, T.ms[i])
      [] IsPT(T) ->
           \A n \in RefReqNames(T.c) :
               LET r == SubstE(RefReqOf(T.c, n).e, T)
                   p == ObjLookup(o, n)
               IN p.found /\ (IF r.k \in DataKinds /\ p.e.k \in DataKinds THEN PMemberRaw(p.e.v, r.t) ELSE REntryOK(p.e, r, RefConf))
      [] T.k = "callable" ->      \* the object can be called like the signature says
           LET p == ObjLookup(o, "__call__")
           IN /\ p.found /\ p.e.k = "method" /\ Len(p.e.ps) = Len(T.ps) /\ RSub(p.e.t, T.ret, RefConf)
              /\ \A i \in 1..Len(T.ps) : RSub(T.ps[i].t[1], p.e.ps[i], RefConf)
      [] OTHER ->      \* a nominal class; run-time membership (no int -> float promotion: 1 has no attribute hex)
           IF o.c \in PClassNames THEN T.c \in RangeOf(FullMro(o.c)) ELSE T.c = "object"
\* (the structural memberships of the objects, computed once)
CallOf(p, r) == CallableT(<<SigParam("x", "pos", <<p>>, FALSE)>>, r)
CallTerms == {CallOf(TInt, TInt), CallOf(TStr, TInt), CallOf(TInt, TObj)}
RefMem == {pr \in PObjects \X (ProtoTypes \cup CallTerms) : PMemberRaw(pr[1], pr[2])}
RECURSIVE PMember(_, _)
PMember(o, T) ==
    CASE T.k = "union" -> \E i \in 1..Len(T.ms) : PMember(o, T.ms[i])
      [] (IsPT(T) \/ T.k = "callable") /\ o \in PObjects /\ T \in ProtoTypes \cup CallTerms -> <<o, T>> \in RefMem
      [] OTHER -> PMemberRaw(o, T)
RefSound(A, B) == \A o \in PObjects : PMember(o, B) => PMember(o, A)

\* presence of the members at run time (what hasattr-style checks see), used to validate the table and the oracle
RefPresent(o, p) == \A n \in RefReqNames(p) : LET a == ObjLookup(o, n) IN a.found /\ (a.e.k = "none" => RefReqOf(p, n).e.k # "method")

(***************************************************************************)
(* Known deviations of the unchanged tree (known_findings.jsonl): a pair   *)
(* is in the class of a mechanism iff the verdict of the model flips when  *)
(* exactly that mechanism is repaired.                                     *)
(***************************************************************************)
Dev_OfF(f, A, B, F) == AcceptF(A, B, F) /\ ~AcceptF(A, B, [F EXCEPT ![f] = FALSE])
Dev_Of(f, A, B) == Dev_OfF(f, A, B, RealF)
Dev_PropertyMemberUntyped(A, B) == Dev_Of("propany", A, B)
Dev_NoneAttributeAsAny(A, B) == Dev_Of("noneany", A, B)
Dev_PromotionRetry(A, B) == Dev_Of("artretry", A, B)
Dev_LiteralIsinstanceRescue(A, B) == Dev_Of("rescue", A, B)
Dev_LiteralCallableUnknown(A, B) == Dev_Of("callany", A, B)
DevKey(f) == CASE f = "propany" -> "protocol-property-member-untyped"
               [] f = "noneany" -> "none-valued-attribute-satisfies-protocol-member"
               [] f = "artretry" -> "int-accepted-for-protocol-via-float-promotion"
               [] f = "rescue" -> "runtime-protocol-literal-accepted-by-isinstance"
               [] f = "callany" -> "literal-callable-object-signature-unknown"

\* documented leniency (DESIGN.md C04): a bare generic stands for G[Any]
RECURSIVE PHasBare(_)
PHasBare(T) == CASE T.k = "typed" -> T.c = "PG"
                 [] T.k = "union" -> \E i \in 1..Len(T.ms) : PHasBare(T.ms[i])
                 [] OTHER -> FALSE

C04P_Sound(A, B, F, devs) == (AcceptF(A, B, F) /\ ~PHasBare(A) /\ ~PHasBare(B)) => (RefSound(A, B) \/ \E f \in devs : Dev_Of(f, A, B))
C04P_Refl(A) == AcceptF(A, A, RealF)
C04P_UnionLeftF(A, B, F) == B.k = "union" => (AcceptF(A, B, F) <=> \A i \in 1..Len(B.ms) : AcceptF(A, B.ms[i], F))
C04P_UnionLeft(A, B) == C04P_UnionLeftF(A, B, RealF)
C04P_UnionRight(A, B) == (A.k = "union" /\ B.k # "union") => ((\E i \in 1..Len(A.ms) : AcceptF(A.ms[i], B, RealF)) => AcceptF(A, B, RealF))

(***************************************************************************)
(* Generators.  Mode "pairs": A, then B (fresh Checker).  Mode "hist": a   *)
(* sequence of checks through ONE Checker: the positive cache is state.    *)
(***************************************************************************)
CONSTANTS PMode,      \* "pairs" | "hist"
          PFlags,     \* name of the switch record the invariants are evaluated with: "real" | "skipabc" | "keyleft" | "firstlit"
          PNoDev,     \* a deviation class left out of InvPSound ("" = none, "all" = every class): sensitivity self-test
          HistLen,    \* number of checks per history
          HistSpace   \* "rec" | "rec3" | "mid" | "all"

F0 == CASE PFlags = "real" -> RealF
        [] PFlags = "skipabc" -> [RealF EXCEPT !.skipabc = TRUE]
        [] PFlags = "keyleft" -> [RealF EXCEPT !.keyleft = TRUE]
        [] PFlags = "firstlit" -> [RealF EXCEPT !.firstlit = TRUE]
        [] PFlags = "repaired" -> AllRepaired

CandTyped == {Typed(c) : c \in PlainNames \cup BuiltinCands}
CandKnown == {Known(PInst(c)) : c \in PlainNames} \cup {Known(I1), Known(BT), Known(F15), Known(SA)}
UnionsA == {Union(<<Typed("P2"), Typed("P1")>>), Union(<<Typed("PS"), Typed("PA")>>), Union(<<Typed("PRec"), TInt>>),
            Union(<<Typed("PQ2"), Typed("PQ1")>>)}
UnionsB == {Union(<<Typed("K_m"), Typed("K_mn")>>), Union(<<Typed("K_m"), Typed("K_")>>), Union(<<Typed("Kname"), Known(PInst("KnameLen"))>>),
            Union(<<Typed("KRec"), Known(I1)>>), Union(<<Typed("KQ"), Typed("KQz")>>), Union(<<Typed("Kx"), Typed("Kxprops")>>), Never}
\* CallTerms: Callable[[int], int], Callable[[str], int], Callable[[int], object] (CallableValue is a TypedValue without
\* generic arguments)
\* literals of ONE run-time type that an expected type may tell apart, and their unions in every order: functions
\* (pairs, and every order of two triples), the two instances of Kxi, two ints; class objects (offered to the data protocols)
FunLits == {Known(o) : o \in FunObjs}
Perms3(a, b, c) == {Union(<<a, b, c>>), Union(<<a, c, b>>), Union(<<b, a, c>>), Union(<<b, c, a>>), Union(<<c, a, b>>), Union(<<c, b, a>>)}
FL(n) == Known(FunObj(n))
SameTypeUnions ==
    ({Union(<<a, b>>) : a \in FunLits, b \in FunLits} \ {Union(<<a, a>>) : a \in FunLits})
    \cup Perms3(FL("F_ii"), FL("F_oi"), FL("F_si")) \cup Perms3(FL("F_ib"), FL("F_ii"), FL("F_iii"))
    \cup {Union(<<Known(PInst("Kxi")), Known(KxiS)>>), Union(<<Known(KxiS), Known(PInst("Kxi"))>>),
          Union(<<Known(I1), Known(BT), Known(I1)>>), Union(<<Known(KxiS), Known(I1), Known(PInst("Kxi"))>>)}
ClassLits == {Known(ClassObj(c)) : c \in ClassLitNames}
ClassUnions == {Union(<<a, b>>) : a \in ClassLits, b \in ClassLits} \ {Union(<<a, a>>) : a \in ClassLits}
SpaceA == ProtoTypes \cup UnionsA \cup {TObj, Typed("K_m"), Typed("KP1"), Typed("PG")} \cup CallTerms
SpaceB == CandTyped \cup CandKnown \cup ProtoTypes \cup UnionsB
\* what is offered to the expected type A in "pairs" mode
SpaceBOf(A) == SpaceB \cup FunLits \cup {Known(KxiS)} \cup SameTypeUnions
               \cup (IF A \in {Typed("PA"), Typed("PAn")} THEN ClassLits \cup ClassUnions ELSE {})
               \cup (IF A.k = "callable" THEN CallTerms ELSE {})

\* the recursive family: the only checks whose nested checks run under a recursion-guard assumption
RecProtos == {Typed("PRec"), Typed("PQ1"), Typed("PQ2"), Typed("PAcc")}
RecCands == {"KRec", "KRecBad", "KRecP", "KQ", "KQz", "KAccSelf", "KAccP", "KAccObj", "K_"}
\* "rec": the recursive family + two plain protocols; "rec3": its core (3-step histories); "mid": a cross-section of
\* the whole space (simulation); "all": everything
MidCands == {"K_", "K_m", "Kms", "K_mnk", "KP1x", "Kname", "KnameLen", "KPS", "KNoHash", "Kgi", "Kgs", "Kx", "Kxs", "Kxprops",
             "KRec", "KRecBad", "KQ", "KQz", "KAccP", "Kcalls", "int"}
HistA == CASE HistSpace = "rec" -> RecProtos \cup {Typed("P1"), Generic("PG", <<TInt>>)}
           [] HistSpace = "rec3" -> RecProtos
           [] OTHER -> ProtoTypes \cup UnionsA
HistB == CASE HistSpace = "rec" -> {Typed(c) : c \in RecCands \cup {"K_m", "Kgi", "Kgs"}} \cup {Known(PInst(c)) : c \in RecCands} \cup RecProtos
           [] HistSpace = "rec3" -> {Typed(c) : c \in {"KRec", "KRecBad", "KQ", "KQz", "KAccSelf", "KAccP"}}
                                    \cup {Known(PInst("KQ")), Known(PInst("KRec")), Typed("PQ1"), Typed("PQ2")}
           [] HistSpace = "mid" -> {Typed(c) : c \in MidCands} \cup {Known(PInst(c)) : c \in MidCands \ {"int"}}
                                   \cup {Typed("P3"), Typed("PQ1"), Typed("PQ2"), Typed("PRec")} \cup UnionsB
           [] OTHER -> SpaceB

VARIABLES pstage, pa, pb, pcache, pcacheR, phist
pvars == <<pstage, pa, pb, pcache, pcacheR, phist>>
RepF0 == [F0 EXCEPT !.cacheassumed = FALSE]      \* the repair: cache only what was computed without outer assumptions

PInit == /\ pstage = "a" /\ pa = Never /\ pb = Never /\ pcache = {} /\ pcacheR = {} /\ phist = << >>
         /\ stage = "proto" /\ ta = Never /\ tb = Never /\ ob = NONE
PChooseA == PMode = "pairs" /\ pstage = "a" /\ \E t \in SpaceA : pa' = t /\ pstage' = "b" /\ UNCHANGED <<pb, pcache, pcacheR, phist>>
PChooseB == PMode = "pairs" /\ pstage = "b" /\ \E t \in SpaceBOf(pa) : pb' = t /\ pstage' = "done" /\ UNCHANGED <<pa, pcache, pcacheR, phist>>
\* one check through the shared Checker: verdict with the current cache, the cache afterwards (r / pcache: the code as
\* it is; rr / pcacheR: the same history through the repaired caching rule)
PCheckStep ==
    /\ PMode = "hist" /\ pstage \in {"a", "h"} /\ Len(phist) < HistLen
    /\ \E a \in HistA, b \in HistB :
          LET r == Accept(a, b, pcache, F0)
              rr == Accept(a, b, pcacheR, RepF0)
          IN /\ pa' = a /\ pb' = b /\ pcache' = r.c /\ pcacheR' = rr.c
             /\ phist' = Append(phist, [a |-> a, b |-> b, r |-> r.r, rr |-> rr.r])
             /\ pstage' = IF Len(phist) + 1 = HistLen THEN "hdone" ELSE "h"
PNext == (PChooseA \/ PChooseB \/ PCheckStep) /\ UNCHANGED vars

PDone == pstage = "done"
Devs0 == IF PNoDev = "all" THEN {} ELSE DevFlags \ {PNoDev}
InvPSound == PDone => C04P_Sound(pa, pb, F0, Devs0)
\* every deviation class is inhabited by an unsound acceptance that no other class explains (so none of them is vacuous
\* and InvPSound without that class is violated)
DevInhabited(f) == \E A \in SpaceA : \E B \in SpaceBOf(A) :
                       /\ ~PHasBare(A) /\ ~PHasBare(B) /\ AcceptF(A, B, RealF) /\ ~RefSound(A, B)
                       /\ Dev_Of(f, A, B) /\ \A g \in DevFlags \ {f} : ~Dev_Of(g, A, B)
InvPDevInhabited == pstage = "a" => \A f \in DevFlags : DevInhabited(f)
InvPSoundRepaired == PDone => C04P_Sound(pa, pb, AllRepaired, {})      \* with every deviation repaired the model is sound
InvPRefl == (pstage = "b" /\ (IsPT(pa) \/ pa.k \in {"union", "callable"})) => C04P_Refl(pa)
InvPUnionLeft == PDone => C04P_UnionLeftF(pa, pb, F0)
InvPUnionRight == PDone => C04P_UnionRight(pa, pb)
InvPNeverBottom == pstage = "b" => AcceptF(pa, Never, RealF)
InvPObjectTop == PDone => AcceptF(TObj, pb, RealF)
\* protocol inheritance: the derived protocol is accepted by its base, not conversely; the ABC members are required
InvPInheritance == /\ AcceptF(Typed("P1"), Typed("P3"), RealF) /\ ~AcceptF(Typed("P3"), Typed("P1"), RealF)
                   /\ ~AcceptF(Typed("PS"), Typed("Kname"), RealF) /\ AcceptF(Typed("PS"), Typed("KPS"), RealF)
\* history independence: the verdict of every step equals the verdict of a fresh Checker ...
LastStep == phist[Len(phist)]
FreshOf(h) == AcceptF(h.a, h.b, F0)
\* ... except for the confirmed deviation: a positive result that was computed while an outer recursion-guard assumption
\* was active has been cached, the assumption later failed, and the cached (wrong) answer is now served.  The class is
\* exactly: served TRUE, fresh FALSE, and the repaired caching rule gives the fresh answer on the same history.
Dev_CachePoisonedByAssumption(h) == h.r /\ ~FreshOf(h) /\ h.rr = FreshOf(h) /\ F0.cacheassumed
InvPHistIndepStrict == phist # << >> => LastStep.r = FreshOf(LastStep)
InvPHistIndep == phist # << >> => (LastStep.r = FreshOf(LastStep) \/ Dev_CachePoisonedByAssumption(LastStep))
InvPHistIndepRepaired == phist # << >> => LastStep.rr = FreshOf(LastStep)
=============================================================================
