---------------------------- MODULE CallableKinds ----------------------------
(***************************************************************************)
(* Property C05, third mechanism: "signature extraction from runtime       *)
(* objects".  A call `obj(ARGS)` is bound against a parameter list that    *)
(* depends on the KIND of callable object `obj` is and on the ACCESS PATH   *)
(* (`via`) by which the call site reaches it.  A case is                   *)
(*     [kind, via, sig, call]                                              *)
(* with sig / call the signature and call-shape terms of CPythonBind.tla;  *)
(* sig is the parameter list P written in the source BEYOND the receiver   *)
(* parameter (self / cls), if the kind has a dedicated one.                *)
(*                                                                         *)
(* kind       what the source defines                 via (call expression)*)
(* func       def f(P)                                 direct  f(ARGS)     *)
(* lambda     f = lambda P: None                       direct              *)
(* async      async def f(P)                           direct  await f(..) *)
(* wrapped    @functools.wraps(g) def f(P); g = (q, /) direct              *)
(* annot      def f(P) with every parameter annotated  int | str  (the     *)
(*            T, every argument value of type T        annotation type T)  *)
(* smeth      class C: @staticmethod def m(P)          class C.m(..) |     *)
(*                                                     known c.m(..), c a  *)
(*                                                     module global |     *)
(*                                                     typed o.m(..), o: C *)
(* meth       class C: def m(self, P)                  known | typed |     *)
(*                                                     class C.m(c, ..):   *)
(*                                                     plain function, the *)
(*                                                     arguments fill self *)
(* cmeth      class C: @classmethod def m(cls, P)      class | known | typed*)
(* rawmeth    class C: def m(P)  (no dedicated self:   known | typed       *)
(*            the first parameter receives the instance)                   *)
(* callobj    class C: def __call__(self, P)           known c(..) |       *)
(*                                                     typed o(..), o: C   *)
(* init       class C: def __init__(self, P)           class C(..) |       *)
(*                                                     typed t(..), t: type[C]*)
(* inherit    class B: def __init__(self, P); class C(B): pass              *)
(* new        class C: def __new__(cls, P)                                 *)
(* newinit    class C: __new__(cls, P) and __init__(self, P)               *)
(* newstar    class C: __new__(cls, *args, **kwargs) and __init__(self, P) *)
(* initstar   class C: __new__(cls, P) and __init__(self, *args, **kwargs) *)
(* rawinit    class C: def __init__(P)                                     *)
(* bare       class C: pass                 (sig is empty)                 *)
(* dataclass  @dataclass class C, one field per parameter (pk: plain       *)
(*            field, ko: field(kw_only=True); dflt: default 0)             *)
(* ntuple     class C(NamedTuple), one field per parameter (pk only)       *)
(* partial    functools.partial(f, PRE) over def f(P)   p0: no PRE | p1: one*)
(*                                                     positional | pk: the*)
(*                                                     keyword a=0         *)
(*                                                                         *)
(* Impl* transcribes the case analysis of                                  *)
(*   checker.py:279        Checker.signature_from_value                    *)
(*   arg_spec.py:662       ArgSpecCache._uncached_get_argspec              *)
(*   signature.py:2610     BoundMethodSignature.check_call / get_signature *)
(*   signature.py:1946     Signature.bind_self                             *)
(*   attributes.py:339     _unwrap_value_from_typed                        *)
(* into "which parameter list is bound against which argument list"; the   *)
(* binding itself is ImplRun of Binder.tla.  Ref* is what CPython does     *)
(* when the call expression is evaluated (Language Reference 3.2 "The      *)
(* standard type hierarchy": instance methods, class instances, classes;   *)
(* 3.3.1 object.__new__ / __init__; library reference: dataclasses,        *)
(* typing.NamedTuple, functools.partial / wraps, staticmethod, classmethod)*)
(* and never refers to an Impl operator.  Every run validates Ref against  *)
(* REALLY PERFORMING the call (CallableKindsTrace.tla).                    *)
(***************************************************************************)
EXTENDS Binder

CONSTANTS
    Kinds,      \* the kinds enumerated by this configuration (a set of strings)
    KMutant     \* "none", or a bug switched on in the Impl model (sensitivity self-tests):
                \*   "bound_method_keeps_call"  a bound method is bound without the receiver argument
                \*   "kwonly_field_positional"  a kw_only dataclass field is a positional-or-keyword parameter
                \*   "init_over_new"            a class with a Python __new__ is still bound against __init__

AllKinds == {"func", "lambda", "async", "wrapped", "annot", "smeth", "meth", "cmeth", "rawmeth", "callobj",
             "init", "inherit", "new", "newinit", "newstar", "initstar", "rawinit", "bare", "dataclass", "ntuple",
             "partial"}

ViasOf(k) ==
    CASE k \in {"func", "lambda", "async", "wrapped"} -> {"direct"}
      [] k = "annot" -> {"int", "str"}
      [] k \in {"smeth", "meth", "cmeth"} -> {"class", "known", "typed"}
      [] k \in {"rawmeth", "callobj"} -> {"known", "typed"}
      [] k = "partial" -> {"p0", "p1", "pk"}
      [] OTHER -> {"class", "typed"}                                \* the constructor kinds

\* parameter lists that exist for the kind (prefix-closed, so the staged generator can test it per AddParam)
SigOK(k, sig) ==
    CASE k = "bare" -> sig = << >>
      [] k = "dataclass" -> \A i \in DOMAIN sig : sig[i].kind \in {"pk", "ko"}
      [] k = "ntuple" -> \A i \in DOMAIN sig : sig[i].kind = "pk"
      [] OTHER -> TRUE

ConstructorKinds == {"init", "inherit", "new", "newinit", "newstar", "initstar", "rawinit", "bare", "dataclass", "ntuple"}

(***************************************************************************)
(* Vocabulary shared by both sides: the receiver parameter as the source   *)
(* writes it (`self` / `cls`; positional-only exactly when the parameter   *)
(* after it is, as the grammar demands), and generic *args / **kwargs.     *)
(* No keyword of a generated call is ever spelled self / args / kwargs.    *)
(***************************************************************************)
Receiver(sig) == [kind |-> IF sig # << >> /\ sig[1].kind = "po" THEN "po" ELSE "pk", name |-> "self", dflt |-> FALSE]
WithReceiver(sig) == << Receiver(sig) >> \o sig
StarArgs == [kind |-> "va", name |-> "args", dflt |-> FALSE]
StarKwargs == [kind |-> "vk", name |-> "kwargs", dflt |-> FALSE]

(***************************************************************************)
(* Ref: what evaluating the call expression does under CPython.            *)
(* RefTarget(c) = [sig      the parameter list of the function whose       *)
(*                          binding decides the outcome,                   *)
(*                 implicit number of positional arguments CPython inserts *)
(*                          in front of the written ones,                  *)
(*                 prekw    keywords supplied by the callable itself]      *)
(***************************************************************************)
Target(sig, implicit) == [sig |-> sig, implicit |-> implicit, prekw |-> {}]

RefTarget(c) ==
    CASE \* a function object is called with exactly the written arguments.  An `async def` call binds the
         \* arguments and returns a coroutine; functools.wraps only copies metadata onto the wrapper, the call
         \* runs the wrapper; annotations are not consulted; a staticmethod yields the underlying function
         \* whether looked up on the class or on an instance.
         c.kind \in {"func", "lambda", "async", "wrapped", "annot", "smeth"} -> Target(c.sig, 0)
         \* 3.2 Instance methods: "When an instance method object is called, the underlying function is called,
         \* inserting the class instance in front of the argument list"; looked up on the class the attribute is
         \* the plain function, so the written arguments fill `self` as well.
      [] c.kind = "meth" /\ c.via = "class" -> Target(WithReceiver(c.sig), 0)
      [] c.kind = "meth" -> Target(WithReceiver(c.sig), 1)
         \* without a dedicated self the instance goes to whatever the first parameter is
      [] c.kind = "rawmeth" -> Target(c.sig, 1)
         \* a class method object is bound to the class, via the class and via an instance alike
      [] c.kind = "cmeth" -> Target(WithReceiver(c.sig), 1)
         \* 3.2 Class instances: x(args) is type(x).__call__(x, args)
      [] c.kind = "callobj" -> Target(WithReceiver(c.sig), 1)
         \* 3.2 Classes / 3.3.1: C(args) calls C.__new__(C, args) and then, the result being an instance of C,
         \* __init__(instance, args).  object.__new__ and object.__init__ accept surplus arguments exactly when
         \* the OTHER of the two methods is overridden (and they are not).
         \*   only __init__ overridden (also when inherited, and the __init__ generated by @dataclass: its
         \*   parameters are the fields in order, kw_only fields keyword-only): __init__ decides
      [] c.kind \in {"init", "inherit", "dataclass"} -> Target(WithReceiver(c.sig), 1)
      [] c.kind = "rawinit" -> Target(c.sig, 1)
         \*   only __new__ overridden (typing.NamedTuple generates __new__(_cls, <fields>)): __new__ decides
      [] c.kind \in {"new", "ntuple"} -> Target(WithReceiver(c.sig), 1)
         \*   both with the same parameters: the same verdict twice
      [] c.kind = "newinit" -> Target(WithReceiver(c.sig), 1)
         \*   one of them generic (*args, **kwargs), which binds everything: the other decides
      [] c.kind \in {"newstar", "initstar"} -> Target(WithReceiver(c.sig), 1)
         \*   neither overridden: "C() takes no arguments"
      [] c.kind = "bare" -> Target(<< Receiver(<< >>) >>, 1)
         \* functools.partial(f, *pre, **prekw)(*a, **k) is f(*pre, *a, **{**prekw, **k}): keywords of the call
         \* override the stored ones, so a repeated keyword is not an error
      [] c.kind = "partial" /\ c.via = "p0" -> Target(c.sig, 0)
      [] c.kind = "partial" /\ c.via = "p1" -> Target(c.sig, 1)
      [] c.kind = "partial" /\ c.via = "pk" -> [sig |-> c.sig, implicit |-> 0, prekw |-> {Names[1]}]

RefKindBindsCC(c, cc) ==
    LET t == RefTarget(c)
    IN RefBinds(t.sig, [npos |-> cc.npos + t.implicit, kws |-> cc.kws \cup t.prekw, dup |-> cc.dup])

RefKindBinds(c, e) == RefKindBindsCC(c, Expand(c.call, e))

\* the case in the vocabulary of Binder.tla / CPythonBind.tla: the deciding function and ALL its positional
\* arguments (the known-deviation predicates of Binder.tla are stated on this form)
KNorm(c) == [sig |-> RefTarget(c).sig, call |-> [c.call EXCEPT !.pos = @ + RefTarget(c).implicit]]

\* expansions of unknown-length star arguments: one more element than parameters can be needed (C.m( *xs )),
\* and the keys of a **mapping range over the names of the DECIDING function's parameters (C.m( **kw ) can
\* supply `self`), the call's keywords and z
KExpBound(c, maxexp) == IF Len(c.sig) + 1 > maxexp THEN Len(c.sig) + 1 ELSE maxexp
KExpNames(c) == ExpNames(KNorm(c))
KExpansions(c, bound, nonempty) == Expansions(KNorm(c), bound, nonempty)

(***************************************************************************)
(* Callables pyanalyze deliberately does not check (arg_spec.py:961 "we    *)
(* could get an argspec here in some cases, but ... just give up"): an     *)
(* object with __call__ that is known as a module-level VALUE (callable    *)
(* instance, functools.partial object) gets ANY_SIGNATURE.  For these the  *)
(* property is only demanded in the direction "reported => TypeError".     *)
(***************************************************************************)
Unchecked(c) == (c.kind = "callobj" /\ c.via = "known") \/ c.kind = "partial"

KRefConcreteAgrees(c, accepted) ==
    LET binds == RefKindBinds(c, NoExpansion)
    IN IF Unchecked(c) THEN (~accepted => ~binds) ELSE (accepted <=> binds)

KRefAcceptSound(c, accepted, maxexp) ==
    (accepted /\ ~Unchecked(c)) => \E e \in KExpansions(c, KExpBound(c, maxexp), FALSE) : RefKindBinds(c, e)

KRefRejectSound(c, accepted, maxexp) ==
    ~accepted => \A e \in KExpansions(c, maxexp, TRUE) : ~RefKindBinds(c, e)

(***************************************************************************)
(* Impl: which parameter list pyanalyze binds against which argument list  *)
(***************************************************************************)
\* the parameters inspect.signature reports for the function object whose signature is taken
\* (arg_spec.py:832 / :900 `_safe_get_signature`, follow_wrapped=False, so a functools.wraps wrapper keeps
\* its own parameters; :396 from_signature turns each into a SigParameter of the same kind and default)
ImplConstructorIsNew(c) ==                                  \* arg_spec.py:895 isinstance(obj.__new__, FunctionType)
    c.kind \in {"new", "newinit", "newstar", "initstar", "ntuple"} /\ KMutant # "init_over_new"

ImplFields(c) ==                                            \* the parameters of a dataclass's generated __init__
    IF KMutant = "kwonly_field_positional"
    THEN [i \in DOMAIN c.sig |-> [c.sig[i] EXCEPT !.kind = "pk"]]
    ELSE c.sig

ImplDeclared(c) ==
    CASE c.kind \in {"func", "lambda", "async", "wrapped", "annot", "smeth", "rawmeth", "rawinit"} -> c.sig
      [] c.kind = "newstar" ->
            IF ImplConstructorIsNew(c) THEN << Receiver(<< >>), StarArgs, StarKwargs >>     \* __new__ is chosen
            ELSE WithReceiver(c.sig)
      [] c.kind = "initstar" ->
            IF ImplConstructorIsNew(c) THEN WithReceiver(c.sig)
            ELSE << Receiver(<< >>), StarArgs, StarKwargs >>
      [] c.kind = "bare" ->                                  \* :899 obj.__init__ is object.__init__, whose
            << [kind |-> "po", name |-> "self", dflt |-> FALSE], StarArgs, StarKwargs >>    \* text signature is
                                                                                           \* ($self, /, *args, **kwargs)
      [] c.kind = "dataclass" -> WithReceiver(ImplFields(c))
      [] OTHER -> WithReceiver(c.sig)

\* Signature.bind_self (signature.py:1946): what is left of a parameter list when the receiver is bound
ImplBindSelf(params) ==
    IF params = << >> THEN "none"                                                 \* :1955
    ELSE IF params[1].kind = "va" THEN "keep"                                     \* :1958 (ELLIPSIS does not occur)
    ELSE IF params[1].kind \in {"po", "pk"} THEN "drop"                           \* :1968
    ELSE "none"                                                                   \* :1975

\* the route the call takes
ImplRoute(c) ==
    CASE \* KnownValue(function): arg_spec.py:825 inspect.isfunction -> from_signature; Signature.check_call
         \* (C.m for a plain method and every access to a staticmethod also give the function: attributes.py:363)
         c.kind \in {"func", "lambda", "async", "wrapped", "annot", "smeth"} \/ (c.kind = "meth" /\ c.via = "class")
            -> "Route_Function"
         \* KnownValue(bound method object): c.m on a known instance, C.m / c.m / o.m for a classmethod
         \* (attributes.py:346 keeps the bound classmethod): arg_spec.py:697 inspect.ismethod -> make_bound_method
      [] (c.kind \in {"meth", "rawmeth"} /\ c.via = "known") \/ c.kind = "cmeth"
            -> "Route_BoundMethodObject"
         \* attribute of a TypedValue that is a function in the class: attributes.py:366 UnboundMethodValue ->
         \* checker.py:306-320 make_bound_method(sig, value.composite)
      [] c.kind \in {"meth", "rawmeth"} /\ c.via = "typed" -> "Route_UnboundMethodValue"
         \* KnownValue(class) and SubclassValue(TypedValue(class)) (checker.py:353-363) both reach
         \* arg_spec.py:857 inspect.isclass; :917-936 make_bound_method(...).get_signature() = bind_self
      [] c.kind \in ConstructorKinds ->
            (CASE ImplBindSelf(ImplDeclared(c)) = "drop" -> "Route_ClassDropReceiver"
               [] ImplBindSelf(ImplDeclared(c)) = "keep" -> "Route_ClassStarReceiver"
               [] OTHER -> "Route_ClassFallbackBound")                                      \* :936 return bound_sig
         \* TypedValue(C) called: checker.py:340-352 typ.__call__ -> make_bound_method -> get_signature
      [] c.kind = "callobj" /\ c.via = "typed" -> "Route_TypedCallDropReceiver"
         \* KnownValue(object with __call__ that is neither function nor class): arg_spec.py:961-965
      [] Unchecked(c) -> "Route_AnySignature"

\* BoundMethodSignature.check_call (signature.py:2616) binds [(self_composite, None), *args]: one more leading
\* positional argument, the parameter list unchanged
Prepended(call) == [call EXCEPT !.pos = @ + 1]

\* [mode |-> "bind", sig, call]: what is handed to preprocess_args / bind_arguments;  [mode |-> "any"]: nothing
ImplKind(c) ==
    LET r == ImplRoute(c)
        d == ImplDeclared(c)
        Bind(s, a) == [mode |-> "bind", sig |-> s, call |-> a]
    IN CASE r = "Route_Function" -> Bind(d, c.call)
         [] r = "Route_BoundMethodObject" ->
                Bind(d, IF KMutant = "bound_method_keeps_call" THEN c.call ELSE Prepended(c.call))
         [] r = "Route_UnboundMethodValue" -> Bind(d, Prepended(c.call))
         [] r = "Route_ClassDropReceiver" -> Bind(Tail(d), c.call)
         [] r = "Route_ClassStarReceiver" -> Bind(d, c.call)
         [] r = "Route_ClassFallbackBound" -> Bind(d, Prepended(c.call))
         [] r = "Route_TypedCallDropReceiver" -> Bind(Tail(d), c.call)     \* __call__(self, ...) always starts with pk/po
         [] r = "Route_AnySignature" -> [mode |-> "any", sig |-> << >>, call |-> c.call]

AnyOk == [BindStart EXCEPT !.verdict = "ok", !.why = "AnySignature"]       \* name_check_visitor.py:5565

ImplKindRun(c) ==
    LET k == ImplKind(c)
    IN IF k.mode = "any" THEN AnyOk ELSE ImplRun([sig |-> k.sig, call |-> k.call])

ImplKindAccepted(c) == ImplKindRun(c).verdict = "ok"

(***************************************************************************)
(* Known deviations of the unchanged tree on these routes                  *)
(*   (known_findings.jsonl; the two classes of Binder.tla apply to the     *)
(*   normal form KNorm(c) of the case)                                     *)
(***************************************************************************)
\* key "bare-class-accepts-arguments": a class that defines neither __init__ nor __new__ is bound against
\* object.__init__'s text signature (self, /, *args, **kwargs), so C(1) is not reported although it raises
\* "C() takes no arguments"
Dev_BareClassAcceptsArguments(c) == c.kind = "bare"

\* key "init-ignored-when-new-defined": as soon as a class has a Python-level __new__ only that is consulted,
\* so arguments that __new__(cls, *args, **kwargs) lets through and __init__ then rejects are not reported
Dev_InitIgnoredWhenNewDefined(c) == c.kind = "newstar"

\* key "receiver-name-keyword-absorbed": binding the receiver REMOVES the first parameter (bind_self), so a
\* keyword argument spelled like the receiver parameter is no longer "multiple values" but an ordinary surplus
\* keyword: it flows into a **kwargs parameter (or hides behind a **mapping of unknown keys, the deviation
\* keyword-hidden-by-star-kwargs of Binder.tla) and the call is accepted
Dev_ReceiverNameKeywordAbsorbed(c) ==
    /\ c.kind = "rawinit" /\ c.sig # << >> /\ c.sig[1].kind = "pk"
    /\ c.sig[1].name \in ToSet(c.call.kws) \cup ToSet(c.call.dkeys)

KindDeviation(c) ==
    Dev_BareClassAcceptsArguments(c) \/ Dev_InitIgnoredWhenNewDefined(c) \/ Dev_ReceiverNameKeywordAbsorbed(c)

(***************************************************************************)
(* The machine: choose kind and access path, then the staged generator of  *)
(* Binder.tla builds signature and call, then ONE ACTION PER ROUTE applies *)
(* the transformation and binds.                                           *)
(***************************************************************************)
KBlank == [kind |-> "", via |-> "", sig |-> << >>, call |-> Blank.call]

KInit == case = KBlank /\ stage = "kind" /\ act = NoActuals /\ st = BindStart /\ br = ""

ChooseKind ==
    /\ stage = "kind"
    /\ \E k \in Kinds, v \in {"direct", "int", "str", "class", "known", "typed", "p0", "p1", "pk"} :
         /\ v \in ViasOf(k)
         /\ case' = [case EXCEPT !.kind = k, !.via = v]
    /\ stage' = "params" /\ UNCHANGED <<act, st, br>>

KAddParam == AddParam /\ SigOK(case'.kind, case'.sig)

Route(r) ==
    /\ stage = "preprocess" /\ ImplRoute(case) = r
    /\ st' = ImplKindRun(case)
    /\ br' = r
    /\ stage' = "done" /\ UNCHANGED <<case, act>>

Route_Function == stage = "preprocess" /\ Route("Route_Function")
Route_BoundMethodObject == stage = "preprocess" /\ Route("Route_BoundMethodObject")
Route_UnboundMethodValue == stage = "preprocess" /\ Route("Route_UnboundMethodValue")
Route_ClassDropReceiver == stage = "preprocess" /\ Route("Route_ClassDropReceiver")
Route_ClassStarReceiver == stage = "preprocess" /\ Route("Route_ClassStarReceiver")
Route_ClassFallbackBound == stage = "preprocess" /\ Route("Route_ClassFallbackBound")
Route_TypedCallDropReceiver == stage = "preprocess" /\ Route("Route_TypedCallDropReceiver")
Route_AnySignature == stage = "preprocess" /\ Route("Route_AnySignature")

KNext ==
    \/ ChooseKind \/ KAddParam \/ EndParams \/ ChoosePositional \/ ChooseKeywords \/ ChooseDstar
    \/ Route_Function \/ Route_BoundMethodObject \/ Route_UnboundMethodValue
    \/ Route_ClassDropReceiver \/ Route_ClassStarReceiver \/ Route_ClassFallbackBound
    \/ Route_TypedCallDropReceiver \/ Route_AnySignature

(***************************************************************************)
(* Properties                                                              *)
(***************************************************************************)
KDone == stage = "done"

\* statically known shape: reported <=> the real call raises TypeError
KindConcrete ==
    (KDone /\ IsConcrete(case.call)) => (KRefConcreteAgrees(case, Accepted) \/ (KindDeviation(case) /\ Accepted))
KindConcreteStrict == (KDone /\ IsConcrete(case.call)) => KRefConcreteAgrees(case, Accepted)

\* unknown-length star arguments
KindAcceptSound ==
    (KDone /\ ~IsConcrete(case.call))
        => (KRefAcceptSound(case, Accepted, MaxExp) \/ Dev_KeywordHiddenByStarKwargs(KNorm(case)) \/ KindDeviation(case))
KindAcceptSoundStrict == (KDone /\ ~IsConcrete(case.call)) => KRefAcceptSound(case, Accepted, MaxExp)
KindRejectSound ==
    (KDone /\ ~IsConcrete(case.call))
        => (KRefRejectSound(case, Accepted, MaxExp) \/ Dev_StarArgsThenKeyword(KNorm(case)))

\* every kind has a route and only the unchecked ones skip the binder
RoutesTotal == KDone => (br \in {"Route_Function", "Route_BoundMethodObject", "Route_UnboundMethodValue",
                                 "Route_ClassDropReceiver", "Route_ClassStarReceiver", "Route_ClassFallbackBound",
                                 "Route_TypedCallDropReceiver", "Route_AnySignature"}
                         /\ (br = "Route_AnySignature" <=> Unchecked(case)))
=============================================================================
