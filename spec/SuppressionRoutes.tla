------------------------- MODULE SuppressionRoutes -------------------------
(***************************************************************************)
(* Property C11, the routes and mechanisms beyond the base model of        *)
(* Suppression.tla:                                                        *)
(*                                                                         *)
(*  Part 1  ENABLING.  How a settings request -- the command line          *)
(*          (--enable-all / --disable-all / -e CODE / -d CODE), the        *)
(*          top-level section of the configuration file, the override      *)
(*          section of the module being checked and the override section   *)
(*          of some other module -- decides whether a code is enabled.     *)
(*          ImplEnabled transcribes BaseNodeVisitor.main                   *)
(*          (node_visitor.py:362-384), NameCheckVisitor                    *)
(*          .prepare_constructor_kwargs (name_check_visitor.py:5823-5849), *)
(*          the instance order of options.py (sort_key :115,               *)
(*          get_value_from_instances :101, is_error_code_enabled :301).    *)
(*          RefEnabled is the layered meaning of the documentation.        *)
(*                                                                         *)
(*  Part 2  FILES WITH STRUCTURE.  Lines carry a `shape` (how the line is  *)
(*          realised: module-level lambda, continuation line of a          *)
(*          bracketed statement, function body, decorator, nested def,     *)
(*          body of a `with assert_error():` block, docstring, shebang...),*)
(*          more codes (c4 reaches show_error only through                 *)
(*          catch_errors / show_caught_errors, c5 is disabled by default,  *)
(*          c6 is reported on a FunctionDef node) and the comment form     *)
(*          `ignore[a, b]` ("multi").                                      *)
(*                                                                         *)
(*  Part 3  catch_errors AS STATE.  The visitor's calls are a sequence of  *)
(*          operations begin / show / end_drop / end_reemit; the stack of  *)
(*          `caught_errors` lists (node_visitor.py:544-552, 591-612) is a  *)
(*          variable; actions CatchBegin, ShowCaught, CatchEndDrop,        *)
(*          CatchEndReemit, ShowCaughtStep and one Decide action per       *)
(*          return path of the decision chain (ImplShow of Suppression).   *)
(*                                                                         *)
(* Ref side: the diagnostics of a file are those that are reported when    *)
(* every code is enabled and there is no comment (errors caught by an      *)
(* assert_error block do not exist); OutputOKFor of Suppression.tla is     *)
(* applied to that file and to the settings RefEnabled yields.             *)
(***************************************************************************)
EXTENDS Suppression

CONSTANTS
    RDiagSets,      \* diagnostic sequences a code line may raise (codes in the order c1 c2 c4 c5 c6)
    RIgnSet,        \* ignore-comment forms in use (subset of RIgns)
    RShapes,        \* code-line shapes in use
    ROtherShapes,   \* shapes of comment lines in use: "plain", "shebang"
    CfgCodes,       \* codes a settings request may mention
    CfgAlls,        \* subset of {"none", "enable_all", "disable_all"}
    CfgFlags,       \* subset of {"", "e", "d", "ed"}: is the code named by -e / -d / both
    CfgTris,        \* values a configuration-file section may give a code: subset of Tri
    RPrefixes,      \* the files are the extensions of these line sequences (normally {<< >>})
    MinLines,       \* a file has at least this many lines
    Bug             \* "none", or the name of a seeded defect of the Impl operators (sensitivity runs)

RCodes == {"c1", "c2", "c4", "c5", "c6"}        \* codes statements raise
NoiseCode == "cn"                               \* implicit_any: raised at many nodes of every realised line when
                                                \* enabled; switched off by -d whenever --enable-all is requested (RChooseAll)
MetaCodes == {"unused_ignore", "bare_ignore"}
AllEnCodes == RCodes \cup MetaCodes \cup {NoiseCode}
RIgns == {"bare", "multi", "c1", "c2", "c3", "c4", "c5", "c6"}
\* error_code.py:188 DISABLED_BY_DEFAULT: value_always_true (c5), unused_ignore, bare_ignore, implicit_any
DefaultOn(code) == code \in {"c1", "c2", "c3", "c4", "c6"}
Tri == {"unset", "on", "off"}

(***************************************************************************)
(* Part 1: enabling                                                        *)
(* cfg = [all, en, dis : sets of codes, top, ov, oth : code -> Tri]        *)
(***************************************************************************)
\* ---- Impl.  main() builds the `settings` dict (node_visitor.py:366-378):
ImplCliSetting(cfg, code) ==
    LET s0 == IF cfg.all = "enable_all" THEN "on"             \* :367-368 {code: True for code in error_code_enum}
              ELSE IF cfg.all = "disable_all" THEN "off"      \* :369-370
              ELSE "unset"                                    \* :372 _get_default_settings() == {} (name_check_visitor.py:5818)
        en == IF code \in cfg.en THEN "on" ELSE "keep"        \* :375-376 for setting in args.enable
        dis == IF code \in cfg.dis THEN "off" ELSE "keep"     \* :377-378 for setting in args.disable (runs second)
        first == IF Bug = "disable_before_enable" THEN dis ELSE en
        second == IF Bug = "disable_before_enable" THEN en ELSE dis
        s1 == IF first # "keep" THEN first ELSE s0
    IN IF second # "keep" THEN second ELSE s1

\* option instances that exist for `code`, in creation order: [val, cl (from_command_line), plen (length of
\* applicable_to), app (applicable to the module being checked)]
Inst(tri, cl, plen, app) == [val |-> tri = "on", cl |-> cl, plen |-> plen, app |-> app]
ImplInstances(cfg, code) ==
    (IF ImplCliSetting(cfg, code) # "unset"                   \* name_check_visitor.py:5828-5831: every settings entry
        THEN << Inst(ImplCliSetting(cfg, code), TRUE, 0, TRUE) >> ELSE << >>)    \* -> option_cls(value, from_command_line=True)
    \o (IF cfg.top[code] # "unset" THEN << Inst(cfg.top[code], FALSE, 0, TRUE) >> ELSE << >>)   \* options.py:423-431, module_path ()
    \o (IF cfg.ov[code] # "unset" THEN << Inst(cfg.ov[code], FALSE, 1, TRUE) >> ELSE << >>)     \* :401-416 override of this module
    \o (IF cfg.oth[code] # "unset" THEN << Inst(cfg.oth[code], FALSE, 1, FALSE) >> ELSE << >>)  \* override of another module:
                                                                                                \* is_applicable_to fails (:112)
\* sort_key (options.py:115): (not from_command_line, priority (0 here), -len(applicable_to)); sorted() is stable
ImplSortKey(inst) == (IF inst.cl /\ Bug # "config_beats_command_line" THEN 0 ELSE 10) + (1 - inst.plen)
ImplEnabled(cfg, code) ==
    LET insts == ImplInstances(cfg, code)
        idx == {j \in 1..Len(insts) : insts[j].app \/ Bug = "other_module_applies"}     \* get_value_from_instances :107-109
    IN IF idx = {} THEN DefaultOn(code)                       \* :296 the default instance appended last / :305 NotFound
       ELSE LET j == CHOOSE j \in idx : \A m \in idx :
                        \/ ImplSortKey(insts[j]) < ImplSortKey(insts[m])
                        \/ ImplSortKey(insts[j]) = ImplSortKey(insts[m]) /\ j <= m
            IN insts[j].val

\* ---- Ref.  README: "--enable/--disable, which enable and disable specific error codes"; --help: "-a Enable all
\* checks by default", "--disable-all Disable all checks by default" (so a specific -e/-d refines them);
\* docs/configuration.md: "Enable or disable some checks" (top-level section), "But re-enable it for a specific
\* module" (overrides), "can also be set on the command line" (the command line is the request of this run and
\* wins over the file).  The property: "disabling a code ... by command line removes exactly the diagnostics of
\* that code" -- so -d wins when a code is named by both -e and -d.
RefEnabled(cfg, code) ==
    IF code \in cfg.dis THEN FALSE
    ELSE IF code \in cfg.en THEN TRUE
    ELSE IF cfg.all = "enable_all" THEN TRUE
    ELSE IF cfg.all = "disable_all" THEN FALSE
    ELSE IF cfg.ov[code] # "unset" THEN cfg.ov[code] = "on"
    ELSE IF cfg.top[code] # "unset" THEN cfg.top[code] = "on"
    ELSE DefaultOn(code)

EnabledOK(cfg) == \A code \in AllEnCodes : ImplEnabled(cfg, code) = RefEnabled(cfg, code)

(***************************************************************************)
(* Part 2: files with structure                                            *)
(***************************************************************************)
InSeq(x, s) == \E j \in 1..Len(s) : s[j] = x
ShapeOK(ln) ==
    /\ (ln.shape \in {"doc", "imp", "def", "with"} => ln.diags = NoDiags)
    /\ (InSeq("c6", ln.diags) => ln.shape \in {"idef", "idefh"})   \* c6 (missing_return) is reported on a FunctionDef node
    /\ (ln.shape = "idefh" => ln.diags \in {NoDiags, <<"c6">>})    \* header of a nested def whose body is the next line
    /\ (ln.shape = "wbody" => ln.diags # NoDiags)          \* an assert_error block without errors is itself an error (:4355)
\* a line is chosen in two steps: its kind and shape, then its diagnostics and comment
KindShapes == {<<"code", sh>> : sh \in RShapes} \cup {<<"own", "plain">>, <<"blank", "plain">>}
              \cup {<<"comment", sh>> : sh \in ROtherShapes}
LinesOf(kind, shape) ==
    IF kind = "code"
      THEN {ln \in [kind : {"code"}, diags : RDiagSets, ign : {"none"} \cup RIgnSet, shape : {shape}] : ShapeOK(ln)}
    ELSE IF kind = "own" THEN [kind : {"own"}, diags : {NoDiags}, ign : RIgnSet, shape : {"plain"}]
    ELSE {[kind |-> kind, diags |-> NoDiags, ign |-> "none", shape |-> shape]}

\* syntactic context after a line (comment and blank lines do not change it):
\*   top   module level              open  inside the brackets of a statement begun on an earlier line
\*   def0  after `def f():`          def   inside a function body, at least one statement seen
\*   with0 after `with assert_error():`    deco  after a decorator line
\*   idef0 after the header line of a nested def (shape idefh; the FunctionDef node then spans two lines)
AllowedShapes(ctx) ==
    CASE ctx = "top" -> {"stmt", "doc", "imp", "open", "def"}
      [] ctx = "open" -> {"mid", "close"}
      [] ctx = "def0" -> {"body", "with", "deco", "idef", "idefh"}
      [] ctx = "def" -> {"body", "with", "deco", "idef", "idefh", "stmt", "doc", "imp", "open", "def"}
      [] ctx = "with0" -> {"wbody"}
      [] ctx = "deco" -> {"idef", "idefh"}
      [] ctx = "idef0" -> {"ibody"}
CtxAfter(ctx, ln) ==
    IF ln.kind # "code" THEN ctx
    ELSE CASE ln.shape \in {"stmt", "doc", "imp", "close"} -> "top"
           [] ln.shape \in {"open", "mid"} -> "open"
           [] ln.shape = "def" -> "def0"
           [] ln.shape \in {"body", "wbody", "idef", "ibody"} -> "def"
           [] ln.shape = "idefh" -> "idef0"
           [] ln.shape = "with" -> "with0"
           [] ln.shape = "deco" -> "deco"
ShapeAllowed(c, kind, shape) ==
    /\ (kind = "code" => shape \in AllowedShapes(c.ctx))
    /\ (shape = "shebang" => Len(c.lines) = 0)
FileComplete(c) ==
    /\ c.ctx \in {"top", "def"}
    /\ ((\E k \in 1..Len(c.lines) : c.lines[k].shape = "with") => \E k \in 1..Len(c.lines) : c.lines[k].shape = "imp")

\* ---- the calls the visitor makes for one line (what the realisations do, measured with the ShowError hook):
\*  c1 undefined_name, c5 value_always_true, c6 missing_return: one direct show_error in the checking phase
\*  c2 unsupported_operation `1 + ""` (name_check_visitor.py:3868-3890): the __add__ attempt and the __radd__
\*     attempt each run inside catch_errors and their errors (incompatible_argument = c4's code, incompatible_call
\*     = c3; unsupported_operation) are dropped, then a direct show_error; in both phases of the visit (three
\*     times for the body of a nested def)
\*  c4 incompatible_argument `1 in "a"` (:3823-3856 via _check_dunder_call_or_catch :5109-5117): caught in two
\*     nested blocks and re-emitted by show_caught_errors from each
\*  a line in the body of `with assert_error():` (:4352): everything above inside one more block that is dropped
Op(o, code, k) == [op |-> o, code |-> code, line |-> k]
DiagScript(code, k) ==
    CASE code = "c2" -> << Op("begin", "", 0), Op("show", "c4", k), Op("show", "c3", k), Op("end_drop", "", 0),
                           Op("begin", "", 0), Op("show", "c2", k), Op("end_drop", "", 0), Op("show", "c2", k) >>
      [] code = "c4" -> << Op("begin", "", 0), Op("begin", "", 0), Op("show", "c4", k),
                           Op("end_reemit", "", 0), Op("end_reemit", "", 0) >>
      [] OTHER -> << Op("show", code, k) >>
Phases(ln, code) == IF code = "c2" THEN (IF ln.shape \in {"idef", "ibody"} THEN 3 ELSE 2) ELSE 1
RECURSIVE Repeat(_, _)
Repeat(s, n) == IF n = 0 THEN << >> ELSE s \o Repeat(s, n - 1)
RECURSIVE LineScriptFrom(_, _, _)
LineScriptFrom(ln, k, j) ==
    IF j > Len(ln.diags) THEN << >>
    ELSE Repeat(DiagScript(ln.diags[j], k), Phases(ln, ln.diags[j])) \o LineScriptFrom(ln, k, j + 1)
Dropped(ln) == ln.shape = "wbody"
LineOps(ln, k) ==
    IF ln.diags = NoDiags THEN << >>
    ELSE IF Dropped(ln) THEN << Op("begin", "", 0) >> \o LineScriptFrom(ln, k, 1) \o << Op("end_drop", "", 0) >>
    ELSE LineScriptFrom(ln, k, 1)
RECURSIVE OpsFrom(_, _)
OpsFrom(lines, k) == IF k > Len(lines) THEN << >> ELSE LineOps(lines[k], k) \o OpsFrom(lines, k + 1)
ROps(c) == OpsFrom(c.lines, 1)

\* number of times the decision chain is entered for the diagnostic `code` of line k
ChainEntries(ln, code) == IF Dropped(ln) THEN 0 ELSE Phases(ln, code)
RECURSIVE SumChain(_, _, _)
SumChain(lines, k, j) ==
    IF k > Len(lines) THEN 0
    ELSE IF j > Len(lines[k].diags) THEN SumChain(lines, k + 1, 1)
    ELSE ChainEntries(lines[k], lines[k].diags[j]) + SumChain(lines, k, j + 1)
ExpectedChainEntries(c) == SumChain(c.lines, 1, 1)

\* ---- the base-model views of a case
\* Ref: errors caught by an assert_error block are not diagnostics of the file; settings by RefEnabled
RefLines(lines) == [k \in 1..Len(lines) |-> IF Dropped(lines[k]) THEN [lines[k] EXCEPT !.diags = NoDiags] ELSE lines[k]]
RefCase(c) == [lines |-> RefLines(c.lines),
               disabled |-> {code \in RCodes \cup {"c3", NoiseCode} : ~RefEnabled(c.cfg, code)},
               unused_on |-> RefEnabled(c.cfg, "unused_ignore"), bare_on |-> RefEnabled(c.cfg, "bare_ignore")]
\* Impl: the lines as they are; settings by ImplEnabled
ImplCase(c) == [lines |-> c.lines,
                disabled |-> {code \in RCodes \cup {"c3", NoiseCode} : ~ImplEnabled(c.cfg, code)},
                unused_on |-> ImplEnabled(c.cfg, "unused_ignore"), bare_on |-> ImplEnabled(c.cfg, "bare_ignore")]

(***************************************************************************)
(* Part 3: the machine                                                     *)
(***************************************************************************)
VARIABLES stack,    \* the saved `caught_errors` lists, innermost last (<< >> = caught_errors is None)
          pend,     \* errors show_caught_errors still has to show again
          ops       \* ROps(case), computed once
rvars == <<case, pc, i, ms, stack, pend, ops>>

RBlankMS == [used |-> {}, seen |-> {}, out |-> << >>, hist |-> << >>]     \* hist: <<code, line, decision>> per show_error call
CfgDomain == AllEnCodes \cup {"c3"}
BlankCfg == [all |-> "none", en |-> {}, dis |-> {},
             top |-> [c \in CfgDomain |-> "unset"], ov |-> [c \in CfgDomain |-> "unset"], oth |-> [c \in CfgDomain |-> "unset"]]
RECURSIVE CtxOf(_, _, _)
CtxOf(lines, k, ctx) == IF k > Len(lines) THEN ctx ELSE CtxOf(lines, k + 1, CtxAfter(ctx, lines[k]))
NoDraft == [kind |-> "", shape |-> ""]
\* `impl` caches ImplCase(case) once the case is complete (it is consulted at every show_error step)
NoImpl == [lines |-> << >>, disabled |-> {}, unused_on |-> FALSE, bare_on |-> FALSE]
RBlank(prefix) == [lines |-> prefix, ctx |-> CtxOf(prefix, 1, "top"), cfg |-> BlankCfg, draft |-> NoDraft, impl |-> NoImpl]
CfgOrder == << "c1", "c2", "c4", "c5", "c6", "unused_ignore", "bare_ignore", "cn" >>

RInit == case \in {RBlank(p) : p \in RPrefixes} /\ pc = "lines" /\ i = 0 /\ ms = RBlankMS /\ stack = << >> /\ pend = << >> /\ ops = << >>

RPickShape ==
    /\ pc = "lines" /\ Len(case.lines) < MaxLines
    /\ \E ks \in KindShapes :
         /\ ShapeAllowed(case, ks[1], ks[2])
         /\ case' = [case EXCEPT !.draft = [kind |-> ks[1], shape |-> ks[2]]]
    /\ pc' = "line" /\ UNCHANGED <<i, ms, stack, pend, ops>>

RAddLine ==
    /\ pc = "line"
    /\ \E ln \in LinesOf(case.draft.kind, case.draft.shape) :
         case' = [case EXCEPT !.lines = Append(@, ln), !.ctx = CtxAfter(@, ln), !.draft = NoDraft]
    /\ pc' = "lines" /\ UNCHANGED <<i, ms, stack, pend, ops>>

\* the settings request is chosen in stages: first --enable-all / --disable-all / neither ...
RChooseAll ==
    /\ pc = "lines" /\ Len(case.lines) >= MinLines /\ FileComplete(case)
    /\ \E a \in CfgAlls : case' = [case EXCEPT !.cfg.all = a,
                                              \* implicit_any is switched off explicitly whenever everything is enabled
                                              !.cfg.dis = IF a = "enable_all" THEN {NoiseCode} ELSE {}]
    /\ pc' = "cfg" /\ i' = 1 /\ UNCHANGED <<ms, stack, pend, ops>>

\* ... then, code by code, whether -e / -d names it and what the three configuration-file sections say
RChooseCode ==
    /\ pc = "cfg" /\ i <= Len(CfgOrder)
    /\ LET code == CfgOrder[i]
       IN IF code \notin CfgCodes THEN case' = case /\ pc' = "cfg" /\ i' = i + 1
          ELSE /\ \E f \in CfgFlags :
                    case' = [case EXCEPT !.cfg.en = IF f \in {"e", "ed"} THEN @ \cup {code} ELSE @,
                                         !.cfg.dis = IF f \in {"d", "ed"} THEN @ \cup {code} ELSE @]
               /\ pc' = "cfg2" /\ i' = i
    /\ UNCHANGED <<ms, stack, pend, ops>>

RChooseFile ==
    /\ pc = "cfg2"
    /\ \E t \in CfgTris, o \in CfgTris, x \in CfgTris :
         case' = [case EXCEPT !.cfg.top[CfgOrder[i]] = t, !.cfg.ov[CfgOrder[i]] = o, !.cfg.oth[CfgOrder[i]] = x]
    /\ pc' = "cfg" /\ i' = i + 1 /\ UNCHANGED <<ms, stack, pend, ops>>

RStart ==
    /\ pc = "cfg" /\ i > Len(CfgOrder)
    /\ pc' = "ops" /\ i' = 1 /\ ops' = ROps(case) /\ case' = [case EXCEPT !.impl = ImplCase(case)]
    /\ UNCHANGED <<ms, stack, pend>>

Log(m, code, line, decision) == [m EXCEPT !.hist = Append(@, <<code, line, decision>>)]
Top == Len(stack)

\* first return path of show_error (node_visitor.py:591-612): caught_errors is not None -> record, nothing else
Catch(m, code, line) ==
    IF Bug = "caught_marks_used" /\ HasIgnore(case.lines[line]) /\ case.lines[line].kind = "code"
       /\ Matches(case.lines[line].ign, code)
    THEN Log([m EXCEPT !.used = @ \cup {line}], code, line, "caught")
    ELSE Log(m, code, line, "caught")

\* the rest of show_error: the decision chain of Suppression.tla (one action per return path below)
Decide(m, code, line) ==
    LET r == ImplShow(case.impl, m, code, line, FALSE) IN [decision |-> r.decision, ms |-> Log(r.ms, code, line, r.decision)]

CatchBegin ==                           \* catch_errors() :544-548: qcore.override(self, "caught_errors", [])
    /\ pc = "ops" /\ pend = << >> /\ i <= Len(ops) /\ ops[i].op = "begin"
    /\ stack' = Append(stack, << >>) /\ i' = i + 1 /\ UNCHANGED <<case, pc, ms, pend, ops>>

ShowCaught ==                           \* show_error inside a block
    /\ pc = "ops" /\ pend = << >> /\ i <= Len(ops) /\ ops[i].op = "show" /\ stack # << >>
    /\ stack' = [stack EXCEPT ![Top] = Append(@, ops[i])]
    /\ ms' = Catch(ms, ops[i].code, ops[i].line)
    /\ i' = i + 1 /\ UNCHANGED <<case, pc, pend, ops>>

ShowDecide(decision) ==                 \* show_error outside every block
    /\ pc = "ops" /\ pend = << >> /\ i <= Len(ops) /\ ops[i].op = "show" /\ stack = << >>
    /\ LET r == Decide(ms, ops[i].code, ops[i].line) IN r.decision = decision /\ ms' = r.ms
    /\ i' = i + 1 /\ UNCHANGED <<case, pc, stack, pend, ops>>

CatchEndDrop ==                         \* leaving the block; the caller ignores the list
    /\ pc = "ops" /\ pend = << >> /\ i <= Len(ops) /\ ops[i].op = "end_drop"
    /\ stack' = SubSeq(stack, 1, Top - 1)
    /\ pend' = IF Bug = "drop_reemits" THEN stack[Top] ELSE << >>
    /\ i' = i + 1 /\ UNCHANGED <<case, pc, ms, ops>>

CatchEndReemit ==                       \* leaving the block; the caller passes the list to show_caught_errors :550
    /\ pc = "ops" /\ pend = << >> /\ i <= Len(ops) /\ ops[i].op = "end_reemit"
    /\ stack' = SubSeq(stack, 1, Top - 1) /\ pend' = stack[Top]
    /\ i' = i + 1 /\ UNCHANGED <<case, pc, ms, ops>>

ReshowCaught ==                         \* show_caught_errors -> show_error(**error) while an outer block is open
    /\ pc = "ops" /\ pend # << >> /\ stack # << >>
    /\ stack' = [stack EXCEPT ![Top] = Append(@, Head(pend))]
    /\ ms' = Catch(ms, Head(pend).code, Head(pend).line)
    /\ pend' = Tail(pend) /\ UNCHANGED <<case, pc, i, ops>>

ReshowDecide(decision) ==               \* show_caught_errors -> show_error(**error) outside every block
    /\ pc = "ops" /\ pend # << >> /\ stack = << >>
    /\ LET r == Decide(ms, Head(pend).code, Head(pend).line) IN r.decision = decision /\ ms' = r.ms
    /\ pend' = Tail(pend) /\ UNCHANGED <<case, pc, i, stack, ops>>

Decisions == {"disabled", "file_ignore", "duplicate", "this_line", "prev_line", "emitted"}

RUnusedPass ==
    /\ pc = "ops" /\ i > Len(ops) /\ pend = << >>
    /\ ms' = [ms EXCEPT !.out = @ \o ImplUnusedFrom(case.impl, ms.used, 1)]
    /\ pc' = "bare" /\ UNCHANGED <<case, i, stack, pend, ops>>

RBarePass ==
    /\ pc = "bare"
    /\ ms' = [ms EXCEPT !.out = @ \o ImplBare(case.impl)]
    /\ pc' = "done" /\ UNCHANGED <<case, i, stack, pend, ops>>

RNext == \/ RPickShape \/ RAddLine \/ RChooseAll \/ RChooseCode \/ RChooseFile \/ RStart
         \/ CatchBegin \/ ShowCaught \/ CatchEndDrop \/ CatchEndReemit \/ ReshowCaught
         \/ \E d \in Decisions : ShowDecide(d) \/ ReshowDecide(d)
         \/ RUnusedPass \/ RBarePass

(***************************************************************************)
(* Properties                                                              *)
(***************************************************************************)
\* the reported set is the projection of the file's diagnostics under the requested settings and comments
RProjectionOK == pc = "done" => OutputOKFor(RefCase(case), OutSet(ms), RCodes)

\* every route agrees with the documented precedence
REnabledOK == pc \in {"ops", "done"} => EnabledOK(case.cfg)

\* an error that was caught enters the decision chain exactly once per visit if every enclosing block shows its
\* errors again, and never if one of them drops them; every block is left
HistCount(m, code, line) == Cardinality({j \in 1..Len(m.hist) : m.hist[j][1] = code /\ m.hist[j][2] = line /\ m.hist[j][3] # "caught"})
RChainOnce ==
    pc = "done" =>
      /\ stack = << >> /\ pend = << >>
      /\ \A k \in 1..Len(case.lines) : \A code \in RCodes \cup {"c3"} :
           HistCount(ms, code, k) = IF InSeq(code, case.lines[k].diags) THEN ChainEntries(case.lines[k], code) ELSE 0

RUsedAreComments == \A k \in ms.used : HasIgnore(case.lines[k])

(***************************************************************************)
(* Generator of settings requests alone (exhaustive check of Part 1)       *)
(***************************************************************************)
EInit == RInit
ENext == \/ /\ pc = "lines"
            /\ \E a \in CfgAlls : case' = [case EXCEPT !.cfg.all = a]
            /\ pc' = "cfg" /\ i' = 1 /\ UNCHANGED <<ms, stack, pend, ops>>
         \/ RChooseCode \/ RChooseFile
         \/ /\ pc = "cfg" /\ i > Len(CfgOrder) /\ pc' = "done" /\ UNCHANGED <<case, i, ms, stack, pend, ops>>
EEnabledOK == pc = "done" => EnabledOK(case.cfg)
=============================================================================
