------------------------------- MODULE Config -------------------------------
(***************************************************************************)
(* Configuration layering (property C18).                                  *)
(*                                                                         *)
(* A case is a chain of configuration files main -> ext1 -> ext2 (each may *)
(* `extend_config` the next), a command line, a queried module path and    *)
(* the option kind.  Impl* transcribes pyanalyze/options.py and the        *)
(* command-line assembly of node_visitor.py / name_check_visitor.py        *)
(* (file:line in comments); Ref* is the precedence documented in           *)
(* docs/configuration.md and stated by the property.  Every operator takes *)
(* the case as a parameter so that the same definitions judge states       *)
(* enumerated by TLC (Config.*.cfg) and observations recorded from the     *)
(* real code (ConfigTrace.tla).                                            *)
(*                                                                         *)
(* Option kinds:                                                           *)
(*   "bool"  an error code (BooleanOption without its own flag; the        *)
(*           command line reaches it through -e/-d/--enable-all/           *)
(*           --disable-all -> `settings`; `disable_all` in a file          *)
(*           interacts with it)                                            *)
(*   "flag"  a BooleanOption with --name / --no-name                       *)
(*   "int"   an IntegerOption (--name N), default non-zero                 *)
(*   "list"  a ConcatenatedOption (StringSequenceOption, --name X repeated)*)
(*   "paths" a PathSequenceOption with a flag (import_paths): entries are  *)
(*           resolved relative to the file that mentions them              *)
(*   "files" the PathSequenceOption `paths`, which has no flag of its own: *)
(*           the positional `files` of the command line become its         *)
(*           command-line value                                            *)
(* Values on every layer range over {not said, truthy (v1), falsy (v2)}:   *)
(* bool/flag True/False, int 5/0, lists [x]/[].                            *)
(***************************************************************************)
EXTENDS Naturals, Sequences, FiniteSets, TLC

Paths == << <<>>, <<"a">>, <<"a", "b">>, <<"c">> >>          \* queried module paths

IsPrefix(p, q) == Len(p) <= Len(q) /\ \A i \in 1..Len(p) : p[i] = q[i]

AllKinds == {"bool", "flag", "int", "list", "paths", "files"}
PathKinds == {"paths", "files"}

(* Which kinds concatenate.  The property says "list-valued options concatenate"; in the code that *)
(* is the class ConcatenatedOption (options.py:164).  PathSequenceOption (options.py:203) is       *)
(* deliberately not one of them: a list of paths is ONE value and the first statement wins --      *)
(* files named on the command line replace the `paths` of the configuration file instead of being  *)
(* checked in addition to them.  (Domain decision, see DESIGN 6.2.)                                *)
IsConcat(kind) == kind = "list"

(***************************************************************************)
(* A section is [val, da]: val \in {"none","v1","v2"} is the explicit      *)
(* setting of the observed option, da = TRUE iff `disable_all = true` is   *)
(* written in that section.  v1 is the truthy value, v2 the falsy one.     *)
(* For the list kinds the truthy value is a one-element list naming its    *)
(* own location so that concatenation order (and, for paths, the directory *)
(* it was resolved against) is observable; the falsy value is [].  A       *)
(* missing override section is NoSection.                                  *)
(***************************************************************************)
SecVals(kind) == {"none", "v1", "v2"}
Sections(kind) == [val : SecVals(kind), da : IF kind = "bool" THEN BOOLEAN ELSE {FALSE}]
NoSection == [val |-> "absent", da |-> FALSE]

(* A file: top-level section, optional override sections for modules a and *)
(* a.b, the textual order of the two overrides, and the position of the    *)
(* extend_config key among the keys ("first", "mid" = after the option     *)
(* keys and before `overrides`, "last").  The last file of a chain extends *)
(* nothing (extpos is then irrelevant and fixed to "first").               *)
FileSpace(kind, rich) ==
    [top : Sections(kind),
     ova : {NoSection} \cup (IF rich THEN Sections(kind) ELSE {s \in Sections(kind) : ~s.da}),
     ovab : IF rich THEN {NoSection} \cup {s \in Sections(kind) : ~s.da} ELSE {NoSection},
     abfirst : IF rich THEN BOOLEAN ELSE {FALSE},
     extpos : {"first", "mid", "last"}]

(* Malformed configurations (second sentence of the property): where, what *)
BadKinds == {"unknown_key", "wrong_type", "nested_overrides", "module_at_top",
             "override_without_module", "recursive", "missing_file", "overrides_not_list",
             "bool_for_int", "disable_all_not_bool",
             "wrong_elem_type", "extend_not_string", "override_not_table", "module_not_string",
             "recursive_override"}     \* the cycle is closed by an extend_config key inside an override table

(* How the extend_config references of a case are SPELLED (c.spell; the files stay where they are):   *)
(*   "same"       f2.toml                    "dot"        ./f2.toml                                  *)
(*   "up"         ../d1/f2.toml  (the sibling-project spelling of docs/configuration.md)              *)
(*   "abs"        /.../d1/f2.toml            "redundant"  sub/../f2.toml                             *)
(*   "symlink"    l2.toml, a symbolic link to f2.toml                                                *)
(* The spelling changes neither which file is meant (so every layering result is the same: acyclic   *)
(* chains spelled in any way follow the precedence) nor whether a chain of references is a cycle     *)
(* (so every cycle is rejected, however its edges are spelled: parse_config_file compares RESOLVED   *)
(* paths, options.py:347-351).                                                                       *)
AllSpells == {"same", "dot", "up", "abs", "redundant", "symlink"}

FileName(i) == <<"f1", "f2", "f3">>[i]
Tag(i, sec) == FileName(i) \o "." \o sec       \* the command line is "cmd"

(* Where the files live.  "flat": all in directory d1, `extend_config = "f2.toml"`.  "nested":    *)
(* file i+1 lives one directory below file i and is named by the relative path                    *)
(* `extend_config = "d<i+1>/f<i+1>.toml"`, so that "relative to the including file", "relative to *)
(* the main file" and "relative to the working directory" are three different places.             *)
FileDir(layout, i) ==
    IF layout = "flat" THEN "d1" ELSE <<"d1", "d1/d2", "d1/d2/d3">>[i]

Concrete(kind, v, tag) ==
    CASE kind \in {"bool", "flag"} -> IF v = "v1" THEN <<"T">> ELSE <<"F">>
      [] kind = "int"  -> IF v = "v1" THEN <<"i5">> ELSE <<"i0">>
      [] kind \in {"list", "paths", "files"} -> IF v = "v1" THEN <<tag>> ELSE << >>

(***************************************************************************)
(* Impl: options.py                                                        *)
(*   parse_config_file / _parse_config_section (options.py:343-439) emit   *)
(*   instances in the textual order of the keys; Options.from_option_list  *)
(*   (options.py:272) sorts them with a stable sort on sort_key()          *)
(*   (options.py:115); get_value_from_instances takes the first applicable *)
(*   instance (options.py:101) or concatenates all applicable ones         *)
(*   (options.py:167).                                                     *)
(***************************************************************************)
Inst(value, mod, fromcmd, prio) == [value |-> value, mod |-> mod, cmdline |-> fromcmd, prio |-> prio]

\* PathSequenceOption.parse (options.py:213): (source_path.parent / elt).resolve(), where source_path is
\* the `path` argument of _parse_config_section = the resolved path of the file being parsed
\* (options.py:347,357).  bug = "main_dir" (sensitivity only): the main file's directory for every file.
ImplSourceDir(c, i, bug) == IF bug = "main_dir" THEN FileDir(c.layout, 1) ELSE FileDir(c.layout, i)

ImplTag(c, i, name, bug) ==
    IF c.kind \in PathKinds THEN ImplSourceDir(c, i, bug) \o "/" \o Tag(i, name) ELSE Tag(i, name)

\* one section: the explicit key ...
ImplSectionInsts(kind, sec, mod, tag, prio) ==
    IF sec.val \in {"v1", "v2"} THEN << Inst(Concrete(kind, sec.val, tag), mod, FALSE, prio) >> ELSE << >>

\* ... and, after the loop over the keys, `disable_all` yields False for every code that the same
\* section did not explicitly enable (options.py:433)
ImplSectionDisableAll(kind, sec, mod, prio) ==
    IF kind = "bool" /\ sec.da /\ sec.val # "v1" THEN << Inst(<<"F">>, mod, FALSE, prio) >> ELSE << >>

ImplOverrides(c, f, i, prio, bug) ==
    LET kind == c.kind
        a == IF f.ova = NoSection THEN << >>
             ELSE ImplSectionInsts(kind, f.ova, <<"a">>, ImplTag(c, i, "a", bug), prio)
                  \o ImplSectionDisableAll(kind, f.ova, <<"a">>, prio)
        ab == IF f.ovab = NoSection THEN << >>
              ELSE ImplSectionInsts(kind, f.ovab, <<"a", "b">>, ImplTag(c, i, "ab", bug), prio)
                   \o ImplSectionDisableAll(kind, f.ovab, <<"a", "b">>, prio)
    IN IF f.abfirst THEN ab \o a ELSE a \o ab

\* Priority stored on the instances of file i.  parse_config_file passes priority + 1 down the
\* extend_config chain (options.py:396) and _parse_config_section stores it on every instance it
\* creates.  (At the pinned commit the priority was computed but never stored -- every instance
\* had priority 0 -- which is the defect repaired by the "fix:" commit recorded in
\* known_findings.jsonl; pinned = TRUE reproduces that behaviour.)
ImplPriority(i, pinned) == IF pinned THEN 0 ELSE i - 1

RECURSIVE ImplFileInsts(_, _, _, _)
ImplFileInsts(c, i, pinned, bug) ==
    IF i > Len(c.files) THEN << >>
    ELSE LET f == c.files[i]
             prio == ImplPriority(i, pinned)
             ext == IF i < Len(c.files) THEN ImplFileInsts(c, i + 1, pinned, bug) ELSE << >>
             own == ImplSectionInsts(c.kind, f.top, << >>, ImplTag(c, i, "top", bug), prio)
             ovs == ImplOverrides(c, f, i, prio, bug)
             da == ImplSectionDisableAll(c.kind, f.top, << >>, prio)     \* emitted after the key loop
         IN CASE f.extpos = "first" -> ext \o own \o ovs \o da
              [] f.extpos = "mid"   -> own \o ext \o ovs \o da
              [] f.extpos = "last"  -> own \o ovs \o ext \o da

(***************************************************************************)
(* Impl: command-line assembly.  Three stages, each with its own model:    *)
(*   A  argparse: argv -> namespace      (options.py:124-263 per kind,     *)
(*      node_visitor.py:862-1003, name_check_visitor.py:5784-5810)         *)
(*   B  NodeVisitor.main: namespace -> kwargs (node_visitor.py:362-385)    *)
(*   C  NameCheckVisitor.prepare_constructor_kwargs: kwargs -> command-    *)
(*      line instances + which config file (name_check_visitor.py:5830)    *)
(* A case reaches the command-line layer by one of three routes:           *)
(*   "inst"   Options.from_option_list([cls(v, from_command_line=True)])   *)
(*            (no assembly; the layering slice)                            *)
(*   "kwargs" prepare_constructor_kwargs({name: v, ...})       (stage C)   *)
(*   "argv"   NameCheckVisitor.main() on a real argv    (stages A, B, C)   *)
(* The distinction that matters everywhere is ABSENT versus PRESENT WITH A *)
(* FALSY VALUE: Given(<<"F">>) / Given(<<"i0">>) / Given(<< >>) are not    *)
(* Absent.                                                                 *)
(***************************************************************************)
Given(v) == [given |-> TRUE, v |-> v]
Absent == [given |-> FALSE, v |-> << >>]

(* argv is a sequence of abstract tokens for the observed option (the driver spells them):         *)
(*   "pos" --name            "neg" --no-name                      (flag)                           *)
(*   "v1"  --name 5          "v2"  --name 0                       (int)                            *)
(*   "a1"  --name cmd        "a2"  --name cmd2                    (list, paths)                    *)
(*   "f1"  cmd               "f2"  cmd2          positional files (files)                          *)
(*   "en"  -e CODE  "dis" -d CODE  "enall" --enable-all  "disall" --disable-all   (bool)           *)
Tokens(kind) ==
    CASE kind = "flag" -> {"pos", "neg"}
      [] kind = "int" -> {"v1", "v2"}
      [] kind \in {"list", "paths"} -> {"a1", "a2"}
      [] kind = "files" -> {"f1", "f2"}
      [] kind = "bool" -> {"en", "dis", "enall", "disall"}

CmdWord(tok) == IF tok \in {"a1", "f1"} THEN "cmd" ELSE "cmd2"

\* the part of the argparse namespace that concerns the observed option
NS0 == [opt |-> Absent,          \* attribute named like the option; default=argparse.SUPPRESS => absent
        files |-> << >>,         \* positional, nargs="*" (node_visitor.py:888): always present, [] if none
        en |-> FALSE, dis |-> FALSE,          \* the observed code \in args.enable / args.disable
        enall |-> FALSE, disall |-> FALSE]

\* Stage A, one token.  bug = "argv_first_wins" (sensitivity only): a repeated scalar flag keeps its first value.
ImplParseTok(ns, tok, bug) ==
    CASE tok \in {"pos", "neg", "v1", "v2"} /\ bug = "argv_first_wins" /\ ns.opt.given -> ns
      [] tok = "pos" -> [ns EXCEPT !.opt = Given(<<"T">>)]      \* BooleanOptionalAction (options.py:141): last one wins
      [] tok = "neg" -> [ns EXCEPT !.opt = Given(<<"F">>)]
      [] tok = "v1"  -> [ns EXCEPT !.opt = Given(<<"i5">>)]     \* store, type=int (options.py:158): last one wins
      [] tok = "v2"  -> [ns EXCEPT !.opt = Given(<<"i0">>)]
      [] tok \in {"a1", "a2"} ->                                \* action="append" (options.py:197,220)
            [ns EXCEPT !.opt = Given((IF ns.opt.given THEN ns.opt.v ELSE << >>) \o <<CmdWord(tok)>>)]
      [] tok \in {"f1", "f2"} -> [ns EXCEPT !.files = ns.files \o <<CmdWord(tok)>>]
      [] tok = "en"  -> [ns EXCEPT !.en = TRUE]                 \* action="append", default=[] (node_visitor.py:988)
      [] tok = "dis" -> [ns EXCEPT !.dis = TRUE]
      [] tok = "enall"  -> [ns EXCEPT !.enall = TRUE]           \* store_true (node_visitor.py:974)
      [] tok = "disall" -> [ns EXCEPT !.disall = TRUE]

RECURSIVE ImplParse(_, _, _)
ImplParse(ns, argv, bug) ==
    IF argv = << >> THEN ns ELSE ImplParse(ImplParseTok(ns, Head(argv), bug), Tail(argv), bug)

\* Stage B, NodeVisitor.main (node_visitor.py:366-385): the entry of `settings` for the observed code.
\* enable_all -> every code True; elif disable_all -> every code False; else _get_default_settings() = {}
\* (name_check_visitor.py:5826); then every -e, then every -d.
\* bug = "all_beats_single" (sensitivity only): --enable-all / --disable-all applied after -e / -d.
ImplMainSettings(ns, bug) ==
    LET base == IF ns.enall THEN Given(<<"T">>) ELSE IF ns.disall THEN Given(<<"F">>) ELSE Absent
        afterEnable == IF ns.en THEN Given(<<"T">>) ELSE base
        single == IF ns.dis THEN Given(<<"F">>) ELSE afterEnable
    IN IF bug = "all_beats_single" /\ base.given THEN base ELSE single

\* kwargs as seen by stage C: [opt, files, settings]
KwargsOf(c, bug) ==
    IF c.route = "argv"
    THEN LET ns == ImplParse(NS0, c.argv, bug)
         IN [opt |-> ns.opt, files |-> ns.files, settings |-> ImplMainSettings(ns, bug)]
    ELSE \* route "kwargs": the caller passes the dictionary itself
         LET v == IF c.cmd = "none" THEN Absent ELSE Given(Concrete(c.kind, c.cmd, "cmd"))
         IN [opt |-> IF c.kind \in {"bool", "files"} THEN Absent ELSE v,
             files |-> IF c.kind = "files" THEN v.v ELSE << >>,
             settings |-> IF c.kind = "bool" THEN v ELSE Absent]

Truthy(v) == v \notin {<<"F">>, <<"i0">>, << >>}

\* Stage C, prepare_constructor_kwargs (name_check_visitor.py:5830-5848): instances in creation order.
\* bug # "none" only in the sensitivity self-tests:
\*   "drop_falsy"            `value = kwargs.pop(name, None); if value:` instead of `if name not in kwargs`
\*   "drop_default_settings" a settings entry equal to the code's built-in default creates no instance
ImplPrepare(c, kw, bug) ==
    \* :5835 every entry of `settings` -> instance of the error code's option, from_command_line=True
    (IF c.kind = "bool" /\ kw.settings.given /\ ~(bug = "drop_default_settings" /\ kw.settings.v = c.default)
     THEN << Inst(kw.settings.v, << >>, TRUE, 0) >> ELSE << >>)
    \* :5839 files = kwargs.pop("files", []); if files: Paths(files, from_command_line=True)
    \o (IF c.kind = "files" /\ kw.files # << >> THEN << Inst(kw.files, << >>, TRUE, 0) >> ELSE << >>)
    \* :5842 every registered option with should_create_command_line_option whose NAME IS IN kwargs
    \* (`paths` and the error codes have should_create_command_line_option = False)
    \o (IF c.kind \notin {"bool", "files"} /\ kw.opt.given /\ ~(bug = "drop_falsy" /\ ~Truthy(kw.opt.v))
        THEN << Inst(kw.opt.v, << >>, TRUE, 0) >> ELSE << >>)

\* command-line instances come first in the list handed to from_option_list (name_check_visitor.py:5855)
ImplCmdInsts(c, bug) ==
    IF c.route = "inst"
    THEN (IF c.cmd = "none" THEN << >> ELSE << Inst(Concrete(c.kind, c.cmd, "cmd"), << >>, TRUE, 0) >>)
    ELSE ImplPrepare(c, KwargsOf(c, bug), bug)

\* name_check_visitor.py:5849-5855 which configuration file is read: the config_file kwarg
\* (--config-file), else cls.config_filename relative to the directory of the class's module, else none.
\* bug = "no_class_config" (sensitivity only): the class's config_filename is ignored.
ImplReadsFiles(c, bug) == c.cfgsrc = "arg" \/ (c.cfgsrc = "class" /\ bug # "no_class_config")

\* sort_key: (not from_command_line, priority, -len(applicable_to)); Python's sort is stable.
KeyLess(x, y) ==
    LET kx == <<IF x.cmdline THEN 0 ELSE 1, x.prio, 2 - Len(x.mod)>>
        ky == <<IF y.cmdline THEN 0 ELSE 1, y.prio, 2 - Len(y.mod)>>
    IN \/ kx[1] < ky[1]
       \/ kx[1] = ky[1] /\ kx[2] < ky[2]
       \/ kx[1] = ky[1] /\ kx[2] = ky[2] /\ kx[3] < ky[3]

RECURSIVE InsertStable(_, _)
InsertStable(sorted, x) ==      \* insert x after every element that is not greater than x
    IF sorted = << >> THEN <<x>>
    ELSE IF KeyLess(x, Head(sorted)) THEN <<x>> \o sorted
         ELSE <<Head(sorted)>> \o InsertStable(Tail(sorted), x)

RECURSIVE StableSort(_)
StableSort(s) == IF s = << >> THEN << >> ELSE InsertStable(StableSort(SubSeq(s, 1, Len(s) - 1)), s[Len(s)])

\* ConfigOption.get_value_from_instances (options.py:101): first applicable instance, else NotFound
RECURSIVE FirstApplicable(_, _, _)
FirstApplicable(insts, path, notfound) ==
    IF insts = << >> THEN notfound
    ELSE IF IsPrefix(Head(insts).mod, path) THEN Head(insts).value
         ELSE FirstApplicable(Tail(insts), path, notfound)

\* ConcatenatedOption.get_value_from_instances (options.py:167): all applicable instances
RECURSIVE ConcatApplicable(_, _)
ConcatApplicable(insts, path) ==
    IF insts = << >> THEN << >>
    ELSE (IF IsPrefix(Head(insts).mod, path) THEN Head(insts).value ELSE << >>)
         \o ConcatApplicable(Tail(insts), path)

\* Options._get_value_for_no_default (options.py:297) appends an instance carrying the default value
\* after the sorted instances; Options.get_value_for falls back to the default on NotFound.
\* (At the pinned commit ConcatenatedOption.get_value_from_instances appended the default a second
\* time; pinned = TRUE reproduces that.)
ImplLookupGen(c, pinned, bug) ==
    IF c.bad # "none" THEN <<"error">>
    ELSE LET fileinsts == IF ImplReadsFiles(c, bug) THEN ImplFileInsts(c, 1, pinned, bug) ELSE << >>
             sorted == StableSort(ImplCmdInsts(c, bug) \o fileinsts)
             all == sorted \o << Inst(c.default, << >>, FALSE, 0) >>
         IN IF IsConcat(c.kind)
            THEN ConcatApplicable(all, c.q) \o (IF pinned THEN c.default ELSE << >>)
            ELSE FirstApplicable(all, c.q, c.default)

ImplLookupWith(c, pinned) == ImplLookupGen(c, pinned, "none")
ImplLookup(c) == ImplLookupGen(c, FALSE, "none")
ImplLookupPinned(c) == ImplLookupGen(c, TRUE, "none")

\* the values of the command-line instances of the observed option, in list order (observable on the
\* real Options object; used by the trace specification to detect drift of the assembly model even
\* where a lower layer happens to say the same thing)
ImplCmdValues(c) == LET s == ImplCmdInsts(c, "none") IN [i \in 1..Len(s) |-> s[i].value]

(***************************************************************************)
(* Impl: HISTORY.  pyanalyze builds ONE Options object per run             *)
(* (name_check_visitor.py:5855) and asks it for every option of every      *)
(* module (Options.for_module shares `options`, options.py:288).  The      *)
(* Options object is modelled as state: for every option the sorted list   *)
(* of stored instances (Options.options, options.py:282).  A case with a   *)
(* history carries c.lookups, a sequence of [kind, q]: the files and the   *)
(* command line of the case say the same thing (c.files[i].*.val, c.cmd)   *)
(* about one option of every kind that is looked up, and the lookups are   *)
(* performed in order on the one object.                                   *)
(***************************************************************************)
HistDefault(kind) ==
    CASE kind = "flag" -> <<"F">> [] kind = "int" -> <<"d">> [] kind = "list" -> <<"dflt">>
      [] kind \in PathKinds -> << >> [] kind = "bool" -> <<"T">>
HistView(c, lk) == [c EXCEPT !.kind = lk.kind, !.q = lk.q, !.default = HistDefault(lk.kind)]
LookupKinds(c) == {c.lookups[i].kind : i \in 1..Len(c.lookups)}

\* Options.from_option_list (options.py:279-286): per option name, the instances sorted by sort_key
ImplStoreOf(c, k) ==
    LET v == HistView(c, [kind |-> k, q |-> << >>])
    IN StableSort(ImplCmdInsts(v, "none") \o ImplFileInsts(v, 1, FALSE, "none"))
ImplStore(c) == [k \in LookupKinds(c) |-> ImplStoreOf(c, k)]

\* index of the first stored instance that is applicable and non-empty (0 if none)
FirstNonEmptyApplicable(insts, q) ==
    LET I == {i \in 1..Len(insts) : IsPrefix(insts[i].mod, q) /\ insts[i].value # << >>}
    IN IF I = {} THEN 0 ELSE CHOOSE i \in I : \A j \in I : i <= j

\* One lookup on the stored instances of one option.  Options._get_value_for_no_default (options.py:297)
\* builds a NEW list [*stored, cls(default)]; get_value_from_instances (options.py:101 / :167) reads it
\* and, for concatenated options, accumulates into a fresh `values = []`: nothing is written back, the
\* stored instances are the same after the lookup.
\* bug = "alias_first" (sensitivity only): the concatenation accumulates IN the list stored on the first
\* applicable non-empty instance, so that instance's value becomes the whole concatenation.
ImplLookupStep(insts, kind, q, bug) ==
    LET all == insts \o << Inst(HistDefault(kind), << >>, FALSE, 0) >>
        value == IF IsConcat(kind) THEN ConcatApplicable(all, q) ELSE FirstApplicable(all, q, HistDefault(kind))
        j == FirstNonEmptyApplicable(insts, q)
    IN [value |-> value,
        insts |-> IF bug = "alias_first" /\ IsConcat(kind) /\ j # 0
                  THEN [insts EXCEPT ![j] = [@ EXCEPT !.value = value]] ELSE insts]

\* the sequence of lookups threaded through the Options state: [vals, store]
RECURSIVE ImplRun(_, _, _, _)
ImplRun(c, store, i, bug) ==
    IF i > Len(c.lookups) THEN [vals |-> << >>, store |-> store]
    ELSE LET lk == c.lookups[i]
             r == ImplLookupStep(store[lk.kind], lk.kind, lk.q, bug)
             rest == ImplRun(c, [store EXCEPT ![lk.kind] = r.insts], i + 1, bug)
         IN [vals |-> <<r.value>> \o rest.vals, store |-> rest.store]

ImplRunValues(c) == ImplRun(c, ImplStore(c), 1, "none").vals

(***************************************************************************)
(* Ref: the documented precedence, written without reference to instances, *)
(* priorities, sorting, namespaces or kwargs: a list of "statements" about *)
(* the option in decreasing precedence; the first one that says something  *)
(* wins (or all are concatenated).                                         *)
(***************************************************************************)
Says(v) == [said |-> TRUE, v |-> v]
Silent == [said |-> FALSE, v |-> "none"]

\* docs/configuration.md: "A list of paths (relative to the location of the pyproject.toml file)":
\* the file that mentions them, wherever it was included from.
RefLocation(c, i) == FileDir(c.layout, i)

RefWritten(c, v, i, name) ==
    IF c.kind \in PathKinds /\ v = "v1" THEN << RefLocation(c, i) \o "/" \o Tag(i, name) >>
    ELSE Concrete(c.kind, v, Tag(i, name))

RefSectionSays(c, sec, i, name) ==
    IF sec = NoSection THEN Silent
    ELSE IF sec.val \in {"v1", "v2"} THEN Says(RefWritten(c, sec.val, i, name))
    ELSE IF c.kind = "bool" /\ sec.da THEN Says(<<"F">>)
    ELSE Silent

\* sections of file i that match the path, most specific first
RefMatching(c, i) ==
    LET f == c.files[i]
    IN (IF IsPrefix(<<"a", "b">>, c.q) THEN << RefSectionSays(c, f.ovab, i, "ab") >> ELSE << >>)
       \o (IF IsPrefix(<<"a">>, c.q) THEN << RefSectionSays(c, f.ova, i, "a") >> ELSE << >>)
       \o << RefSectionSays(c, f.top, i, "top") >>

RECURSIVE RefChain(_, _)
RefChain(c, i) == IF i > Len(c.files) THEN << >> ELSE RefMatching(c, i) \o RefChain(c, i + 1)

(* What the command line says about the option ("the command-line value if given").  A value that   *)
(* is given is a statement whatever it is: False, 0 and [] are values.                              *)
(* On a real argv (--help texts; argparse conventions for repeated flags):                         *)
(*   --name/--no-name, --name N : the last occurrence is the value;                                *)
(*   --name X (list / paths)    : all occurrences, in order;                                       *)
(*   positional files           : the files named; naming none says nothing;                       *)
(*   error codes                : "-d CODE" disables it, "-e CODE" enables it; otherwise            *)
(*       --enable-all / --disable-all ("... all checks BY DEFAULT") decide.  A command line with    *)
(*       both -e CODE and -d CODE for the same code has no documented meaning and is outside the    *)
(*       domain (ArgvOK).                                                                           *)
Has(argv, t) == \E i \in 1..Len(argv) : argv[i] = t
LastOf(argv, S) == LET I == {i \in 1..Len(argv) : argv[i] \in S}
                   IN IF I = {} THEN 0 ELSE CHOOSE i \in I : \A j \in I : j <= i
Among(argv, S) == SelectSeq(argv, LAMBDA t : t \in S)

RefArgvSays(kind, argv) ==
    CASE kind = "flag" ->
            LET i == LastOf(argv, {"pos", "neg"})
            IN IF i = 0 THEN Silent ELSE Says(IF argv[i] = "pos" THEN <<"T">> ELSE <<"F">>)
      [] kind = "int" ->
            LET i == LastOf(argv, {"v1", "v2"})
            IN IF i = 0 THEN Silent ELSE Says(IF argv[i] = "v1" THEN <<"i5">> ELSE <<"i0">>)
      [] kind \in {"list", "paths"} ->
            LET w == Among(argv, {"a1", "a2"})
            IN IF w = << >> THEN Silent ELSE Says([k \in 1..Len(w) |-> IF w[k] = "a1" THEN "cmd" ELSE "cmd2"])
      [] kind = "files" ->
            LET w == Among(argv, {"f1", "f2"})
            IN IF w = << >> THEN Silent ELSE Says([k \in 1..Len(w) |-> IF w[k] = "f1" THEN "cmd" ELSE "cmd2"])
      [] kind = "bool" ->
            IF Has(argv, "dis") THEN Says(<<"F">>)
            ELSE IF Has(argv, "en") THEN Says(<<"T">>)
            ELSE IF Has(argv, "enall") THEN Says(<<"T">>)
            ELSE IF Has(argv, "disall") THEN Says(<<"F">>)
            ELSE Silent

RefCmdSays(c) ==
    IF c.route = "argv" THEN RefArgvSays(c.kind, c.argv)
    ELSE IF c.cmd = "none" THEN Silent
    ELSE IF c.kind = "files" /\ c.cmd = "v2" THEN Silent        \* `files=[]`: no file was named
    ELSE Says(Concrete(c.kind, c.cmd, "cmd"))

\* A configuration file takes part iff one was named (--config-file / config_file=...) or the visitor
\* class declares its own (config_filename).
RefFilesInEffect(c) == c.cfgsrc # "none"

RefStatements(c) ==
    << RefCmdSays(c) >> \o (IF RefFilesInEffect(c) THEN RefChain(c, 1) ELSE << >>)

RECURSIVE FirstSaid(_, _)
FirstSaid(s, default) ==
    IF s = << >> THEN default ELSE IF Head(s).said THEN Head(s).v ELSE FirstSaid(Tail(s), default)

RECURSIVE ConcatSaid(_, _)
ConcatSaid(s, default) ==
    IF s = << >> THEN default
    ELSE (IF Head(s).said THEN Head(s).v ELSE << >>) \o ConcatSaid(Tail(s), default)

RefLookup(c) ==
    IF c.bad # "none" THEN <<"error">>
    ELSE IF IsConcat(c.kind) THEN ConcatSaid(RefStatements(c), c.default)
    ELSE FirstSaid(RefStatements(c), c.default)

\* HISTORY: the effective value "of every option for a module" is a function of the configuration
\* and the module -- whatever was looked up before on the same Options object, and however often.
RefRunValues(c) == [i \in 1..Len(c.lookups) |-> RefLookup(HistView(c, c.lookups[i]))]

(***************************************************************************)
(* Bounded case space enumerated by TLC                                    *)
(***************************************************************************)
CONSTANTS
    Kinds,       \* subset of AllKinds
    MaxFiles,    \* 1..3
    Rich,        \* TRUE: extended files carry every feature
    WithBad,     \* TRUE: also enumerate malformed configurations
    Routes,      \* subset of {"inst", "kwargs", "argv"}
    Layouts,     \* subset of {"flat", "nested"}
    Slim,        \* TRUE: every file is top + override a, extend_config first (the command-line slice)
    Spells,      \* subset of AllSpells
    HistKinds,   \* option kinds looked up in histories ({} = no history slice)
    MaxLookups   \* length of a history

DefaultsOf(kind) ==
    CASE kind = "bool" -> {<<"T">>, <<"F">>}
      [] kind = "flag" -> {<<"F">>}           \* every BooleanOption that is not an error code defaults to False
      [] kind = "int"  -> {<<"d">>}           \* maximum_positional_args: 10, neither 0 nor 5
      [] kind = "list" -> {<<"dflt">>}
      [] kind \in PathKinds -> {<< >>}

FileOK(kind, f, i, m) ==
    /\ (i = 1 \/ Rich \/ f \in FileSpace(kind, FALSE))
    /\ (i = m => f.extpos = "first")
    /\ (~f.abfirst \/ (f.ova # NoSection /\ f.ovab # NoSection))
    /\ (Slim => f.ovab = NoSection /\ ~f.abfirst /\ ~f.ova.da /\ f.extpos = "first")

\* malformed: a small fixed carrier configuration with one defect at every position
Plain(kind) == [top |-> [val |-> "v1", da |-> FALSE], ova |-> [val |-> "none", da |-> FALSE],
                ovab |-> NoSection, abfirst |-> FALSE, extpos |-> "first"]

\* command lines of up to two tokens for the observed option
ArgvOK(kind, s) ==
    kind = "bool" => /\ ~(Has(s, "en") /\ Has(s, "dis"))          \* no documented meaning
                     /\ ~(Has(s, "enall") /\ Has(s, "disall"))    \* argparse: mutually exclusive group
ArgvShapes(kind) ==
    LET T == Tokens(kind)
    IN {s \in {<< >>} \cup {<<a>> : a \in T} \cup {<<a, b>> : a \in T, b \in T} : ArgvOK(kind, s)}

\* the canonical spelling of one value (used with malformed configurations)
CanonArgv(kind, v) ==
    IF v = "none" THEN << >>
    ELSE CASE kind = "flag" -> <<"pos">> [] kind = "int" -> <<"v1">> [] kind \in {"list", "paths"} -> <<"a1">>
           [] kind = "files" -> <<"f1">> [] kind = "bool" -> <<"en">>

RouteOK(kind, r) == kind = "files" => r # "inst"      \* `paths` has no command-line instance of its own
CfgSrcs(r, m) == IF r = "kwargs" THEN (IF m = 1 THEN {"arg", "class", "none"} ELSE {"arg", "class"}) ELSE {"arg"}

(* The case is built in stages so that TLC's workers share the enumeration: kind/length, then one  *)
(* file per step, then command line and query.  Only states with stage = "done" are cases.         *)
VARIABLES case, stage, n
vars == <<case, stage, n>>

Blank == [kind |-> "bool", files |-> << >>, cmd |-> "none", default |-> <<"T">>, q |-> << >>,
          bad |-> "none", badfile |-> 0, badloc |-> "top",
          route |-> "inst", argv |-> << >>, cfgsrc |-> "arg", layout |-> "flat", lookups |-> << >>,
          spell |-> "same"]

Init == case = Blank /\ stage = "kind" /\ n = 0

ChooseKind ==
    /\ stage = "kind"
    /\ \E kind \in Kinds, m \in 1..MaxFiles, lay \in Layouts, sp \in Spells : \E d \in DefaultsOf(kind) :
         \* a spelling other than the plain one needs a reference to spell (>= 2 files), flat layout
         /\ (sp # "same" => m >= 2 /\ lay = "flat")
         \* the nested layout differs from the flat one only with >= 2 files; it is enumerated for the
         \* kinds whose value shows the directory and for one scalar kind (extend_config resolution)
         /\ (lay = "nested" => m >= 2 /\ kind \in PathKinds \cup {"int"})
         /\ case' = [case EXCEPT !.kind = kind, !.default = d, !.layout = lay, !.spell = sp]
         /\ n' = m
    /\ stage' = "files"

AddFile ==
    /\ stage = "files" /\ Len(case.files) < n
    /\ \E f \in FileSpace(case.kind, TRUE) :
         /\ FileOK(case.kind, f, Len(case.files) + 1, n)
         /\ case' = [case EXCEPT !.files = Append(@, f)]
    /\ UNCHANGED <<stage, n>>

ChooseQuery ==
    /\ stage = "files" /\ Len(case.files) = n
    /\ \E r \in Routes, i \in 1..Len(Paths) :
         /\ RouteOK(case.kind, r)
         /\ \/ /\ r \in {"inst", "kwargs"}
               /\ \E c \in SecVals(case.kind), src \in CfgSrcs(r, n) :
                    case' = [case EXCEPT !.cmd = c, !.q = Paths[i], !.route = r, !.cfgsrc = src]
            \/ /\ r = "argv"
               /\ \E av \in ArgvShapes(case.kind) :
                    case' = [case EXCEPT !.argv = av, !.q = Paths[i], !.route = r]
    /\ stage' = "done" /\ UNCHANGED n

ChooseBad ==
    /\ WithBad /\ stage = "files" /\ case.files = << >> /\ case.layout = "flat" /\ case.spell = "same"
    /\ \E b \in BadKinds, bf \in 1..n, loc \in {"top", "ova"}, r \in Routes, cm \in {"none", "v1"}, sp \in Spells :
         /\ RouteOK(case.kind, r)
         \* cycles (of length n closed by the last file, or a self-inclusion of an earlier file) in every spelling
         /\ (sp # "same" => b \in {"recursive", "recursive_override"})
         /\ (r = "inst" => cm = "none")
         /\ (b = "wrong_elem_type" => case.kind \in {"list", "paths", "files"})
         /\ case' = [case EXCEPT !.files = [i \in 1..n |-> Plain(case.kind)], !.q = <<"a">>,
                                 !.bad = b, !.badfile = bf, !.badloc = loc, !.route = r, !.spell = sp,
                                 !.cmd = IF r = "argv" THEN "none" ELSE cm,
                                 !.argv = IF r = "argv" THEN CanonArgv(case.kind, cm) ELSE << >>]
    /\ stage' = "done" /\ UNCHANGED n

\* HISTORY slice: the Options object is built (stage "hist"), then one Lookup(option kind, module) per
\* step; every state with stage = "hist" is a case (every prefix of a history is a history).
BuildOptions ==
    /\ HistKinds # {} /\ stage = "files" /\ Len(case.files) = n
    /\ \E c \in SecVals(case.kind) : case' = [case EXCEPT !.cmd = c]
    /\ stage' = "hist" /\ UNCHANGED n

Lookup ==
    /\ stage = "hist" /\ Len(case.lookups) < MaxLookups
    /\ \E k \in HistKinds, i \in 1..Len(Paths) :
         case' = [case EXCEPT !.lookups = Append(@, [kind |-> k, q |-> Paths[i]])]
    /\ UNCHANGED <<stage, n>>

Next == ChooseKind \/ AddFile \/ ChooseQuery \/ ChooseBad \/ BuildOptions \/ Lookup

(***************************************************************************)
(* Properties on the model                                                 *)
(***************************************************************************)
LayeringFollowsDocs == stage = "done" => ImplLookup(case) = RefLookup(case)

\* The behaviour of the pinned commit (priority never stored) does NOT satisfy the property: this
\* invariant is expected to be violated and is used as a sensitivity test of the specification.
PinnedFollowsDocs == stage = "done" => ImplLookupPinned(case) = RefLookup(case)

\* Sensitivity self-tests of the command-line stage (each must be VIOLATED):
\* an assembly that drops falsy command-line values,
DropFalsyFollowsDocs == stage = "done" => ImplLookupGen(case, FALSE, "drop_falsy") = RefLookup(case)
\* an assembly that drops error-code settings equal to the built-in default,
DropDefaultSettingsFollowsDocs ==
    stage = "done" => ImplLookupGen(case, FALSE, "drop_default_settings") = RefLookup(case)
\* and path entries resolved against the main file's directory instead of the mentioning file's.
MainDirFollowsDocs == stage = "done" => ImplLookupGen(case, FALSE, "main_dir") = RefLookup(case)
\* a repeated --flag / --int N keeping its first value, --enable-all/--disable-all overriding -e/-d,
ArgvFirstWinsFollowsDocs == stage = "done" => ImplLookupGen(case, FALSE, "argv_first_wins") = RefLookup(case)
AllBeatsSingleFollowsDocs == stage = "done" => ImplLookupGen(case, FALSE, "all_beats_single") = RefLookup(case)
\* and a visitor class's own config_filename being ignored.
NoClassConfigFollowsDocs == stage = "done" => ImplLookupGen(case, FALSE, "no_class_config") = RefLookup(case)

\* HISTORY: every lookup of every history yields the documented value ...
HistoryFollowsDocs == stage = "hist" => ImplRunValues(case) = RefRunValues(case)
\* ... and lookups do not change the Options object.
LookupsArePure == stage = "hist" => ImplRun(case, ImplStore(case), 1, "none").store = ImplStore(case)
\* both at once (one evaluation of the run per state)
HistoryHolds ==
    stage = "hist" => LET s0 == ImplStore(case)
                          r == ImplRun(case, s0, 1, "none")
                      IN r.vals = RefRunValues(case) /\ r.store = s0
\* Sensitivity (must be VIOLATED): a concatenating lookup that accumulates in the stored list.
AliasFirstFollowsDocs == stage = "hist" => ImplRun(case, ImplStore(case), 1, "alias_first").vals = RefRunValues(case)
=============================================================================
