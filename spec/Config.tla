------------------------------- MODULE Config -------------------------------
(***************************************************************************)
(* Configuration layering (property C18).                                  *)
(*                                                                         *)
(* A case is a chain of configuration files main -> ext1 -> ext2 (each may *)
(* `extend_config` the next), a command-line setting, a queried module     *)
(* path and the option kind.  Impl* transcribes pyanalyze/options.py       *)
(* (file:line in comments); Ref* is the precedence documented in           *)
(* docs/configuration.md and stated by the property.  Every operator takes *)
(* the case as a parameter so that the same definitions judge states       *)
(* enumerated by TLC (Config.cfg) and observations recorded from the real  *)
(* code (ConfigTrace.tla).                                                 *)
(*                                                                         *)
(* Option kinds: "bool" (an error code; `disable_all` interacts with it),  *)
(* "int" (first applicable wins) and "list" (concatenated).                *)
(***************************************************************************)
EXTENDS Naturals, Sequences, FiniteSets, TLC

Paths == << <<>>, <<"a">>, <<"a", "b">>, <<"c">> >>          \* queried module paths

IsPrefix(p, q) == Len(p) <= Len(q) /\ \A i \in 1..Len(p) : p[i] = q[i]

(***************************************************************************)
(* A section is [val, da]: val \in {"none","v1","v2"} is the explicit      *)
(* setting of the observed option, da = TRUE iff `disable_all = true` is   *)
(* written in that section.  For "bool": v1 = true, v2 = false.  For       *)
(* "list" the written value is a one-element list naming its own location  *)
(* so that concatenation order is observable.  A missing override section  *)
(* is NoSection.                                                           *)
(***************************************************************************)
SecVals(kind) == IF kind = "list" THEN {"none", "v1"} ELSE {"none", "v1", "v2"}
Sections(kind) == [val : SecVals(kind), da : IF kind = "bool" THEN BOOLEAN ELSE {FALSE}]
NoSection == [val |-> "absent", da |-> FALSE]

(* A file: top-level section, optional override sections for modules a and *)
(* a.b, the textual order of the two overrides, and the position of the    *)
(* extend_config key among the keys ("first", "mid" = after the option     *)
(* keys and before `overrides`, "last").  The last file of a chain extends *)
(* nothing (extpos is then irrelevant and fixed to "first").               *)
FileSpace(kind, rich) ==
    [top : Sections(kind),
     ova : {NoSection} \cup (IF rich THEN Sections(kind) ELSE {s \in Sections(kind) : ~s.da}),
     ovab : IF rich THEN {NoSection} \cup {s \in Sections(kind) : ~s.da} ELSE {NoSection},
     abfirst : IF rich THEN BOOLEAN ELSE {FALSE},
     extpos : {"first", "mid", "last"}]

(* Malformed configurations (second sentence of the property): where, what *)
BadKinds == {"unknown_key", "wrong_type", "nested_overrides", "module_at_top",
             "override_without_module", "recursive", "missing_file", "overrides_not_list",
             "bool_for_int", "disable_all_not_bool"}

FileName(i) == <<"f1", "f2", "f3">>[i]
Tag(i, sec) == FileName(i) \o "." \o sec       \* the command line is "cmd"

Concrete(kind, v, tag) ==
    CASE kind = "bool" -> IF v = "v1" THEN <<"T">> ELSE <<"F">>
      [] kind = "int"  -> IF v = "v1" THEN <<"i1">> ELSE <<"i2">>
      [] kind = "list" -> <<tag>>

(***************************************************************************)
(* Impl: options.py                                                        *)
(*   parse_config_file / _parse_config_section (options.py:347-434) emit   *)
(*   instances in the textual order of the keys; Options.from_option_list  *)
(*   (options.py:279) sorts them with a stable sort on sort_key()          *)
(*   (options.py:115); get_value_from_instances takes the first applicable *)
(*   instance (options.py:101) or concatenates all applicable ones         *)
(*   (options.py:166).                                                     *)
(***************************************************************************)
Inst(value, mod, fromcmd, prio) == [value |-> value, mod |-> mod, cmdline |-> fromcmd, prio |-> prio]

\* one section: the explicit key ...
ImplSectionInsts(kind, sec, mod, i, name, prio) ==
    IF sec.val \in {"v1", "v2"} THEN << Inst(Concrete(kind, sec.val, Tag(i, name)), mod, FALSE, prio) >> ELSE << >>

\* ... and, after the loop over the keys, `disable_all` yields False for every code that the same
\* section did not explicitly enable (options.py:430)
ImplSectionDisableAll(kind, sec, mod, prio) ==
    IF kind = "bool" /\ sec.da /\ sec.val # "v1" THEN << Inst(<<"F">>, mod, FALSE, prio) >> ELSE << >>

ImplOverrides(kind, f, i, prio) ==
    LET a == IF f.ova = NoSection THEN << >>
             ELSE ImplSectionInsts(kind, f.ova, <<"a">>, i, "a", prio)
                  \o ImplSectionDisableAll(kind, f.ova, <<"a">>, prio)
        ab == IF f.ovab = NoSection THEN << >>
              ELSE ImplSectionInsts(kind, f.ovab, <<"a", "b">>, i, "ab", prio)
                   \o ImplSectionDisableAll(kind, f.ovab, <<"a", "b">>, prio)
    IN IF f.abfirst THEN ab \o a ELSE a \o ab

\* Priority stored on the instances of file i.  parse_config_file passes priority + 1 down the
\* extend_config chain (options.py:403) and _parse_config_section stores it on every instance it
\* creates.  (At the pinned commit the priority was computed but never stored -- every instance
\* had priority 0 -- which is the defect repaired by the "fix:" commit recorded in
\* known_findings.jsonl; pinned = TRUE reproduces that behaviour.)
ImplPriority(i, pinned) == IF pinned THEN 0 ELSE i - 1

RECURSIVE ImplFileInsts(_, _, _)
ImplFileInsts(c, i, pinned) ==
    IF i > Len(c.files) THEN << >>
    ELSE LET f == c.files[i]
             prio == ImplPriority(i, pinned)
             ext == IF i < Len(c.files) THEN ImplFileInsts(c, i + 1, pinned) ELSE << >>
             own == ImplSectionInsts(c.kind, f.top, << >>, i, "top", prio)
             ovs == ImplOverrides(c.kind, f, i, prio)
             da == ImplSectionDisableAll(c.kind, f.top, << >>, prio)     \* emitted after the key loop
         IN CASE f.extpos = "first" -> ext \o own \o ovs \o da
              [] f.extpos = "mid"   -> own \o ext \o ovs \o da
              [] f.extpos = "last"  -> own \o ovs \o ext \o da

\* name_check_visitor.py:5818 -- command-line instances come first in the list
ImplCmdInsts(c) ==
    IF c.cmd = "none" THEN << >> ELSE << Inst(Concrete(c.kind, c.cmd, "cmd"), << >>, TRUE, 0) >>

\* sort_key: (not from_command_line, priority, -len(applicable_to)); Python's sort is stable.
KeyLess(x, y) ==
    LET kx == <<IF x.cmdline THEN 0 ELSE 1, x.prio, 2 - Len(x.mod)>>
        ky == <<IF y.cmdline THEN 0 ELSE 1, y.prio, 2 - Len(y.mod)>>
    IN \/ kx[1] < ky[1]
       \/ kx[1] = ky[1] /\ kx[2] < ky[2]
       \/ kx[1] = ky[1] /\ kx[2] = ky[2] /\ kx[3] < ky[3]

RECURSIVE InsertStable(_, _)
InsertStable(sorted, x) ==      \* insert x after every element that is not greater than x
    IF sorted = << >> THEN <<x>>
    ELSE IF KeyLess(x, Head(sorted)) THEN <<x>> \o sorted
         ELSE <<Head(sorted)>> \o InsertStable(Tail(sorted), x)

RECURSIVE StableSort(_)
StableSort(s) == IF s = << >> THEN << >> ELSE InsertStable(StableSort(SubSeq(s, 1, Len(s) - 1)), s[Len(s)])

\* ConfigOption.get_value_from_instances (options.py:101): first applicable instance, else NotFound
RECURSIVE FirstApplicable(_, _, _)
FirstApplicable(insts, path, notfound) ==
    IF insts = << >> THEN notfound
    ELSE IF IsPrefix(Head(insts).mod, path) THEN Head(insts).value
         ELSE FirstApplicable(Tail(insts), path, notfound)

\* ConcatenatedOption.get_value_from_instances (options.py:166): all applicable instances
RECURSIVE ConcatApplicable(_, _)
ConcatApplicable(insts, path) ==
    IF insts = << >> THEN << >>
    ELSE (IF IsPrefix(Head(insts).mod, path) THEN Head(insts).value ELSE << >>)
         \o ConcatApplicable(Tail(insts), path)

\* Options._get_value_for_no_default (options.py:301) appends an instance carrying the default value
\* after the sorted instances; Options.get_value_for falls back to the default on NotFound.
\* (At the pinned commit ConcatenatedOption.get_value_from_instances appended the default a second
\* time; pinned = TRUE reproduces that.)
ImplLookupWith(c, pinned) ==
    IF c.bad # "none" THEN <<"error">>
    ELSE LET sorted == StableSort(ImplCmdInsts(c) \o ImplFileInsts(c, 1, pinned))
             all == sorted \o << Inst(c.default, << >>, FALSE, 0) >>
         IN IF c.kind = "list"
            THEN ConcatApplicable(all, c.q) \o (IF pinned THEN c.default ELSE << >>)
            ELSE FirstApplicable(all, c.q, c.default)

ImplLookup(c) == ImplLookupWith(c, FALSE)
ImplLookupPinned(c) == ImplLookupWith(c, TRUE)

(***************************************************************************)
(* Ref: the documented precedence, written without reference to instances, *)
(* priorities or sorting: a list of "statements" about the option in       *)
(* decreasing precedence; the first one that says something wins (or all   *)
(* are concatenated).                                                      *)
(***************************************************************************)
Says(v) == [said |-> TRUE, v |-> v]
Silent == [said |-> FALSE, v |-> "none"]

RefSectionSays(kind, sec, i, name) ==
    IF sec = NoSection THEN Silent
    ELSE IF sec.val \in {"v1", "v2"} THEN Says(Concrete(kind, sec.val, Tag(i, name)))
    ELSE IF kind = "bool" /\ sec.da THEN Says(<<"F">>)
    ELSE Silent

\* sections of file i that match the path, most specific first
RefMatching(c, i) ==
    LET f == c.files[i]
    IN (IF IsPrefix(<<"a", "b">>, c.q) THEN << RefSectionSays(c.kind, f.ovab, i, "ab") >> ELSE << >>)
       \o (IF IsPrefix(<<"a">>, c.q) THEN << RefSectionSays(c.kind, f.ova, i, "a") >> ELSE << >>)
       \o << RefSectionSays(c.kind, f.top, i, "top") >>

RECURSIVE RefChain(_, _)
RefChain(c, i) == IF i > Len(c.files) THEN << >> ELSE RefMatching(c, i) \o RefChain(c, i + 1)

RefStatements(c) ==
    (IF c.cmd = "none" THEN << >> ELSE << Says(Concrete(c.kind, c.cmd, "cmd")) >>) \o RefChain(c, 1)

RECURSIVE FirstSaid(_, _)
FirstSaid(s, default) ==
    IF s = << >> THEN default ELSE IF Head(s).said THEN Head(s).v ELSE FirstSaid(Tail(s), default)

RECURSIVE ConcatSaid(_, _)
ConcatSaid(s, default) ==
    IF s = << >> THEN default
    ELSE (IF Head(s).said THEN Head(s).v ELSE << >>) \o ConcatSaid(Tail(s), default)

RefLookup(c) ==
    IF c.bad # "none" THEN <<"error">>
    ELSE IF c.kind = "list" THEN ConcatSaid(RefStatements(c), c.default)
    ELSE FirstSaid(RefStatements(c), c.default)

(***************************************************************************)
(* Bounded case space enumerated by TLC                                    *)
(***************************************************************************)
CONSTANTS
    Kinds,       \* subset of {"bool","int","list"}
    MaxFiles,    \* 1..3
    Rich,        \* TRUE: extended files carry every feature
    WithBad      \* TRUE: also enumerate malformed configurations

DefaultsOf(kind) ==
    CASE kind = "bool" -> {<<"T">>, <<"F">>}
      [] kind = "int"  -> {<<"d">>}
      [] kind = "list" -> {<<"dflt">>}

FileOK(kind, f, i, n) ==
    /\ (i = 1 \/ Rich \/ f \in FileSpace(kind, FALSE))
    /\ (i = n => f.extpos = "first")
    /\ (~f.abfirst \/ (f.ova # NoSection /\ f.ovab # NoSection))

\* malformed: a small fixed carrier configuration with one defect at every position
Plain(kind) == [top |-> [val |-> "v1", da |-> FALSE], ova |-> [val |-> "none", da |-> FALSE],
                ovab |-> NoSection, abfirst |-> FALSE, extpos |-> "first"]

(* The case is built in stages so that TLC's workers share the enumeration: kind/length, then one  *)
(* file per step, then command line and query.  Only states with stage = "done" are cases.         *)
VARIABLES case, stage, n
vars == <<case, stage, n>>

Blank == [kind |-> "bool", files |-> << >>, cmd |-> "none", default |-> <<"T">>, q |-> << >>,
          bad |-> "none", badfile |-> 0, badloc |-> "top"]

Init == case = Blank /\ stage = "kind" /\ n = 0

ChooseKind ==
    /\ stage = "kind"
    /\ \E kind \in Kinds, m \in 1..MaxFiles, d \in BOOLEAN :
         /\ (d \/ kind = "bool")
         /\ case' = [case EXCEPT !.kind = kind,
                                 !.default = CASE kind = "bool" -> IF d THEN <<"T">> ELSE <<"F">>
                                               [] kind = "int" -> <<"d">>
                                               [] kind = "list" -> <<"dflt">>]
         /\ n' = m
    /\ stage' = "files"

AddFile ==
    /\ stage = "files" /\ Len(case.files) < n
    /\ \E f \in FileSpace(case.kind, TRUE) :
         /\ FileOK(case.kind, f, Len(case.files) + 1, n)
         /\ case' = [case EXCEPT !.files = Append(@, f)]
    /\ UNCHANGED <<stage, n>>

ChooseQuery ==
    /\ stage = "files" /\ Len(case.files) = n
    /\ \E c \in SecVals(case.kind), i \in 1..Len(Paths) :
         case' = [case EXCEPT !.cmd = c, !.q = Paths[i]]
    /\ stage' = "done" /\ UNCHANGED n

ChooseBad ==
    /\ WithBad /\ stage = "files" /\ case.files = << >>
    /\ \E b \in BadKinds, bf \in 1..n, loc \in {"top", "ova"} :
         case' = [case EXCEPT !.files = [i \in 1..n |-> Plain(case.kind)], !.q = <<"a">>,
                              !.bad = b, !.badfile = bf, !.badloc = loc]
    /\ stage' = "done" /\ UNCHANGED n

Next == ChooseKind \/ AddFile \/ ChooseQuery \/ ChooseBad

(***************************************************************************)
(* Properties on the model                                                 *)
(***************************************************************************)
LayeringFollowsDocs == stage = "done" => ImplLookup(case) = RefLookup(case)

\* The behaviour of the pinned commit (priority never stored) does NOT satisfy the property: this
\* invariant is expected to be violated and is used as a sensitivity test of the specification.
PinnedFollowsDocs == stage = "done" => ImplLookupPinned(case) = RefLookup(case)
=============================================================================
