----------------------------- MODULE DefHeaders -----------------------------
(***************************************************************************)
(* Static and runtime views of a function's parameters agree (property     *)
(* C13, second and third sentence).                                        *)
(*                                                                         *)
(* A case is a def HEADER                                                  *)
(*   [params : Seq([name, kind, ann, dflt]), ret, isasync, future]         *)
(* (ann / ret are annotation expressions of Annotations.tla or NoAnn,      *)
(* future = the module starts with `from __future__ import annotations`).  *)
(* pyanalyze derives the Signature of such a function twice:               *)
(*   def   from the def statement: functions.py:220 compute_parameters,    *)
(*         :418 compute_value_of_function (annotations through the         *)
(*         checker's visitor, Annotations!ImplAstAnnotation);              *)
(*   rt    from the function object: inspect.signature +                   *)
(*         arg_spec.py:396 from_signature, :456 _make_sig_parameter,       *)
(*         :508 _get_type_for_parameter (annotations through               *)
(*         Annotations!ImplRt on the runtime object, or on the source      *)
(*         string under PEP 563).                                          *)
(* The def route is what a nested function (or any function pyanalyze      *)
(* cannot find in the imported module) is judged with; the rt route is     *)
(* used for every function found in a module -- in the defining module and *)
(* in importing modules alike.                                             *)
(***************************************************************************)
EXTENDS Annotations

CONSTANTS
    AnnChoices,       \* parameter annotations: subset of {"noann","int","str","QA","QTE","TE","OptInt","ListInt","T"}
    DefaultChoices,   \* subset of {"none","int:1","None","...","name","call","lambda"}: the last three are defaults that
                      \* are not literals -- a module constant `D` (= 1), a call `mk()` (returns the int 1), `lambda: 1`
    RetChoices,       \* return annotations (same vocabulary, plus "None")
    AsyncChoices,     \* subset of BOOLEAN
    FutureChoices,    \* subset of BOOLEAN
    DunderChoices,    \* subset of BOOLEAN: may a parameter be spelled __name
    MaxParams,
    MaxPos,           \* calls: 0..MaxPos positional arguments
    MaxKw,            \* calls: at most MaxKw keyword arguments
    BugRuntimeIgnoresKwDefaults,  \* sensitivity switch: a plausible bug in the runtime route
    BugStringDropsAllowUnpack,    \* sensitivity switch: an annotation that arrives as a string is evaluated without allow_unpack
    FixedDunder       \* FALSE = current code, TRUE = after /verif/proposed/C13-fix-4.diff (see Annotations.tla)

NoAnn == X("noann", "", << >>)
AnnExpr(c) ==
    CASE c = "noann" -> NoAnn
      [] c = "QA" -> Quote(Nm("A"))
      [] c = "QTE" -> Quote(Nm("TimeoutError"))       \* a module-level class that shadows a builtin, as a string
      [] c = "TE" -> Nm("TimeoutError")
      [] c = "OptInt" -> Sub("Optional", <<Nm("int")>>)
      [] c = "ListInt" -> Sub("list", <<Nm("int")>>)
      \* annotations of *args / **kwargs (DefVarargs.tla): PEP 646 / PEP 692 forms, as written and quoted
      [] c = "Qint" -> Quote(Nm("int"))
      [] c = "UnpTupIS" -> Sub("Unpack", <<Sub("tuple", <<Nm("int"), Nm("str")>>)>>)
      [] c = "QUnpTupIS" -> Quote(Sub("Unpack", <<Sub("tuple", <<Nm("int"), Nm("str")>>)>>))
      [] c = "UnpTupEll" -> Sub("Unpack", <<Sub("tuple", <<Nm("int"), Ell>>)>>)
      [] c = "QUnpTupEll" -> Quote(Sub("Unpack", <<Sub("tuple", <<Nm("int"), Ell>>)>>))
      [] c = "StarTupIS" -> Star(Sub("tuple", <<Nm("int"), Nm("str")>>))             \* `*args: *tuple[int, str]` (3.11 syntax)
      [] c = "UnpTDN" -> Sub("Unpack", <<Nm("TDN")>>)
      [] c = "QUnpTDN" -> Quote(Sub("Unpack", <<Nm("TDN")>>))
      [] c = "IterInt" -> Sub("Iterator", <<Nm("int")>>)          \* return annotations of (async) generators
      [] c = "AIterInt" -> Sub("AsyncIterator", <<Nm("int")>>)
      [] OTHER -> Nm(c)                     \* int, str, T, None

Kinds == <<"POSITIONAL_ONLY", "POSITIONAL_OR_KEYWORD", "VAR_POSITIONAL", "KEYWORD_ONLY", "VAR_KEYWORD">>
Rank(kind) == CHOOSE i \in 1..5 : Kinds[i] = kind
IsVar(kind) == kind \in {"VAR_POSITIONAL", "VAR_KEYWORD"}
PosName(i, dunder) == (IF dunder THEN "__" ELSE "") \o <<"a", "b", "c", "d">>[i]
IsDunderName(name) == name \in {"__a", "__b", "__c", "__d"}     \* analysis_lib.py:130 is_positional_only_arg_name

(***************************************************************************)
(* Ref (CPython data model): what inspect.signature(f) reports for the     *)
(* header -- names, kinds and presence of defaults exactly as written.     *)
(* Validated against the real inspect.signature in every run.              *)
(***************************************************************************)
RefInspect(h) == [i \in 1..Len(h.params) |->
                    <<h.params[i].name, h.params[i].kind, IF h.params[i].dflt = "none" THEN "nodefault" ELSE "default">>]

(***************************************************************************)
(* Impl, def route                                                         *)
(***************************************************************************)
\* functions.py:344 translate_vararg_type (no Unpack / ParamSpec in this vocabulary)
\* (:355-364 / :370-379: Unpack[X] on *args / **kwargs is X itself if X is a tuple / a dict type)
ImplTranslateVararg(kind, v) ==
    CASE kind = "VAR_POSITIONAL" /\ v.t = "Unpacked" ->
            IF v.a[1].n = "tuple" /\ v.a[1].t \in {"Seq", "Generic", "Typed"} THEN v.a[1] ELSE AnyV("error")
      [] kind = "VAR_KEYWORD" /\ v.t = "Unpacked" ->
            IF v.a[1].t = "TypedDict" \/ (v.a[1].n = "dict" /\ v.a[1].t \in {"Generic", "Typed"}) THEN v.a[1] ELSE AnyV("error")
      [] kind = "VAR_POSITIONAL" -> Mk("Generic", "tuple", <<v>>)
      [] kind = "VAR_KEYWORD" -> Mk("Generic", "dict", <<TypedV("str"), v>>)
      [] OTHER -> v

\* The annotation object / string handed to _type_from_runtime at the TOP level of a parameter annotation
\* (annotations.py:406-412: the str branch forwards allow_unpack to _eval_forward_ref)
ImplRtTop(obj, au) == ImplRt(obj, IF BugStringDropsAllowUnpack /\ obj.k = "strobj" THEN FALSE ELSE au)
\* `*args: *tuple[int, str]` -- the annotation is an ast.Starred node, not an expression: the checker's visitor
\* evaluates it to no type (Any[error]); as the text "*tuple[int, str]" (PEP 563) it is a SyntaxError for
\* _eval_forward_ref (annotations.py:676-681 -> Any[error])
TopStar(ann) == ann.k = "star"

\* signature.py:1857-1895 Signature.make: a *args whose type is a tuple of fixed length becomes positional-only
\* parameters @i, a **kwargs whose type is a TypedDict becomes keyword-only parameters (NotRequired = has a default)
ImplTypedDictParams(items) ==
    CASE items = "p:int:required,q:str:optional" ->
            <<ParamV("p", "KEYWORD_ONLY", NoDefault, TypedV("int")), ParamV("q", "KEYWORD_ONLY", AnyV("marker"), TypedV("str"))>>
      [] items = "a:int:required,b:str:required" ->
            <<ParamV("a", "KEYWORD_ONLY", NoDefault, TypedV("int")), ParamV("b", "KEYWORD_ONLY", NoDefault, TypedV("str"))>>
RECURSIVE ImplExpandParams(_, _)
ImplExpandParams(ps, i) ==
    IF ps = << >> THEN << >>
    ELSE LET q == Head(ps)
         IN IF q.t # "Param" THEN <<q>> \o ImplExpandParams(Tail(ps), i + 1)
            ELSE IF q.a[1].n = "VAR_POSITIONAL" /\ q.a[3].t = "Seq" /\ \A j \in 1..Len(q.a[3].a) : q.a[3].a[j].t = "one"
            THEN [j \in 1..Len(q.a[3].a) |-> ParamV("@" \o ToString(i + j - 1), "POSITIONAL_ONLY", NoDefault, q.a[3].a[j].a[1])]
                 \o ImplExpandParams(Tail(ps), i + Len(q.a[3].a))
            ELSE IF q.a[1].n = "VAR_KEYWORD" /\ q.a[3].t = "TypedDict"
            THEN ImplTypedDictParams(q.a[3].n) \o ImplExpandParams(Tail(ps), i + 2)
            ELSE <<q>> \o ImplExpandParams(Tail(ps), i + 1)

\* value.py:3389 make_coro_type
ImplCoro(v) == Mk("Generic", "Coroutine", <<AnyV("inference"), AnyV("inference"), v>>)

\* functions.py:212 _visit_default: `...` as a default is "unannotated"
ImplDefDefault(d) ==
    CASE d = "none" -> NoDefault
      [] d = "..." -> AnyV("unannotated")
      [] d = "name" -> KnownV("int:1")             \* the visitor knows the module constant
      [] d = "call" -> TypedV("int")               \* the declared return type of mk
      [] d = "lambda" -> CallableV(SigV(<< >>, KnownV("int:1")))   \* visit_Lambda: () -> Literal[1]
      [] OTHER -> KnownV(d)

\* arg_spec.py:456 _make_sig_parameter + the make_everything_pos_only loop of from_signature (:437)
ImplRtKind(h, i) ==
    LET p == h.params[i]
        dunderAtOrAfter == \E j \in i..Len(h.params) :
                              h.params[j].kind = "POSITIONAL_OR_KEYWORD" /\ IsDunderName(h.params[j].name)
    IN IF dunderAtOrAfter THEN "POSITIONAL_ONLY" ELSE p.kind


ImplDefParam(p) ==
    LET dflt == ImplDefDefault(p.dflt)
        value == IF p.ann # NoAnn
                 THEN (IF TopStar(p.ann) THEN AnyV("error")
                       ELSE ImplRtTop(ImplVisitorEval(p.ann), IsVar(p.kind)))           \* functions.py:266 (= ImplAstAnnotation)
                 ELSE IF dflt = NoDefault THEN AnyV("unannotated")                       \* :302
                 ELSE Unite(<<AnyV("unannotated"), dflt>>)                               \* :304
    IN ParamV(p.name, p.kind, dflt, ImplTranslateVararg(p.kind, value))                  \* :306, :340

\* signature.py:592 Signature.validate (called by the constructor): a positional-only parameter may only follow
\* positional-only parameters -- which the expansion of a fixed-length *args behind a positional-or-keyword parameter
\* violates: InvalidSignature is raised
ImplSigInvalid(sig) ==
    sig.t = "Sig" /\ \E k \in 1..(Len(sig.a) - 1) :
        /\ sig.a[k].t = "Param" /\ sig.a[k].a[1].n = "POSITIONAL_ONLY"
        /\ \E k2 \in 1..(k - 1) : sig.a[k2].t = "Param" /\ sig.a[k2].a[1].n # "POSITIONAL_ONLY"
\* the exception escapes the visit of the def statement (internal_error; the name stays undefined, a use is Any[error])
\* resp. get_signature
ImplSigDefChecked(sig) == IF ImplSigInvalid(sig) THEN AnyV("error") ELSE sig
ImplSigRtChecked(sig) == IF ImplSigInvalid(sig) THEN V("Raised", "InvalidSignature", << >>) ELSE sig

ImplSigDef(h) ==
    LET ret0 == IF h.ret = NoAnn THEN AnyV("unannotated") ELSE ImplAstAnnotation(h.ret, FALSE)   \* name_check_visitor.py:1942
        ret == IF h.isasync THEN ImplCoro(ret0) ELSE ret0                                         \* functions.py:425-432
        \* (C13-fix-4) the same positional-only convention in compute_parameters
        kindOf(i) == IF FixedDunder THEN ImplRtKind(h, i) ELSE h.params[i].kind
    IN ImplSigDefChecked(SigV(ImplExpandParams([i \in 1..Len(h.params) |-> LET q == ImplDefParam(h.params[i])
                                          IN IF q.t = "Param" THEN ParamV(q.n, kindOf(i), q.a[2], q.a[3]) ELSE q], 0), ret))

(***************************************************************************)
(* Impl, runtime route                                                     *)
(***************************************************************************)
\* the annotation object found on the function: the evaluated expression, or its source text (PEP 563)
\* (names inside strings are resolved by get_name_from_globals, see Annotations!ImplSigNames)
ImplAnnObject(h, ann) == IF h.future THEN X("strobj", "", <<ImplSigNames(ann, TRUE)>>) ELSE PyEval(ImplSigNames(ann, FALSE))

\* arg_spec.py:508 _get_type_for_parameter
ImplRtParamType(h, p) ==
    IF p.ann # NoAnn
    THEN ImplTranslateVararg(p.kind, IF h.future /\ TopStar(p.ann) THEN AnyV("error")
                                     ELSE ImplRtTop(ImplAnnObject(h, p.ann), IsVar(p.kind)))   \* :515-520
    ELSE AnyV("unannotated")                                                             \* :574 (no self, no varname value)

ImplRtDefault(p) ==
    IF p.dflt = "none" \/ (BugRuntimeIgnoresKwDefaults /\ p.kind = "KEYWORD_ONLY") THEN NoDefault
    ELSE KnownV(CASE p.dflt \in {"name", "call"} -> "int:1"                              \* :476 the object found on the
                  [] p.dflt = "lambda" -> "obj:<lambda>"                                  \*      function: the VALUE
                  [] OTHER -> p.dflt)

ImplSigRt(h) ==
    LET ret0 == IF h.ret = NoAnn THEN AnyV("unannotated")                                \* :424
                ELSE ImplRt(ImplAnnObject(h, h.ret), FALSE)                              \* :428
        ret == IF h.isasync THEN ImplCoro(ret0) ELSE ret0                                \* :432
    IN ImplSigRtChecked(SigV(ImplExpandParams([i \in 1..Len(h.params) |->
                ParamV(h.params[i].name, ImplRtKind(h, i), ImplRtDefault(h.params[i]), ImplRtParamType(h, h.params[i]))], 0),
            ret))

(***************************************************************************)
(* Ref: when are two Signatures "the same parameters up to representation" *)
(*   names, kinds: equal;                                                  *)
(*   defaults: absent in both or the same default value;                   *)
(*   annotation: the same type (Annotations!RefSame) if the header         *)
(*     declares one; otherwise both views must leave the parameter         *)
(*     undeclared, i.e. accept any argument (Any, a union with Any, or for *)
(*     *args / **kwargs the tuple / dict of such);                         *)
(*   return: the same type.                                                *)
(***************************************************************************)
RefAnyish(v) == (v.t = "Any" /\ v.n # "error") \/ (v.t = "Union" /\ \E i \in 1..Len(v.a) : v.a[i].t = "Any" /\ v.a[i].n # "error")
RefUndeclared(kind, v) ==
    \/ RefAnyish(v)
    \/ kind = "VAR_POSITIONAL" /\ v.t = "Generic" /\ v.n = "tuple" /\ Len(v.a) = 1 /\ RefAnyish(v.a[1])
    \/ kind = "VAR_KEYWORD" /\ v.t = "Generic" /\ v.n = "dict" /\ Len(v.a) = 2 /\ v.a[1] = TypedV("str") /\ RefAnyish(v.a[2])
RefSameName(x, y) == x.t = "Param" /\ y.t = "Param" /\ x.n = y.n
RefSameKind(x, y) == x.a[1] = y.a[1]
RefSameDefault(x, y) == x.a[2] = y.a[2]            \* absent in both, or the same default value
\* A default that is not a literal has a value only when the def statement is executed.  The view derived from the def
\* statement may then show what is statically known of that value -- the type a call is declared to return, the
\* signature of a lambda -- and that is the same default "up to representation" iff the runtime value is of that kind.
\* (Only for parameters whose default is written as a call / a lambda; everywhere else the defaults must be equal.)
RefConstType(c) == CASE c = "int:1" -> "int" [] c = "None" -> "NoneType" [] OTHER -> "?"
RefValueOfType(v, w) == v.t = "Typed" /\ w.t = "Known" /\ RefConstType(w.n) = v.n
RefLambdaOfSig(v, w) == v.t = "Callable" /\ w = V("Known", "obj:<lambda>", << >>)
RefSameDefaultP(p, x, y) ==
    \/ RefSameDefault(x, y)
    \/ p.dflt = "call" /\ (RefValueOfType(x.a[2], y.a[2]) \/ RefValueOfType(y.a[2], x.a[2]))
    \/ p.dflt = "lambda" /\ (RefLambdaOfSig(x.a[2], y.a[2]) \/ RefLambdaOfSig(y.a[2], x.a[2]))
RefSameAnnotation(p, x, y) ==
    IF p.ann = NoAnn THEN RefUndeclared(x.a[1].n, x.a[3]) /\ RefUndeclared(y.a[1].n, y.a[3])
    ELSE RefSame(x.a[3], y.a[3])
\* exceptKinds / exceptDefaults switch one clause off (used to attribute a disagreement to a deviation class)
RefSameSigModulo(h, s1, s2, exceptKinds, exceptDefaults) ==
    LET n == Len(h.params)
    IN /\ s1.t = "Sig" /\ s2.t = "Sig" /\ Len(s1.a) = n + 1 /\ Len(s2.a) = n + 1
       /\ \A i \in 1..n :
             /\ RefSameName(s1.a[i], s2.a[i])
             /\ (exceptKinds \/ RefSameKind(s1.a[i], s2.a[i]))
             /\ (exceptDefaults \/ RefSameDefaultP(h.params[i], s1.a[i], s2.a[i]))
             /\ RefSameAnnotation(h.params[i], s1.a[i], s2.a[i])
       /\ RefSame(s1.a[n + 1], s2.a[n + 1])
RefSameSig(h, s1, s2) == RefSameSigModulo(h, s1, s2, FALSE, FALSE)
KindsDiffer(h, s1, s2) == \E i \in 1..Len(h.params) : ~RefSameKind(s1.a[i], s2.a[i])
DefaultsDiffer(h, s1, s2) == \E i \in 1..Len(h.params) : ~RefSameDefaultP(h.params[i], s1.a[i], s2.a[i])

\* Known deviation: the PEP 484 convention "a parameter named __x is positional-only" is applied to the
\* runtime signature only (arg_spec.py:480); compute_parameters keeps POSITIONAL_OR_KEYWORD.
DunderHeader(h) == \E i \in 1..Len(h.params) : h.params[i].kind = "POSITIONAL_OR_KEYWORD" /\ IsDunderName(h.params[i].name)
Dev_DunderPositionalOnly(h) == ~FixedDunder /\ DunderHeader(h)
\* Known deviation: a default written `...` is "unspecified" (Any[unannotated]) for the def route
\* (functions.py:214, a stub convention applied to ordinary code) and the Ellipsis object for the runtime route
Dev_EllipsisDefault(h) == \E i \in 1..Len(h.params) : h.params[i].dflt = "..."

(***************************************************************************)
(* Calls.  The third sentence of the property is observed on the real code *)
(* for the family Calls(h): npos positional arguments, a set of keyword     *)
(* names, and optionally a first argument of a wrong type.                 *)
(***************************************************************************)
KwUniverse(h) == {h.params[i].name : i \in {j \in 1..Len(h.params) : ~IsVar(h.params[j].kind)}} \cup {"zz"}
Calls(h) == {[npos |-> n, kws |-> k, bad |-> b] :
                n \in 0..MaxPos, k \in {s \in SUBSET KwUniverse(h) : Cardinality(s) <= MaxKw}, b \in BOOLEAN}
\* the parameters whose kind the runtime route changes: a call is affected iff it names one of them
DunderAffected(h) == {h.params[i].name : i \in {j \in 1..Len(h.params) :
                        h.params[j].kind = "POSITIONAL_OR_KEYWORD" /\ ImplRtKind(h, j) = "POSITIONAL_ONLY"}}
Dev_DunderCall(h, kws) == ~FixedDunder /\ kws \cap DunderAffected(h) # {}
\* ... and the parameters whose default differs matter to a call iff the call leaves one of them to its
\* default and a type variable is solved from that default
RECURSIVE HasNameIn(_, _)
HasNameIn(e, S) == (e.k = "name" /\ e.id \in S) \/ \E i \in 1..Len(e.args) : HasNameIn(e.args[i], S)
\* (a keyword naming a positional-only parameter does not supply it: it goes to **kwargs or is an error)
Supplied(h, npos, kws, i) ==
    \/ h.params[i].kind \in {"POSITIONAL_OR_KEYWORD", "KEYWORD_ONLY"} /\ h.params[i].name \in kws
    \/ Rank(h.params[i].kind) <= 2 /\ i <= npos
Dev_EllipsisCall(h, npos, kws) ==
    \E i \in 1..Len(h.params) :
        h.params[i].dflt = "..." /\ HasNameIn(h.params[i].ann, {"T", "TB", "TC"}) /\ ~Supplied(h, npos, kws, i)

(***************************************************************************)
(* Generator (variables of Annotations are reused: case = the header)      *)
(***************************************************************************)
BlankHeader == [params |-> << >>, ret |-> NoAnn, isasync |-> FALSE, future |-> FALSE]
HInit == stk = << >> /\ nodes = 0 /\ stage = "params" /\ case = BlankHeader

StripQuote(e) == IF e.k = "str" THEN e.args[1] ELSE e
IsUnpackTuple(e) == TopStar(e) \/ (StripQuote(e).k = "sub" /\ StripQuote(e).id = "Unpack" /\ StripQuote(e).args[1].k = "sub")
IsUnpackDict(e) == StripQuote(e).k = "sub" /\ StripQuote(e).id = "Unpack" /\ StripQuote(e).args[1].k = "name"
ParamOK(ps, p) ==
    LET n == Len(ps)
        r == Rank(p.kind)
    IN /\ (IsUnpackTuple(p.ann) => p.kind = "VAR_POSITIONAL") /\ (IsUnpackDict(p.ann) => p.kind = "VAR_KEYWORD")
       /\ (n > 0 => (Rank(ps[n].kind) <= r /\ ps[n].kind # "VAR_KEYWORD"))
       /\ (IsVar(p.kind) => (p.dflt = "none" /\ (n > 0 => ps[n].kind # p.kind)))
       \* a positional parameter without default may not follow one with a default
       /\ ((r <= 2 /\ p.dflt = "none") => \A i \in 1..n : ps[i].dflt = "none")

AddParam ==
    /\ stage = "params" /\ Len(case.params) < MaxParams
    /\ \E kind \in {Kinds[i] : i \in 1..5}, a \in AnnChoices, d \in DefaultChoices, du \in DunderChoices :
         LET n == Len(case.params) + 1
             name == CASE kind = "VAR_POSITIONAL" -> "args"
                       [] kind = "VAR_KEYWORD" -> "kw"
                       [] OTHER -> PosName(n, du)
             p == [name |-> name, kind |-> kind, ann |-> AnnExpr(a), dflt |-> d]
         IN /\ (du => kind \in {"POSITIONAL_OR_KEYWORD", "KEYWORD_ONLY"})
            /\ ParamOK(case.params, p)
            /\ case' = [case EXCEPT !.params = Append(@, p)]
    /\ UNCHANGED <<stk, nodes, stage>>

FinishHeader ==
    /\ stage = "params"
    /\ \E r \in RetChoices, a \in AsyncChoices, f \in FutureChoices :
         case' = [case EXCEPT !.ret = AnnExpr(r), !.isasync = a, !.future = f]
    /\ stage' = "done" /\ UNCHANGED <<stk, nodes>>

HNext == AddParam \/ FinishHeader

(***************************************************************************)
(* Invariants                                                              *)
(***************************************************************************)
HeaderViewsAgree ==
    stage = "done" => RefSameSigModulo(case, ImplSigDef(case), ImplSigRt(case),
                                       Dev_DunderPositionalOnly(case), Dev_EllipsisDefault(case))
HeaderViewsAgreeStrict == stage = "done" => RefSameSig(case, ImplSigDef(case), ImplSigRt(case))
\* sensitivity of the "up to representation" clause for non-literal defaults: demanding EQUAL defaults is violated
\* as soon as a default is written as a call or a lambda (and by nothing else outside the ellipsis class)
HeaderDefaultsEqual ==
    (stage = "done" /\ ~Dev_EllipsisDefault(case)) =>
        \A i \in 1..Len(case.params) : RefSameDefault(ImplSigDef(case).a[i], ImplSigRt(case).a[i])
\* both views report the names and default-presence CPython reports; kinds too, except where the PEP 484
\* convention for __names deliberately departs from it
ViewsMatchInspect ==
    stage = "done" =>
        \A i \in 1..Len(case.params) :
            LET d == ImplSigDef(case).a[i] r == ImplSigRt(case).a[i] py == RefInspect(case)[i]
            IN /\ d.n = py[1] /\ r.n = py[1]
               /\ (d.a[1].n = py[2] \/ (FixedDunder /\ DunderHeader(case)))
               /\ (r.a[1].n = py[2] \/ DunderHeader(case))
               /\ (d.a[2].t = "nodefault") = (py[3] = "nodefault")
               /\ (r.a[2].t = "nodefault") = (py[3] = "nodefault")
=============================================================================
