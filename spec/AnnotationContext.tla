-------------------------- MODULE AnnotationContext --------------------------
(***************************************************************************)
(* C13, evaluation context and sharing: the meaning of an annotation       *)
(* depends only on the declaration and on its own module -- not on which   *)
(* other declarations had their hints resolved before, by whom, nor on     *)
(* objects that typing happens to share between modules.                   *)
(*                                                                         *)
(* World.  Two modules "A" and "B".  Both define a class K (two different  *)
(* classes with the SAME name); only A defines a class Solo.  Each module  *)
(* declares  def f(x: <form>) -> None  where the form contains one         *)
(* reference to the name n (K or Solo) in one of the spellings of          *)
(* FormExpr; a module may start with `from __future__ import annotations`. *)
(* Some forms are module-level aliases (AL = ...; def f(x: AL)).           *)
(*                                                                         *)
(* Sharing (CPython model, validated against the real objects in every     *)
(* run).  typing memoises subscriptions, so `List["K"]` written in A and   *)
(* in B is ONE alias object holding ONE ForwardRef -- a "cell".  A cell is *)
(* either unevaluated or carries the class some module's namespace gave    *)
(* it: typing.get_type_hints evaluates an unevaluated cell in the globals  *)
(* of the function it was called on and REUSES an evaluated one (typing.py *)
(* ForwardRef._evaluate, `localns is globalns`).  With the memo cleared    *)
(* between all steps (shared = FALSE) every evaluation builds fresh        *)
(* objects and a cell lives only on its own module's function.             *)
(*                                                                         *)
(* History.  A sequence of at most MaxHist agent steps before pyanalyze    *)
(* looks at the declarations:  gthA / gthB = typing.get_type_hints on A.f  *)
(* / B.f;  pyzA / pyzB = pyanalyze's own routes on that module (signature  *)
(* from the function object and a visitor run).                            *)
(*                                                                         *)
(* Impl: where each route looks the referenced name up (the globals it was *)
(* handed, the visitor's scopes; never the value cached on the cell).      *)
(* Ref: Python's scoping rule -- a name in an annotation, quoted or not,   *)
(* means what it means in the namespace of the DECLARING module            *)
(* (language reference, "Annotations"; PEP 484 "Forward references").      *)
(***************************************************************************)
EXTENDS Annotations

CONSTANTS
    CtxForms,        \* forms used by the generator (subset of AllCtxForms)
    CtxRefNames,     \* referenced names: subset of {"K", "Solo"}
    CtxFuture,       \* subset of BOOLEAN: may a module be a PEP 563 module
    CtxShared,       \* subset of BOOLEAN: TRUE = typing's memo is live (the real situation), FALSE = cleared between all steps
    CtxAgents,       \* subset of {"gthA", "gthB", "pyzA", "pyzB"}
    MaxHist,
    CtxPairs,        \* "same": both modules use the same form and name; "related": ... or two forms whose
                     \* ForwardRef lives in the same memo entry; "all": every pair
    BugPreferCachedForward,  \* sensitivity switch: the ForwardRef branch trusts typing's cached __forward_value__
    BugFallbackAnyModule     \* sensitivity switch: a name the context does not define is taken from any module that defines it

VARIABLES hist, cells
ctxvars == <<stk, nodes, stage, case, hist, cells>>

Modules == {"A", "B"}
Other(m) == IF m = "A" THEN "B" ELSE "A"
CtxNames == {"K", "Solo"}
CtxDefined(m, n) == n = "K" \/ (n = "Solo" /\ m = "A")
CtxClass(m, n) == m \o "." \o n
CtxClassNames == {"A.K", "B.K", "A.Solo"}

(***************************************************************************)
(* Forms                                                                   *)
(***************************************************************************)
AliasForms == {"aFwd", "aList", "aListFwd"}
AllCtxForms == {"bare", "q", "List", "Optional", "list", "qList", "qListq", "Union", "UnionNone", "ListList",
                "DictStr", "Type", "TupleEll", "CallableArg"} \cup AliasForms

\* the annotation expression (for alias forms: the right-hand side of `AL = ...`, with ForwardRef("n") written
\* as the string it wraps)
FormExpr(f, n) ==
    CASE f = "bare"        -> Nm(n)
      [] f = "q"           -> Quote(Nm(n))
      [] f = "List"        -> Sub("List", <<Quote(Nm(n))>>)
      [] f = "Optional"    -> Sub("Optional", <<Quote(Nm(n))>>)
      [] f = "list"        -> Sub("list", <<Quote(Nm(n))>>)
      [] f = "qList"       -> Quote(Sub("List", <<Nm(n)>>))
      [] f = "qListq"      -> Quote(Sub("List", <<Quote(Nm(n))>>))
      [] f = "Union"       -> Sub("Union", <<Quote(Nm(n)), Nm("int")>>)
      [] f = "UnionNone"   -> Sub("Union", <<Quote(Nm(n)), Nm("None")>>)
      [] f = "ListList"    -> Sub("List", <<Sub("List", <<Quote(Nm(n))>>)>>)
      [] f = "DictStr"     -> Sub("Dict", <<Nm("str"), Quote(Nm(n))>>)
      [] f = "Type"        -> Sub("Type", <<Quote(Nm(n))>>)
      [] f = "TupleEll"    -> Sub("Tuple", <<Quote(Nm(n)), Ell>>)
      [] f = "CallableArg" -> Sub("Callable", <<PList(<<Quote(Nm(n))>>), Nm("None")>>)
      [] f = "aFwd"        -> Quote(Nm(n))                           \* AL = ForwardRef("n")
      [] f = "aList"       -> Sub("List", <<Quote(Nm(n))>>)          \* AL = List["n"]
      [] f = "aListFwd"    -> Sub("List", <<Quote(Nm(n))>>)          \* AL = List[ForwardRef("n")]

\* Which memoised subscription holds the form's ForwardRef ("none": the form has no ForwardRef object at all --
\* plain strings and builtin generics keep str arguments; "own": an explicitly created ForwardRef).
\* typing's memo is keyed by the subscript as written: List["K"] and List[ForwardRef("K")] are two entries,
\* Optional["K"] and Union["K", None] too; List[List["K"]] contains the entry of List["K"].
CellKey(f, n) ==
    CASE f \in {"List", "ListList", "aList", "qListq"} -> "List[" \o n \o "]"
      [] f = "aListFwd"    -> "List[FR(" \o n \o ")]"
      [] f = "Optional"    -> "Optional[" \o n \o "]"
      [] f = "UnionNone"   -> "Union[" \o n \o ",None]"
      [] f = "Union"       -> "Union[" \o n \o ",int]"
      [] f = "DictStr"     -> "Dict[str," \o n \o "]"
      [] f = "Type"        -> "Type[" \o n \o "]"
      [] f = "TupleEll"    -> "Tuple[" \o n \o ",...]"
      [] f = "CallableArg" -> "Callable[[" \o n \o "],None]"
      [] f = "aFwd"        -> "own"
      [] OTHER             -> "none"

\* the declaration of module m in world w
DeclOf(w, m) == IF m = "A" THEN w.a ELSE w.b        \* [f, n, fut]
Decl(f, n, fut) == [f |-> f, n |-> n, fut |-> fut]

\* Is there a ForwardRef on an object the module keeps (the function's __annotations__ or the alias)?
HasObjCell(d) == CellKey(d.f, d.n) # "none" /\ (d.f \in AliasForms \/ (~d.fut /\ d.f # "qListq"))
ObjCellId(w, m) ==
    LET d == DeclOf(w, m) k == CellKey(d.f, d.n)
    IN IF ~HasObjCell(d) THEN "nocell"
       ELSE IF k = "own" THEN "own@" \o m
       ELSE IF w.shared THEN k \o "@S" ELSE k \o "@" \o m
\* the cell reached by evaluating the annotation's source text NOW (what the visitor's expression evaluator and
\* get_type_hints on a string annotation do): the memo's entry, or a fresh unevaluated object
CacheCellId(w, m) ==
    LET d == DeclOf(w, m) k == CellKey(d.f, d.n)
    IN IF k \in {"none", "own"} \/ d.f \in AliasForms THEN "nocell"
       ELSE IF w.shared THEN k \o "@S" ELSE "fresh"
WorldCells(w) == ({ObjCellId(w, m) : m \in Modules} \cup {CacheCellId(w, m) : m \in Modules}) \ {"nocell", "fresh"}
EmptyCells(w) == [c \in WorldCells(w) |-> "none"]
CellVal(cs, id) == IF id \in {"nocell", "fresh"} THEN "none" ELSE cs[id]

(***************************************************************************)
(* CPython model: what the agents do to the cells                          *)
(***************************************************************************)
AgentModule(a) == IF a \in {"gthA", "pyzA"} THEN "A" ELSE "B"
IsGth(a) == a \in {"gthA", "gthB"}
\* typing.get_type_hints(m.f): the cell on the function's own object, or (string annotation) the memo's entry
GthCell(w, m) == IF HasObjCell(DeclOf(w, m)) THEN ObjCellId(w, m) ELSE CacheCellId(w, m)
\* Ref/CPython: an unevaluated cell is evaluated in f.__globals__ (NameError leaves it unevaluated); an
\* evaluated cell is reused.  pyanalyze's own routes never write to a ForwardRef.
StepCells(w, cs, a) ==
    LET m == AgentModule(a)
        c == GthCell(w, m)
    IN IF IsGth(a) /\ c \in DOMAIN cs /\ cs[c] = "none" /\ CtxDefined(m, DeclOf(w, m).n)
       THEN [cs EXCEPT ![c] = m] ELSE cs
RECURSIVE CellsAfter(_, _)
CellsAfter(w, h) == IF h = << >> THEN EmptyCells(w) ELSE StepCells(w, CellsAfter(w, SubSeq(h, 1, Len(h) - 1)), h[Len(h)])
\* what the driver can see of the cells afterwards
ObjCellState(w, m, cs) == IF ObjCellId(w, m) = "nocell" THEN "nocell" ELSE CellVal(cs, ObjCellId(w, m))
CacheCellState(w, m, cs) == IF CacheCellId(w, m) = "nocell" THEN "nocell" ELSE CellVal(cs, CacheCellId(w, m))

(***************************************************************************)
(* Impl: name lookup of the routes                                         *)
(***************************************************************************)
\* Context.get_name_from_globals (annotations.py:177) / _DefaultContext.get_name (:949): the globals handed to
\* the route; nothing found -> handle_undefined_name (:169): Any[inference] while a ForwardRef object is being
\* evaluated (suppress_undefined_names, :514), Any[error] otherwise.  The visitor's context resolves through
\* the visitor's scopes (name_check_visitor.py:1663 resolve_name), which yields Any[error] either way.
ImplLookup(m, n, fl) ==
    IF CtxDefined(m, n) THEN CtxClass(m, n)
    ELSE IF BugFallbackAnyModule /\ \E m2 \in Modules : CtxDefined(m2, n)
         THEN CtxClass(CHOOSE m2 \in Modules : CtxDefined(m2, n), n)
    ELSE "undefined:" \o fl

RECURSIVE CtxSubstExpr(_, _, _)
\* the expression inside a string, every context name replaced by what the lookup in module m finds
CtxSubstExpr(e, m, fl) ==
    IF e.k = "name" THEN (IF e.id \in CtxNames THEN Nm(ImplLookup(m, e.id, fl)) ELSE e)
    ELSE X(e.k, e.id, [i \in 1..Len(e.args) |-> CtxSubstExpr(e.args[i], m, fl)])

RECURSIVE CtxResolveOutside(_, _, _)
\* names outside strings are resolved when the module is executed (CPython) or by the visitor's scopes
CtxResolveOutside(e, m, fl) ==
    IF e.k = "name" THEN (IF e.id \in CtxNames THEN Nm(ImplLookup(m, e.id, fl)) ELSE e)
    ELSE IF e.k = "str" THEN e
    ELSE X(e.k, e.id, [i \in 1..Len(e.args) |-> CtxResolveOutside(e.args[i], m, fl)])

RECURSIVE CtxSubstObj(_, _, _, _, _)
\* a runtime object as the route reads it: names in ForwardRef objects (annotations.py:506-519) and in plain
\* strings (:406) looked up in module m; cv = the value typing cached on the object's ForwardRef ("none" if
\* unevaluated) -- the code under verification does not look at it
CtxSubstObj(r, m, cv, fwdfl, strfl) ==
    CASE r.k = "fwd" ->
            LET mm == IF BugPreferCachedForward /\ cv # "none" THEN cv ELSE m
            IN X("fwd", "", <<CtxSubstExpr(r.args[1], mm, fwdfl)>>)
      [] r.k = "strobj" -> X("strobj", "", <<CtxSubstExpr(r.args[1], m, strfl)>>)
      [] OTHER -> X(r.k, r.id, [i \in 1..Len(r.args) |-> CtxSubstObj(r.args[i], m, cv, fwdfl, strfl)])

\* the object the function (or the alias name) holds -- CPython resolved the names outside strings in m
DeclObj(w, m) ==
    LET d == DeclOf(w, m) e == FormExpr(d.f, d.n)
    IN IF d.f = "aFwd" THEN TConv(PyEval(e))
       ELSE IF d.f \in AliasForms \/ ~d.fut THEN PyEval(CtxResolveOutside(e, m, "error"))
       ELSE X("strobj", "", <<e>>)

\* rt: type_from_runtime(f.__annotations__["x"], globals=m.__dict__);  sig: Checker.get_signature(f)
\* (arg_spec.py:181 AnnotationsContext over f.__globals__) -- the same lookups
ImplCtxRt(w, m, cs) ==
    ImplRt(CtxSubstObj(DeclObj(w, m), m, CellVal(cs, ObjCellId(w, m)), "inference", "error"), FALSE)
ImplCtxSig(w, m, cs) == ImplCtxRt(w, m, cs)
\* str: type_from_runtime("<source of the annotation>", globals=m.__dict__); an alias name is looked up and
\* its object read like rt
ImplCtxStr(w, m, cs) ==
    LET d == DeclOf(w, m)
    IN IF d.f \in AliasForms THEN ImplCtxRt(w, m, cs)
       ELSE ImplFwd(CtxSubstExpr(FormExpr(d.f, d.n), m, "error"), FALSE)
\* ast: the visitor evaluates the expression (executing the subscripts: the memo's entry) and reads the object
\* with its own context
ImplCtxAst(w, m, cs) ==
    LET d == DeclOf(w, m)
        obj == IF d.f \in AliasForms THEN DeclObj(w, m)
               ELSE ImplVisitorEval(CtxResolveOutside(FormExpr(d.f, d.n), m, "error"))
        cv == IF d.f \in AliasForms THEN CellVal(cs, ObjCellId(w, m)) ELSE CellVal(cs, CacheCellId(w, m))
    IN Unite(<<ImplRt(CtxSubstObj(obj, m, cv, "error", "error"), FALSE)>>)

CtxRoutes == {"rt", "str", "sig", "ast"}
ImplCtx(w, m, r, cs) ==
    CASE r = "rt" -> ImplCtxRt(w, m, cs)
      [] r = "str" -> ImplCtxStr(w, m, cs)
      [] r = "sig" -> ImplCtxSig(w, m, cs)
      [] r = "ast" -> ImplCtxAst(w, m, cs)

(***************************************************************************)
(* Ref                                                                     *)
(***************************************************************************)
\* Python's scoping: the class the reference names in the declaring module ("undefined" if it names nothing)
RefResolve(m, n) == IF (n = "K") \/ (n = "Solo" /\ m = "A") THEN m \o "." \o n ELSE "undefined"

RECURSIVE CtxMentions(_)
\* the classes of the two-module world a value speaks about
CtxMentions(v) == (IF v.n \in CtxClassNames THEN {v.n} ELSE {}) \cup UNION {CtxMentions(v.a[i]) : i \in 1..Len(v.a)}

RECURSIVE CtxEraseAny(_)
CtxEraseAny(v) == IF v.t = "Any" THEN V("Any", "", << >>) ELSE V(v.t, v.n, [i \in 1..Len(v.a) |-> CtxEraseAny(v.a[i])])
\* "the same type": Annotations!RefSame; where the reference names nothing in the declaring module every
\* route must say "unknown" at that place, and how it says so (Any[error] / Any[inference]) is notation
RefCtxSame(v1, v2, defined) ==
    IF defined THEN RefSame(v1, v2) ELSE RefSame(CtxEraseAny(v1), CtxEraseAny(v2))
\* the declaration speaks about the declaring module's class and about no other class of the world
RefDeclaring(v, m, n) ==
    v.t # "Raised" /\ CtxMentions(v) = (IF RefResolve(m, n) = "undefined" THEN {} ELSE {RefResolve(m, n)})
\* a call from an importing module: an argument built from the declaring module's class is accepted; one built
\* from the other module's same-named class is rejected exactly if the reference names a class
RefCallOwnAccepted == TRUE
RefCallOtherRejected(m, n) == RefResolve(m, n) # "undefined"

(***************************************************************************)
(* Generator: world, then history, one component per step                  *)
(***************************************************************************)
DeclOK(d, m) == d.f = "bare" /\ ~d.fut => CtxDefined(m, d.n)      \* `def f(x: Solo)` in B does not even import
BlankWorld == [a |-> Decl("q", "K", FALSE), b |-> Decl("q", "K", FALSE), shared |-> TRUE]
CInit == stk = << >> /\ nodes = 0 /\ stage = "declA" /\ case = [w |-> BlankWorld, hist |-> << >>]
         /\ hist = << >> /\ cells = EmptyCells(BlankWorld)

ChooseA ==
    /\ stage = "declA"
    /\ \E f \in CtxForms, n \in CtxRefNames, fu \in CtxFuture :
         /\ DeclOK(Decl(f, n, fu), "A")
         /\ case' = [case EXCEPT !.w.a = Decl(f, n, fu)]
    /\ stage' = "declB" /\ UNCHANGED <<stk, nodes, hist, cells>>
ChooseB ==
    /\ stage = "declB"
    /\ \E f \in CtxForms, n \in CtxRefNames, fu \in CtxFuture :
         /\ DeclOK(Decl(f, n, fu), "B")
         /\ \/ CtxPairs = "all"
            \/ f = case.w.a.f /\ n = case.w.a.n
            \/ CtxPairs = "related" /\ CellKey(f, n) # "none" /\ CellKey(f, n) = CellKey(case.w.a.f, case.w.a.n)
         /\ case' = [case EXCEPT !.w.b = Decl(f, n, fu)]
    /\ stage' = "shared" /\ UNCHANGED <<stk, nodes, hist, cells>>
ChooseShared ==
    /\ stage = "shared"
    /\ \E s \in CtxShared : case' = [case EXCEPT !.w.shared = s] /\ cells' = EmptyCells(case'.w)
    /\ stage' = "hist" /\ UNCHANGED <<stk, nodes, hist>>
Resolve ==
    /\ stage = "hist" /\ Len(hist) < MaxHist
    /\ \E a \in CtxAgents :
         /\ hist' = Append(hist, a)
         /\ cells' = StepCells(case.w, cells, a)
         /\ case' = [case EXCEPT !.hist = Append(@, a)]
    /\ UNCHANGED <<stk, nodes, stage>>
Observe ==
    /\ stage = "hist"
    /\ stage' = "done" /\ UNCHANGED <<stk, nodes, case, hist, cells>>
CNext == ChooseA \/ ChooseB \/ ChooseShared \/ Resolve \/ Observe

(***************************************************************************)
(* Invariants (checked in every state after the world is chosen, i.e.      *)
(* after every prefix of every history)                                    *)
(***************************************************************************)
Live == stage \in {"hist", "done"}
Done == stage = "done"          \* every prefix of a history is itself a completed case, so "done" states cover all
CtxVals(w, m, cs) == [r \in CtxRoutes |-> ImplCtx(w, m, r, cs)]
CtxCanonOf(v, def) == IF v.t = "Raised" THEN {v} ELSE RefCanon(IF def THEN v ELSE CtxEraseAny(v))
CtxAllSame(w, m, vals) ==
    LET def == RefResolve(m, DeclOf(w, m).n) # "undefined"
    IN /\ \A r \in DOMAIN vals : vals[r].t # "Raised"
       /\ Cardinality({CtxCanonOf(vals[r], def) : r \in DOMAIN vals}) = 1
CtxAllDeclaring(w, m, vals) == \A r \in DOMAIN vals : RefDeclaring(vals[r], m, DeclOf(w, m).n)
CtxAllIndependent(w, m, vals, base) ==
    \A r \in DOMAIN vals : RefCtxSame(vals[r], base[r], RefResolve(m, DeclOf(w, m).n) # "undefined")
\* the routes agree with each other ...
CtxRoutesAgree == Done => \A m \in Modules : CtxAllSame(case.w, m, CtxVals(case.w, m, cells))
\* ... mean the declaring module's class ...
CtxDeclaringModule == Done => \A m \in Modules : CtxAllDeclaring(case.w, m, CtxVals(case.w, m, cells))
\* ... and mean the same as if nothing had been resolved before
CtxIndependent ==
    Done => \A m \in Modules : CtxAllIndependent(case.w, m, CtxVals(case.w, m, cells), CtxVals(case.w, m, EmptyCells(case.w)))
\* the incrementally maintained cells are the fold the trace specification uses
CellsConsistent == Live => (cells = CellsAfter(case.w, hist) /\ hist = case.hist)
\* vacuity: some history really leaves a cell carrying the OTHER module's class (the situation the property
\* is about); expected to be violated
NeverForeignCell == Live => \A m \in Modules : ObjCellState(case.w, m, cells) \in {"nocell", "none", m}
=============================================================================
