--------------------------- MODULE CallableRoutes ---------------------------
(***************************************************************************)
(* The ENTRY POINTS of callable compatibility (property C07): overrides,   *)
(* `Callable[[...], R]` parameters and protocol methods.  SigCompat.tla    *)
(* models Signature.can_assign itself; this module models the small        *)
(* machines that sit in front of it and decide WHICH signatures are        *)
(* compared, in which direction, how `self` is bound and what is skipped.  *)
(*                                                                         *)
(* A case is                                                               *)
(*   [route   "override" | "callable" | "protocol",                        *)
(*    shape, parents, cpar   the class hierarchy (override): parents[k] =  *)
(*            direct bases of base class Bk, cpar = direct bases of the    *)
(*            derived class C, in source order,                            *)
(*    name    the method name ("f", or a name of the documented ignore     *)
(*            list),                                                       *)
(*    ell     the expected type is Callable[..., R] (callable route),      *)
(*    bases   <<[def, selfk, sig, ret]>>  the EXPECTED side: base classes  *)
(*            B1..Bn (def = the class body defines the method), the one    *)
(*            Callable[[..], R] type, or the one protocol P,               *)
(*    child   [selfk, sig, ret]  the ACTUAL side: C.f, the function g      *)
(*            that is passed, or K.f]                                      *)
(* sig is the FULL parameter list as written in the `def` (SigCompat /     *)
(* CPythonBind vocabulary); selfk in {"po", "pk"} says that the first      *)
(* parameter is the receiver `self` (positional-only / ordinary), "none"   *)
(* that no parameter was written for it (the list may then start with      *)
(* *args, which absorbs the receiver, with an ordinary parameter, which    *)
(* receives it, or with a keyword-only parameter / **kwargs / nothing, in  *)
(* which case no call on an instance can bind).                            *)
(*                                                                         *)
(* Impl*: name_check_visitor.py:1513-1640 (_get_base_class_attributes,     *)
(* _check_for_incompatible_overrides, _can_assign_to_base,                 *)
(* _can_assign_to_base_callable), arg_spec.py:1078-1106 (iteration order   *)
(* of get_generic_bases), node_visitor.py:208 (one report per node and     *)
(* code), signature.py:1946-2000 (Signature.bind_self), value.py:751-756,  *)
(* :1763-1785 (UnboundMethodValue / CallableValue.can_assign),             *)
(* type_object.py:169-205 (_is_compatible_with_protocol); the comparison   *)
(* itself is SigCompat!ImplCompat.                                         *)
(* Ref*: written from the Python data model only.  For a method the        *)
(* receiver is the first positional argument of the call (reference 3.2    *)
(* "instance methods": x.f(1) is C.f(x, 1)), so "b.f(args, kwargs) binds" is    *)
(* RefBinds on the full parameter list with one more positional argument.  *)
(* Substitutability: wherever an instance of an ancestor B is expected an  *)
(* instance of C may be used, so every call that binds in B's own f must   *)
(* bind in C.f -- for EVERY ancestor that defines f, whatever the MRO.     *)
(***************************************************************************)
EXTENDS SigCompat

CONSTANTS
    Routes,        \* subset of {"override", "callable", "protocol"}
    Shapes,        \* hierarchies generated for the override route (names of HierTable)
    MethodNames,   \* method names generated for the override route ("f" is always checked)
    SelfKinds,     \* subset of {"pk", "po", "none"}
    BaseNaming,    \* "pos": expected parameters are named a, b, .. by position;
                   \* "set": those of the 2nd and 3rd base class range over ActNames
    RMutant,       \* "none" or a seeded model bug (sensitivity self-tests)
    FixedMemberWithoutSelf   \* TRUE = the tree with /repo commit a15c614 (value.py:1776-1779: a bound method whose
                   \* receiver cannot be bound is rejected); FALSE = the behaviour before it (sensitivity cfg)

(***************************************************************************)
(* Vocabulary                                                              *)
(***************************************************************************)
SelfName == "self"
SelfParam(k) == [kind |-> k, name |-> SelfName, dflt |-> FALSE, ty |-> AnyTy]

HierTable ==
    [single |-> [n |-> 1, parents |-> << <<>> >>, cpar |-> <<1>>],
     chain2 |-> [n |-> 2, parents |-> << <<>>, <<1>> >>, cpar |-> <<2>>],
     multi2 |-> [n |-> 2, parents |-> << <<>>, <<>> >>, cpar |-> <<1, 2>>],
     chain3 |-> [n |-> 3, parents |-> << <<>>, <<1>>, <<2>> >>, cpar |-> <<3>>],
     multi3 |-> [n |-> 3, parents |-> << <<>>, <<>>, <<>> >>, cpar |-> <<1, 2, 3>>],
     mixedL |-> [n |-> 3, parents |-> << <<>>, <<1>>, <<>> >>, cpar |-> <<2, 3>>],
     mixedR |-> [n |-> 3, parents |-> << <<>>, <<1>>, <<>> >>, cpar |-> <<3, 2>>]]

NonSelf(m) == Len(m.sig) - (IF m.selfk = "none" THEN 0 ELSE 1)
\* the parameter that receives the instance carries no annotation (an annotated receiver that the class is not
\* assignable to makes bind_self fail, signature.py:1976-1979: such a method is ill-typed by itself)
ReceiverUntyped(sig) == Len(sig) = 0 \/ sig[1].kind \notin {"po", "pk", "va"} \/ sig[1].ty = AnyTy

(***************************************************************************)
(* Impl: Signature.bind_self (signature.py:1946-2000)                      *)
(***************************************************************************)
Unbound == [ok |-> FALSE, sig |-> << >>]
ImplBindSelf(sig) ==
    IF Len(sig) = 0 THEN Unbound                                                  \* :1955 no parameters
    ELSE IF sig[1].kind = "va" THEN [ok |-> TRUE, sig |-> sig]                    \* :1958 *args keeps everything
    ELSE IF sig[1].kind \in {"po", "pk"} THEN [ok |-> TRUE, sig |-> Tail(sig)]    \* :1968 drop the first parameter
    ELSE Unbound                                                                  \* :1975 keyword-only / **kwargs first

PairFor(base, child, bsig, csig) == [exp |-> bsig, act |-> csig, exp_ret |-> base.ret, act_ret |-> child.ret]

(***************************************************************************)
(* Impl, override route.                                                   *)
(*   iteration order: get_generic_bases(current_class) is a dict filled    *)
(*   depth first, direct bases in source order (arg_spec.py:1091-1103);    *)
(*   the class itself is skipped (:1520).                                  *)
(***************************************************************************)
RECURSIVE Dfs(_, _)
Dfs(parents, todo) ==
    IF todo = << >> THEN << >>
    ELSE <<Head(todo)>> \o Dfs(parents, parents[Head(todo)]) \o Dfs(parents, Tail(todo))
ImplIterOrder(c) == Dfs(c.parents, c.cpar)

IgnoredNames == {"__init__", "__eq__", "__ne__"}       \* name_check_visitor.py:519 default of the option

\* the branch taken for base class i (name_check_visitor.py:1531, :1593-1640)
ImplOverrideBranch(c, i) ==
    LET base == c.bases[i]
        bb == ImplBindSelf(base.sig)
        cb == ImplBindSelf(c.child.sig)
    IN IF ~base.def THEN "Ovr_NoBaseAttr"                          \* :1531 UNINITIALIZED_VALUE: not yielded
       ELSE IF ~bb.ok THEN "Ovr_BaseUnbound"                       \* :1634 return {}
       ELSE IF ~cb.ok /\ RMutant # "child_unbound_ok" THEN "Ovr_ChildNoSelf"   \* :1637 error
       ELSE IF ImplCompat(PairFor(base, c.child, bb.sig, cb.sig)).verdict = "ok" THEN "Ovr_Compatible"
       ELSE "Ovr_Incompatible"                                     \* :1639 base_bound.can_assign(child_bound)

ImplOverrideWhy(c, i) ==
    LET b == ImplOverrideBranch(c, i)
    IN IF b = "Ovr_ChildNoSelf" THEN "ChildNoSelf"
       ELSE IF b = "Ovr_Incompatible"
            THEN ImplCompat(PairFor(c.bases[i], c.child, ImplBindSelf(c.bases[i].sig).sig, ImplBindSelf(c.child.sig).sig)).why
       ELSE ""

\* rs = [pos     index into the iteration order the loop is at,
\*       report  the base class named in the diagnostic (0 = no diagnostic): the first incompatible one,
\*               later ones are dropped as duplicates of (node, code) (node_visitor.py:208),
\*       why, fin]
RouteStart == [pos |-> 1, report |-> 0, why |-> "", fin |-> FALSE]

ImplOverrideStep(c, r) ==
    LET order == ImplIterOrder(c)
    IN IF r.pos = 1 /\ c.name \in IgnoredNames THEN [r EXCEPT !.fin = TRUE, !.why = "Ignored"]      \* :1540
       ELSE IF r.pos > Len(order) THEN [r EXCEPT !.fin = TRUE]
       ELSE LET i == order[r.pos]
                b == ImplOverrideBranch(c, i)
                bad == b \in {"Ovr_ChildNoSelf", "Ovr_Incompatible"}
                r1 == IF bad /\ r.report = 0 THEN [r EXCEPT !.report = i, !.why = ImplOverrideWhy(c, i)] ELSE r
            IN IF RMutant = "first_base_only" /\ b # "Ovr_NoBaseAttr"
               THEN [r1 EXCEPT !.pos = Len(order) + 1]            \* seeded model bug: stop after the nearest definition
               ELSE [r1 EXCEPT !.pos = @ + 1]

(***************************************************************************)
(* Impl, `Callable[[T1, ..], R]` parameter (annotations -> CallableValue   *)
(* with positional-only parameters; value.py:1763 -> Signature.can_assign).*)
(* `Callable[..., R]`: the ELLIPSIS parameter sets consumed_paramspec      *)
(* (signature.py:1693), only the return annotations are compared.          *)
(***************************************************************************)
ImplCallable(c) ==
    LET p == PairFor(c.bases[1], c.child, c.bases[1].sig, c.child.sig)
    IN IF c.ell
       THEN (IF ImplReturnOK(p) THEN [verdict |-> "ok", why |-> "Ellipsis"] ELSE [verdict |-> "err", why |-> "Return_Type"])
       ELSE LET m == ImplCompat(p) IN [verdict |-> m.verdict, why |-> m.why]

(***************************************************************************)
(* Impl, protocol member (type_object.py:173-203): the expected member is  *)
(* P.f bound to P (value.py:751-756: no signature => {}), the actual one   *)
(* K.f bound to K (value.py:1769-1787).  When K.f cannot be bound          *)
(* get_signature returns None and CallableValue.can_assign returns the     *)
(* error "is missing a 'self' argument" (:1776-1779, commit a15c614).      *)
(* Before that commit the isinstance test :1780 failed and the value fell  *)
(* through to TypedValue.can_assign, which accepts any method object       *)
(* (finding protocol-member-without-self, fixed); the old behaviour is     *)
(* kept behind FixedMemberWithoutSelf = FALSE for the sensitivity cfg.     *)
(* On the Callable route of this module the argument is a plain function   *)
(* (no BoundMethodSignature), so the new branch cannot be reached there.   *)
(***************************************************************************)
ImplProtocol(c) ==
    LET bb == ImplBindSelf(c.bases[1].sig)
        cb == ImplBindSelf(c.child.sig)
    IN IF ~bb.ok THEN [verdict |-> "ok", why |-> "ExpectedUnbound"]
       ELSE IF ~cb.ok THEN (IF FixedMemberWithoutSelf THEN [verdict |-> "err", why |-> "ChildNoSelf"]      \* :1776
                            ELSE [verdict |-> "ok", why |-> "ActualUnbound"])
       ELSE LET m == ImplCompat(PairFor(c.bases[1], c.child, bb.sig, cb.sig)) IN [verdict |-> m.verdict, why |-> m.why]

ImplRouteStep(c, r) ==
    IF c.route = "override" THEN ImplOverrideStep(c, r)
    ELSE LET m == IF c.route = "callable" THEN ImplCallable(c) ELSE ImplProtocol(c)
         IN [r EXCEPT !.fin = TRUE, !.report = IF m.verdict = "ok" THEN 0 ELSE 1, !.why = m.why]

RECURSIVE ImplRouteRun(_, _)
ImplRouteRun(c, r) == IF r.fin THEN r ELSE ImplRouteRun(c, ImplRouteStep(c, r))
ImplRoute(c) == ImplRouteRun(c, RouteStart)

(***************************************************************************)
(* Ref: behavioural inclusion at the entry points                          *)
(***************************************************************************)
RouteNames(c) ==
    UNION {{c.bases[i].sig[j].name : j \in DOMAIN c.bases[i].sig} : i \in DOMAIN c.bases}
        \cup {c.child.sig[j].name : j \in DOMAIN c.child.sig} \cup {Extra}

\* the calls a client can write: x.f(a1, .., an, k1=.., ..) passes the receiver plus n positionals (methods),
\* g(a1, .., an, k1=..) passes n positionals (plain callables)
IsMethodRoute(c) == c.route \in {"override", "protocol"}
RouteShapes(c, maxpos, maxkw) ==
    LET recv == IF IsMethodRoute(c) THEN 1 ELSE 0
    IN {[npos |-> n + recv, kws |-> K, dup |-> FALSE] :
          n \in 0..maxpos, K \in {S \in SUBSET RouteNames(c) : Cardinality(S) <= maxkw}}

\* the ancestors of the derived class (reflexive-transitive closure of "direct base")
RECURSIVE Reach(_, _)
Reach(parents, todo) ==
    IF todo = << >> THEN {} ELSE {Head(todo)} \cup Reach(parents, parents[Head(todo)]) \cup Reach(parents, Tail(todo))
RefAncestors(c) == Reach(c.parents, c.cpar)

\* the expected side the property quantifies over
RefExpected(c) == IF c.route = "override" THEN {i \in RefAncestors(c) : c.bases[i].def} ELSE {1}
FullPair(c, i) == PairFor(c.bases[i], c.child, c.bases[i].sig, c.child.sig)

\* (the operators ...On take the set of call shapes as an argument so that it is built once per case)
RefIncludedOn(c, i, sh) == \A cc \in sh : RefBinds(c.bases[i].sig, cc) => RefBinds(c.child.sig, cc)
RefIncludedAt(c, i, maxpos, maxkw) == RefIncludedOn(c, i, RouteShapes(c, maxpos, maxkw))

\* contravariance: every argument the client chooses (not the receiver) lands in a parameter of the actual
\* function whose declared type contains what the expected one promised; covariance of the result
RefContravariantOn(c, i, sh) ==
    LET exp == c.bases[i].sig
        act == c.child.sig
        first == IF IsMethodRoute(c) THEN 2 ELSE 1
    IN \A cc \in sh :
          (RefBinds(exp, cc) /\ RefBinds(act, cc)) =>
              /\ \A n \in first..cc.npos :
                   TypeContains(act[RefPositionalTarget(act, n)].ty, exp[RefPositionalTarget(exp, n)].ty)
              /\ \A k \in cc.kws :
                   TypeContains(act[RefKeywordTarget(act, k)].ty, exp[RefKeywordTarget(exp, k)].ty)
\* the result of every call the expected signature admits (if it admits none there is no result to speak of)
RefCovariantOn(c, i, sh) ==
    (\E cc \in sh : RefBinds(c.bases[i].sig, cc)) => TypeContains(c.bases[i].ret, c.child.ret)

\* Callable[..., R] is the gradual callable type: it promises nothing about the arguments
RefGradual(c) == c.route = "callable" /\ c.ell
\* a name of the documented option `ignored_for_incompatible_overrides` is outside the property
RefExempt(c) == c.route = "override" /\ c.name \in IgnoredNames

RefBehaviourOn(c, i, sh) == RefGradual(c) \/ RefIncludedOn(c, i, sh)
RefTypesOn(c, i, sh) ==
    /\ RefCovariantOn(c, i, sh)
    /\ RefGradual(c) \/ RefContravariantOn(c, i, sh)
RefBehaviourAt(c, i, maxpos, maxkw) == RefBehaviourOn(c, i, RouteShapes(c, maxpos, maxkw))
RefTypesAt(c, i, maxpos, maxkw) == RefTypesOn(c, i, RouteShapes(c, maxpos, maxkw))

(***************************************************************************)
(* Known deviations.                                                       *)
(*  - keyword-also-positional: the class of SigCompat.tla, evaluated on    *)
(*    the full parameter lists (the receiver counts as a positional: a     *)
(*    method call always has npos >= 1, and the predicate needs npos >= j  *)
(*    >= 1, so shapes without receiver never witness it).                  *)
(*  (protocol-member-without-self -- K.f has no parameter that can receive  *)
(*  the instance, P.f has -- was a second class here; it is repaired in    *)
(*  /repo a15c614 and now REQUIRED: such an acceptance is a violation.)    *)
(***************************************************************************)
Dev_KAPAt(c, i, maxpos, maxkw) ==
    Dev_KeywordAlsoPositional(FullPair(c, i), maxpos + (IF IsMethodRoute(c) THEN 1 ELSE 0), maxkw)

\* what the implementation model says about ONE expected signature (used to make the excuse exact: a
\* deviation class excuses an unsound acceptance only where the model of the deviating code accepts too)
ImplAcceptsAt(c, i) ==
    CASE c.route = "override" -> ImplOverrideBranch(c, i) \in {"Ovr_BaseUnbound", "Ovr_Compatible"}
      [] c.route = "callable" -> ImplCallable(c).verdict = "ok"
      [] c.route = "protocol" -> ImplProtocol(c).verdict = "ok"

(***************************************************************************)
(* The machine: a staged generator, then the entry point's loop            *)
(***************************************************************************)
VARIABLE rs
rvars == <<case, stage, s, br, rs>>

BlankCase == [route |-> "", shape |-> "", parents |-> << >>, cpar |-> << >>, name |-> "f", ell |-> FALSE,
              bases |-> << >>, child |-> [selfk |-> "none", sig |-> << >>, ret |-> AnyTy]]
RInit == case = BlankCase /\ stage = "start" /\ s = CompatStart /\ br = "" /\ rs = RouteStart

NBases(c) == IF c.route = "override" THEN HierTable[c.shape].n ELSE 1
KeepSC == UNCHANGED <<s, br>>

ChooseRoute ==
    /\ stage = "start"
    /\ \/ /\ "override" \in Routes
          /\ \E sh \in Shapes, nm \in MethodNames :
               /\ (nm # "f" => sh = "single")           \* the ignore list is one test before the loop: one hierarchy is enough
               /\ case' = [case EXCEPT !.route = "override", !.shape = sh, !.name = nm,
                                       !.parents = HierTable[sh].parents, !.cpar = HierTable[sh].cpar]
       \/ /\ "callable" \in Routes
          /\ \E e \in BOOLEAN : case' = [case EXCEPT !.route = "callable", !.shape = "callable", !.ell = e]
       \/ /\ "protocol" \in Routes
          /\ case' = [case EXCEPT !.route = "protocol", !.shape = "protocol"]
    /\ stage' = "newbase" /\ KeepSC /\ UNCHANGED rs

SelfKindsFor(c) == IF c.route = "callable" THEN {"none"} ELSE SelfKinds
StartSig(k) == IF k = "none" THEN << >> ELSE <<SelfParam(k)>>

NewBase ==
    /\ stage = "newbase"
    /\ \/ \E k \in SelfKindsFor(case) :
            /\ case' = [case EXCEPT !.bases = Append(@, [def |-> TRUE, selfk |-> k, sig |-> StartSig(k), ret |-> AnyTy])]
            /\ stage' = "base"
       \/ /\ case.route = "override" /\ NBases(case) > 1       \* a class that inherits f without defining it
          /\ case' = [case EXCEPT !.bases = Append(@, [def |-> FALSE, selfk |-> "none", sig |-> << >>, ret |-> AnyTy])]
          /\ stage' = IF Len(case.bases) + 1 = NBases(case) THEN "newchild" ELSE "newbase"
    /\ KeepSC /\ UNCHANGED rs

BaseParamNames(c, m) ==
    IF BaseNaming = "set" /\ Len(c.bases) > 1 THEN ActNames ELSE {Names[NonSelf(m) + 1]}

AddBaseParam ==
    /\ stage = "base"
    /\ LET k == Len(case.bases)
           m == case.bases[k]
       IN /\ NonSelf(m) < MaxExpected /\ ~case.ell
          /\ \E kd \in ParamKinds, d \in BOOLEAN, nm \in BaseParamNames(case, m), t \in TypeRanks :
               LET sig2 == Append(m.sig, [kind |-> kd, name |-> nm, dflt |-> d, ty |-> t])
               IN /\ ValidSig(sig2)
                  /\ (case.route = "callable" => kd = "po" /\ ~d)      \* Callable[[T1, ..], R]
                  /\ (IsMethodRoute(case) => ReceiverUntyped(sig2))
                  /\ case' = [case EXCEPT !.bases[k].sig = sig2]
    /\ UNCHANGED stage /\ KeepSC /\ UNCHANGED rs

EndBase ==
    /\ stage = "base"
    /\ \E r \in RetRanks : case' = [case EXCEPT !.bases[Len(case.bases)].ret = r]
    /\ stage' = IF Len(case.bases) = NBases(case) THEN "newchild" ELSE "newbase"
    /\ KeepSC /\ UNCHANGED rs

NewChild ==
    /\ stage = "newchild"
    /\ \E k \in SelfKindsFor(case) : case' = [case EXCEPT !.child = [selfk |-> k, sig |-> StartSig(k), ret |-> AnyTy]]
    /\ stage' = "child" /\ KeepSC /\ UNCHANGED rs

AddChildParam ==
    /\ stage = "child" /\ NonSelf(case.child) < MaxActual
    /\ \E kd \in ParamKinds, d \in BOOLEAN, nm \in ActNames, t \in TypeRanks :
         LET sig2 == Append(case.child.sig, [kind |-> kd, name |-> nm, dflt |-> d, ty |-> t])
         IN /\ ValidSig(sig2) /\ (IsMethodRoute(case) => ReceiverUntyped(sig2))
            /\ case' = [case EXCEPT !.child.sig = sig2]
    /\ UNCHANGED stage /\ KeepSC /\ UNCHANGED rs

EndChild ==
    /\ stage = "child"
    /\ \E r \in RetRanks : case' = [case EXCEPT !.child.ret = r]
    /\ stage' = "check" /\ KeepSC /\ UNCHANGED rs

\* ---- the entry point's loop, one action per branch
RStep == /\ rs' = ImplRouteStep(case, rs)
         /\ stage' = IF rs'.fin THEN "done" ELSE "check"
         /\ UNCHANGED case /\ KeepSC
AtBase(b) ==
    /\ stage = "check" /\ case.route = "override" /\ ~(rs.pos = 1 /\ case.name \in IgnoredNames)
    /\ rs.pos <= Len(ImplIterOrder(case))
    /\ ImplOverrideBranch(case, ImplIterOrder(case)[rs.pos]) = b
    /\ RStep
Ovr_Ignored == stage = "check" /\ case.route = "override" /\ rs.pos = 1 /\ case.name \in IgnoredNames /\ RStep
Ovr_NoBaseAttr == stage = "check" /\ AtBase("Ovr_NoBaseAttr")
Ovr_BaseUnbound == stage = "check" /\ AtBase("Ovr_BaseUnbound")
Ovr_ChildNoSelf == stage = "check" /\ AtBase("Ovr_ChildNoSelf")
Ovr_Compatible == stage = "check" /\ AtBase("Ovr_Compatible")
Ovr_Incompatible == stage = "check" /\ AtBase("Ovr_Incompatible")
Ovr_Exhausted ==
    /\ stage = "check" /\ case.route = "override" /\ ~(rs.pos = 1 /\ case.name \in IgnoredNames)
    /\ rs.pos > Len(ImplIterOrder(case)) /\ RStep
Cbl_Ellipsis == stage = "check" /\ case.route = "callable" /\ case.ell /\ RStep
Cbl_Signature == stage = "check" /\ case.route = "callable" /\ ~case.ell /\ RStep
Pro_ExpectedUnbound == stage = "check" /\ case.route = "protocol" /\ ~ImplBindSelf(case.bases[1].sig).ok /\ RStep
Pro_ActualUnbound ==
    /\ stage = "check" /\ case.route = "protocol"
    /\ ImplBindSelf(case.bases[1].sig).ok /\ ~ImplBindSelf(case.child.sig).ok /\ RStep
Pro_Signature ==
    /\ stage = "check" /\ case.route = "protocol"
    /\ ImplBindSelf(case.bases[1].sig).ok /\ ImplBindSelf(case.child.sig).ok /\ RStep

RNext ==
    \/ ChooseRoute \/ NewBase \/ AddBaseParam \/ EndBase \/ NewChild \/ AddChildParam \/ EndChild
    \/ Ovr_Ignored \/ Ovr_NoBaseAttr \/ Ovr_BaseUnbound \/ Ovr_ChildNoSelf \/ Ovr_Compatible \/ Ovr_Incompatible
    \/ Ovr_Exhausted \/ Cbl_Ellipsis \/ Cbl_Signature \/ Pro_ExpectedUnbound \/ Pro_ActualUnbound \/ Pro_Signature

(***************************************************************************)
(* Properties                                                              *)
(***************************************************************************)
AcceptedR == stage = "done" /\ rs.report = 0 /\ ~RefExempt(case)

\* no diagnostic => every call an ancestor / the Callable type / the protocol lets a client write binds
BehaviourOnOrDev(c, i, sh) ==
    \/ RefBehaviourOn(c, i, sh)
    \/ Dev_KAPAt(c, i, MaxCallPos, MaxCallKw)
CaseShapes == RouteShapes(case, MaxCallPos, MaxCallKw)
RouteSound(r) ==
    (AcceptedR /\ case.route = r) => LET sh == CaseShapes IN \A i \in RefExpected(case) : BehaviourOnOrDev(case, i, sh)
RouteSoundStrict(r) ==
    (AcceptedR /\ case.route = r) => LET sh == CaseShapes IN \A i \in RefExpected(case) : RefBehaviourOn(case, i, sh)

OverrideSound == RouteSound("override")
CallableParamSound == RouteSound("callable")
ProtocolSound == RouteSound("protocol")
OverrideSoundStrict == RouteSoundStrict("override")
ProtocolSoundStrict == RouteSoundStrict("protocol")

RouteTypesSound ==
    AcceptedR => LET sh == CaseShapes IN \A i \in RefExpected(case) : RefTypesOn(case, i, sh)

\* the deviation predicate is tight: inside the class an accepted case really is unsound
RouteDevTight ==
    AcceptedR => LET sh == CaseShapes IN \A i \in RefExpected(case) :
        (Dev_KAPAt(case, i, MaxCallPos, MaxCallKw) /\ ImplAcceptsAt(case, i) /\ ~RefGradual(case))
              => ~RefIncludedOn(case, i, sh)

\* the staged machine and the fold used by the trace specification are the same function
RouteMachineIsFold == stage = "done" => rs = ImplRoute(case)

\* the loop visits every ancestor exactly once (the iteration order is a permutation of the ancestors)
IterationCoversAncestors ==
    stage = "done" /\ case.route = "override" =>
        /\ ToSet(ImplIterOrder(case)) = RefAncestors(case)
        /\ Len(ImplIterOrder(case)) = Cardinality(RefAncestors(case))
=============================================================================
