------------------------------- MODULE MiniPy -------------------------------
(***************************************************************************)
(* Property C01: inferred values are sound with respect to execution.      *)
(*                                                                         *)
(* This module is (i) the generator of checked programs: an annotated      *)
(* function  def f(x: TX, y: TY)  whose body is built by a stack machine   *)
(* from catalogues of expressions, tests and patterns (opaque tokens that  *)
(* harness/drivers/c01.py renders to Python), together with the argument   *)
(* tuples drawn from the declared parameter types (Members(TX) x           *)
(* Members(TY), computed with the Member relation of Values.tla); and      *)
(* (ii) the acceptance condition for recorded executions: at every         *)
(* evaluated node the runtime value must be a member of the type pyanalyze *)
(* inferred for that node (Sound), and a node inferred as Never must not   *)
(* be evaluated.  The runtime values come from instrumented execution of   *)
(* the same source under CPython; the abstract machine of the visitor is   *)
(* modelled component-wise in Scopes.tla (C09), Narrowing (C02),           *)
(* ValueAlgebra.tla (C14), Assign.tla (C03/C04) and the call specs.        *)
(***************************************************************************)
EXTENDS Values

\* extra runtime objects used as arguments
T3 == Cont("tuple", <<I1, SA, F15>>)
T2F == Cont("tuple", <<I1, F15>>)
LI == Cont("list", <<I1, I0>>)
ExtraObjs == {T3, T2F, LI, Obj("int", "2"), Obj("str", "ab")}
ArgObjs == Objects \cup ExtraObjs

\* declared parameter types
ParamTypes ==
    {Typed("int"), Typed("str"), Typed("float"), Typed("object"), Typed("A"), Typed("Color"),
     Union(<<Typed("int"), Known(NONE)>>), Union(<<Typed("int"), Typed("str")>>), Union(<<Typed("str"), Known(NONE)>>),
     Union(<<Known(I1), Known(Obj("int", "2"))>>), Union(<<Typed("int"), Generic("list", <<Typed("int")>>)>>),
     Generic("list", <<Typed("int")>>), Generic("list", <<Typed("str")>>), Generic("tuple", <<Typed("int")>>),
     SeqT("tuple", <<One(Typed("int")), One(Typed("str"))>>),
     SeqT("tuple", <<One(Typed("int")), Many(Typed("str")), One(Typed("float"))>>),
     Generic("dict", <<Typed("str"), Typed("int")>>), Generic("Sequence", <<Typed("int")>>),
     Union(<<SeqT("tuple", <<One(Typed("int")), One(Typed("str"))>>), Known(NONE)>>)}

Exprs == {"x", "y", "v", "1", "'a'", "None", "(x, y)", "[x]", "{'k': x}", "x[0]", "x[-1]", "x[1]", "x[-2]", "v[0]", "len(x)",
          "ident(x)", "first(x)", "pair(x, y)", "maybe(x)", "tolist(x)", "x + 1", "x + y", "(x if y else v)", "x['a']",
          "(x or y)", "(x and y)", "(not x)", "(x == y)", "(*x, y)", "x.value", "x[0:1]", "-x", "(x, *y)", "str(x)"}
Tests == {"isinstance(x, int)", "isinstance(x, str)", "isinstance(x, tuple)", "isinstance(x, float)", "isinstance(x, (int, str))",
          "isinstance(x, bool)", "isinstance(x, list)", "x is None", "x is not None", "x == 1", "x != 1", "x in (1, 2)",
          "len(x) == 2", "x", "not x", "x and y", "isinstance(x, int) or x is None", "isinstance(x, int) and x", "y is None",
          "x == 'a'", "x is Color.RED", "callable(x)"}
Patterns == {"int()", "str()", "(a, b)", "[a, *rest]", "None", "1 | 2", "{'a': a}", "_", "(int(), str())", "Color.RED",
             "[a, b, c]", "float() | bool()", "a"}

CONSTANTS MaxStmts, MaxDepth

VARIABLES stack, n, tx, ty, done
mvars == <<stack, n, tx, ty, done>>

Frame(kind, hdr, shape) == [kind |-> kind, hdr |-> hdr, shape |-> shape, parts |-> << >>, cur |-> << >>]
Root == Frame("root", "", <<"body">>)

MInit == stack = <<Root>> /\ n = 0 /\ tx = Typed("int") /\ ty = Typed("int") /\ done = "types"

ChooseTypes == done = "types" /\ \E a \in ParamTypes, b \in ParamTypes : tx' = a /\ ty' = b /\ done' = "gen" /\ UNCHANGED <<stack, n>>

Top == stack[Len(stack)]
Push(s) == stack' = [stack EXCEPT ![Len(stack)].cur = Append(@, s)]
AfterJump == Top.cur # << >> /\ Top.cur[Len(Top.cur)].k = "return"

AddSimple ==
    /\ done = "gen" /\ n < MaxStmts /\ ~AfterJump
    /\ \E e \in Exprs :
         \E s \in {[k |-> "assign", t |-> "v", e |-> e], [k |-> "assign", t |-> "x", e |-> e], [k |-> "expr", e |-> e],
                   [k |-> "return", e |-> e]} : Push(s)
    /\ n' = n + 1 /\ UNCHANGED <<tx, ty, done>>

Open ==
    /\ done = "gen" /\ n + 1 < MaxStmts /\ Len(stack) <= MaxDepth /\ ~AfterJump
    /\ \/ \E t \in Tests : \E shape \in {<<"body">>, <<"body", "orelse">>} : stack' = Append(stack, Frame("if", t, shape))
       \/ \E t \in Tests : stack' = Append(stack, Frame("while", t, <<"body">>))
       \/ \E e \in {"x", "y", "(x, y)", "(1, 'a')", "v", "x[0:1]"} : stack' = Append(stack, Frame("for", e, <<"body">>))
       \/ \E shape \in {<<"body", "handler">>, <<"body", "handler", "final">>} : stack' = Append(stack, Frame("try", "", shape))
       \/ \E p1 \in Patterns, p2 \in Patterns : p1 # p2 /\ stack' = Append(stack, Frame("match", <<p1, p2>>, <<"case", "case">>))
    /\ n' = n + 1 /\ UNCHANGED <<tx, ty, done>>

NextPart ==
    /\ done = "gen" /\ Len(stack) > 1 /\ Len(Top.parts) + 1 < Len(Top.shape) /\ Top.cur # << >>
    /\ stack' = [stack EXCEPT ![Len(stack)] = [@ EXCEPT !.parts = Append(@, Top.cur), !.cur = << >>]]
    /\ UNCHANGED <<n, tx, ty, done>>

Close ==
    /\ done = "gen" /\ Len(stack) > 1 /\ Len(Top.parts) + 1 = Len(Top.shape) /\ Top.cur # << >>
    /\ LET st == [k |-> Top.kind, hdr |-> Top.hdr, shape |-> Top.shape, parts |-> Append(Top.parts, Top.cur)]
           below == SubSeq(stack, 1, Len(stack) - 1)
       IN stack' = [below EXCEPT ![Len(below)].cur = Append(@, st)]
    /\ UNCHANGED <<n, tx, ty, done>>

Finish == done = "gen" /\ Len(stack) = 1 /\ Top.cur # << >> /\ done' = "done" /\ UNCHANGED <<stack, n, tx, ty>>

MNext == ChooseTypes \/ AddSimple \/ Open \/ NextPart \/ Close \/ Finish

Prog == stack[1].cur
RECURSIVE SetToSeq(_)
SetToSeq(S) == IF S = {} THEN << >> ELSE LET x == CHOOSE y \in S : TRUE IN <<x>> \o SetToSeq(S \ {x})
\* Arguments are drawn from the declared type; bool objects are only passed where bool is declared: True == 1 and
\* False == 0 compare equal across types, and narrowing by == / in / literal patterns is only claimed for objects
\* whose equality with the tested literals implies equal type (the same restriction as in property C02).
ArgsFor(T) == SetToSeq({o \in ArgObjs : Member(o, T) /\ (o.c = "bool" => T = Typed("bool"))})

\* the declared types are inhabited (otherwise no execution would be observed)
Inhabited == done = "done" => (ArgsFor(tx) # << >> /\ ArgsFor(ty) # << >>)

(***************************************************************************)
(* Acceptance of a recorded execution                                      *)
(***************************************************************************)
\* ---- known deviations of the implementation that surface in executions (see known_findings.jsonl, C01) ----
RECURSIVE UsesTest(_, _), UsesExpr(_, _), HasGrowthLoop(_, _)
SubBlocks(st) == IF st.k \in {"if", "while", "for", "try", "match"} THEN st.parts ELSE << >>
UsesTest(block, S) ==
    \E i \in 1..Len(block) :
        \/ block[i].k \in {"if", "while"} /\ block[i].hdr \in S
        \/ \E j \in 1..Len(SubBlocks(block[i])) : UsesTest(SubBlocks(block[i])[j], S)
UsesExpr(block, S) ==
    \E i \in 1..Len(block) :
        \/ block[i].k \in {"assign", "expr", "return"} /\ block[i].e \in S
        \/ \E j \in 1..Len(SubBlocks(block[i])) : UsesExpr(SubBlocks(block[i])[j], S)
GrowthExprs == {"(x, y)", "[x]", "{'k': x}", "pair(x, y)", "maybe(x)", "tolist(x)", "(*x, y)", "(x, *y)", "x + y", "x + 1",
                "str(x)", "x[0:1]", "(x or y)", "(x and y)", "(x if y else v)"}
HasGrowthLoop(block, inloop) ==
    \E i \in 1..Len(block) :
        \/ inloop /\ block[i].k = "assign" /\ block[i].t = "x" /\ block[i].e \in GrowthExprs
        \/ \E j \in 1..Len(SubBlocks(block[i])) :
              HasGrowthLoop(SubBlocks(block[i])[j], inloop \/ block[i].k \in {"while", "for"})
NumericIsinstance == {"isinstance(x, int)", "isinstance(x, float)", "isinstance(x, (int, str))", "isinstance(x, bool)",
                      "isinstance(x, int) or x is None", "isinstance(x, int) and x"}
RECURSIVE HasManyT(_)
HasManyT(T) ==
    CASE T.k = "seq" -> \E i \in 1..Len(T.ms) : T.ms[i].many \/ HasManyT(T.ms[i].t)
      [] T.k = "generic" -> \E i \in 1..Len(T.args) : HasManyT(T.args[i])
      [] T.k = "union" -> \E i \in 1..Len(T.ms) : HasManyT(T.ms[i])
      [] OTHER -> FALSE

\* (a) isinstance against int/float/bool forgets the int -> float -> complex promotion (same defect as C02's
\*     numeric-promotion-lost-by-isinstance): a branch is typed Never / too narrowly although promoted values reach it
Dev_NumericIsinstance(c) == UsesTest(c.prog, NumericIsinstance)
\* (b) a loop body is analysed twice, not to a fixpoint: a variable that grows in every iteration (x = [x]) is inferred
\*     two levels deep only
Dev_LoopGrowth(c) == HasGrowthLoop(c.prog, FALSE)
\* (c) tuple.__add__ with an operand that has an unpacked segment returns the united element type of one side only
Dev_TupleAddUnpacked(c) == UsesExpr(c.prog, {"x + y"}) /\ (HasManyT(c.tx) \/ HasManyT(c.ty))
DevClass(c) ==
    IF Dev_NumericIsinstance(c) THEN "numeric-promotion-lost-by-isinstance"
    ELSE IF Dev_LoopGrowth(c) THEN "loop-carried-growth-not-at-fixpoint"
    ELSE IF Dev_TupleAddUnpacked(c) THEN "tuple-add-with-unpacked-segment"
    ELSE "none"

\* e = [node, val, inferred]: node evaluated to runtime object val; pyanalyze inferred `inferred`
Sound(e) == Member(e.val, e.inferred)
=============================================================================
