------------------------------- MODULE MiniPy -------------------------------
(***************************************************************************)
(* Property C01: inferred values are sound with respect to execution.      *)
(*                                                                         *)
(* This module is (i) the generator of checked programs: an annotated      *)
(* function  def f(x: TX, y: TY)  whose body is built by a stack machine   *)
(* from catalogues of expressions, tests, targets and patterns (source     *)
(* text tokens; TLC composes the statement lines, harness/drivers/c01.py   *)
(* only indents them), together with the argument tuples drawn from the    *)
(* declared parameter types (Members(TX) x Members(TY), computed with the  *)
(* Member relation of Values.tla); and (ii) the acceptance condition for   *)
(* recorded executions: at every evaluated node the runtime value must be  *)
(* a member of the type pyanalyze inferred for that node (Sound), and a    *)
(* node inferred as Never must not be evaluated.  The runtime values come  *)
(* from instrumented execution of the same source under CPython; the       *)
(* abstract machine of the visitor is modelled component-wise in           *)
(* Scopes.tla (C09), Narrowing (C02), ValueAlgebra.tla (C14), Assign.tla   *)
(* (C03/C04) and the call specs.                                           *)
(*                                                                         *)
(* Fixed frame of every generated function (written by the driver):        *)
(*   def f(x: TX, y: TY):                                                   *)
(*       v = 0; e = a = b = c = rest = w = None; ok = False; m = []; d = {} *)
(*       <generated body>                                                   *)
(*       x; y; v; a; b; c; rest; e; w; ok; m; d      (epilogue: every local *)
(*                                      is read once more after all merges) *)
(* m and d are the only containers that are mutated, and no expression      *)
(* yields them (only copies), so no container is mutated through an alias.  *)
(***************************************************************************)
EXTENDS Values

\* extra runtime objects used as arguments
I2 == Obj("int", "2")
T3 == Cont("tuple", <<I1, SA, F15>>)
T2F == Cont("tuple", <<I1, F15>>)
LI == Cont("list", <<I1, I0>>)
P1 == Cont("tuple", <<I1, SA>>)
P0 == Cont("tuple", <<I0, SE>>)
ExtraObjs == {Cont("tuple", <<I1, I0, SA>>), Cont("tuple", <<SA, I1>>), T3, T2F, LI, I2, Obj("str", "ab"), Cont("list", <<I1, I0, I2>>), Cont("tuple", <<I1, I0, I2>>),
              Cont("list", <<P1>>), Cont("list", <<P1, P0>>), Cont("tuple", <<P1, P0>>), Cont("set", <<I1, I0>>),
              Cont("dict", <<KV(SA, Cont("list", <<I1>>))>>), Cont("dict", <<KV(SA, I1), KV(SB, I0)>>),
              Cont("list", <<SA, SB>>), Cont("list", <<NONE, I1>>), Cont("tuple", <<SA, I1, I0>>)}
ArgObjs == Objects \cup ExtraObjs \cup TDObjs

\* declared parameter types
TIS == SeqT("tuple", <<One(Typed("int")), One(Typed("str"))>>)
ParamTypes ==
    {Typed("int"), Typed("str"), Typed("float"), Typed("bool"), Typed("object"), Typed("A"), Typed("Color"),
     Union(<<Typed("int"), Known(NONE)>>), Union(<<Typed("int"), Typed("str")>>), Union(<<Typed("str"), Known(NONE)>>),
     Union(<<Known(I1), Known(I2)>>), Union(<<Typed("int"), Generic("list", <<Typed("int")>>)>>),
     Union(<<Known(SA), Known(SB)>>), Union(<<Typed("A"), Known(NONE)>>),
     Generic("list", <<Typed("int")>>), Generic("list", <<Typed("str")>>), Generic("tuple", <<Typed("int")>>),
     TIS, SeqT("tuple", <<One(Typed("int")), Many(Typed("str")), One(Typed("float"))>>),
     SeqT("tuple", <<One(Typed("str")), Many(Typed("int"))>>),
     Generic("dict", <<Typed("str"), Typed("int")>>), Generic("Sequence", <<Typed("int")>>),
     Union(<<TIS, Known(NONE)>>), Generic("list", <<TIS>>), Generic("tuple", <<TIS>>),
     Generic("dict", <<Typed("str"), Generic("list", <<Typed("int")>>)>>), Generic("set", <<Typed("int")>>),
     Generic("list", <<Union(<<Typed("int"), Known(NONE)>>)>>), Generic("Iterable", <<Typed("str")>>),
     SeqT("tuple", <<Many(Typed("int")), One(Typed("str"))>>),
     \* TypedDicts with a NotRequired key
     TD(<<EntX("a", FALSE, FALSE, Typed("int")), Ent("b", TRUE, Typed("str"))>>), TD(<<EntX("a", FALSE, FALSE, Typed("int"))>>)}

\* The indexing slice: a literal index / slice at every position -3..3 of x, and of displays / lists that contain an
\* unpacked part (*x) before, between or after single members (the impl _sequence_common_getitem_impl)
IndexExprsX ==
    {"x[0]", "x[1]", "x[2]", "x[3]", "x[-1]", "x[-2]", "x[-3]", "x[0:1]", "x[1:]", "x[:-1]", "x[1:2]", "x[-2:]",
     "[*x, 1][0]", "[*x, 1][1]", "(*x, 1)[0]", "(*x, 1, 'a')[1]", "(*x, 1, 'a')[0]", "(None, *x, 1)[1]", "(None, *x, 1)[2]",
     "(None, *x)[1]", "(*x, 1)[-1]", "(*x, 1)[-2]", "(*x, 1, 'a')[-2]", "(*x, 1, 'a')[-3]", "[*x, None][0]", "(*x, None)[0]",
     "[1, *x, None][1]", "[1, *x, None][2]", "[1, *x, None][-2]", "(*x, *x, 1)[0]", "[*x, 1][0:1]", "(*x, 1, 'a')[0:2]",
     "(1, *x)[-1]", "(1, 'a', *x)[2]", "[*x][0]", "(*x,)[-1]",
     "(*x, 'a', *x)[1]", "[*x, None, *x, 1][1]", "(1, *x, 'a', *x)[1]", "(1, *x, 'a', *x)[2]", "(*x, 'a', *x)[0]", "(*x, 'a', *x)[-1]",
     "(*x, None, *x)[-2]", "[*x, None, *x, 1][2]"}
IndexExprsY ==
    {"(*x, y, *x)[1]", "(*x, y, *x)[0]", "[*x, y][0]", "(*x, y)[0]", "(*x, y)[1]", "(y, *x, y)[1]", "(y, *x)[1]", "(*x, y)[-1]", "(*x, y)[-2]", "(y, *x, y)[-2]",
     "[*x, y][0:1]", "[y, *x][-1]"}
\* the same through a local / through the mutated list (one line, several statements)
IndexLinesX ==
    {"v = [*x, 1]; v = v[0]", "v = (*x, 1, 'a'); v = v[1]", "v = (*x, 1, 'a'); v = v[0:1]", "v = [*x, None]; v = v[-1]",
     "v = (*x, 1, 'a'); v = v[-3]", "v = (None, *x, 1); v = v[1]", "m.extend(x); m.append(1); v = m[0]",
     "m.extend(x); m.append(None); v = m[1]", "m += x; m.append('a'); v = m[0]", "m.append(1); m.extend(x); m.append(None); v = m[1]",
     "m.extend(x); m.append(1); v = m[-1]", "m.extend(x); m.append(1); v = m[-2]", "m.extend(x); m.append(1); v = m[0:1]"}
\* displays with TWO unpacked parts and single members between / around them, unpacked into target lists (the impl
\* _unpack_sequence_value), iterated with a tuple target, and indexed
TwoStarX == {"(*x, 'a', *x)", "[*x, None, *x, 1]", "(1, *x, 'a', *x)", "(*x, None, *x)", "[*x, 'a', *x]", "(*x, 1, 'a', *x)",
             "(*x, None, *x, None, *x)", "(None, *x, 1, *x, 'a')"}
TwoStarY == {"(*x, y, *x)", "[*x, y, *x, 1]", "(1, *x, y, *x)"}
TwoStarTargets == {"a, b", "a, b, c", "a, *b", "a, b, *c"}
TwoStarLinesX == {"for a, b in [(*x, 'a', *x)]: pass", "for a, b, c in [(*x, None, *x)]: pass", "for a, b in ((1, *x, 'a', *x),): pass",
                  "v = (*x, 'a', *x); a, b, c = v", "v = [*x, None, *x, 1]; a, b = v[0], v[1]"}
IndexLinesY == {"v = [*x, y]; v = v[0]", "m.extend(x); m.append(y); v = m[0]", "v = (*x, y); v = v[1]", "v = (y, *x, y); v = v[1]"}

(***************************************************************************)
(* Catalogues.  *X: tokens that do not mention y; *Y: tokens that do (the   *)
(* generator varies TY only for bodies that mention y).                     *)
(***************************************************************************)
ExprsX == IndexExprsX \cup
    {"x", "v", "1", "'a'", "None", "[x]", "{'k': x}", "x[0]", "x[-1]", "x[1]", "x[-2]", "v[0]", "len(x)",
     "ident(x)", "first(x)", "maybe(x)", "tolist(x)", "x + 1", "x['a']", "(not x)", "x.value", "x[0:1]", "-x", "str(x)",
     \* locals written by unpacking / loops / walrus / with / match captures
     "a", "b", "rest", "e", "w", "c", "(a, b)", "rest[0]", "a[0]", "w[0]", "[a, *rest]",
     \* indexing and slicing (tuple / list / Sequence / str / dict getitem impls)
     "x[1:]", "x[:-1]", "x[::2]", "x[0][0]", "x[-1][0]", "x[len(x) - 1]", "x[0][1]",
     \* dict impls
     "x.get('a')", "x.get('a', None)", "x.get('a', 0)", "{'k': x}['k']", "{'k': x}.get('k')", "{'k': x}.get('z')",
     "list(x.keys())", "list(x.values())", "list(x.items())", "dict(x)", "x.copy()", "{**x}", "{**x, 'z': 1}",
     "d['k']", "d.get('k')", "d.get('j', x)", "dict(d)", "len(d)", "list(d)",
     \* dicts with a key that may be absent (DictIncompleteValue pairs that are not required: ** of a conditional dict,
     \* of a TypedDict with a NotRequired key, setdefault / update on d), then iterated / unpacked / measured
     "{**({'a': 1} if x else {})}", "{**({'a': 1} if x else {}), 'b': x}", "tuple({**({'a': 1} if x else {}), 'b': x})",
     "[*{**({'a': x} if x else {})}]", "list({**({'a': 1} if x else {})})", "len({**({'a': 1} if x else {}), 'b': 2})",
     "sorted({**({'a': 1} if x else {}), 'b': 2})", "(*{**({'b': 1} if x else {}), 'a': x},)",
     "tuple(d)", "[*d]", "(*d,)", "sorted(d)", "set(d)", "{**d}", "[*{**d}]", "tuple(v)", "[*v]", "list(v)", "len(v)",
     "tuple({**x})", "[*{**x}]", "len({**x})", "list({**x, 'z': 1})", "len(tuple({**x}))", "[k for k in {**x}]",
     \* the mutated list
     "m[0]", "m[-1]", "len(m)", "list(m)", "tuple(m)", "m + [x]", "[*m]", "m[0:1]",
     \* builtins with impl functions or generic typeshed signatures
     "list(x)", "tuple(x)", "set(x)", "sorted(x)", "list(reversed(x))", "list(enumerate(x))", "max(x)", "min(x)", "abs(x)", "sum(x)",
     "bool(x)", "int(x)", "float(x)", "repr(x)", "type(x)", "x.upper()", "x.split()", "'{}'.format(x)", "f'{x}'",
     "x.real", "x.name", "x.count(1)", "x.index(1)",
     \* arithmetic / operators
     "x * 2", "x - 1", "x // 2", "x / 2", "x % 2", "x ** 2", "x + 1.5", "x + 'a'", "x[0] + 1", "+x", "~x", "x * 1.5",
     "x + (1,)", "(1,) + x", "x + [1]", "[None] + x", "x + x", "x * x",
     \* boolean operators, comparisons, conditional expressions
     "(x or 0)", "(x or None)", "(x and x[0])", "(x is None)", "(x == 1)", "(x < 1)", "(1 in x)", "(x if x else v)",
     "(0 if isinstance(x, int) else x)", "(x if x is not None else 0)", "(x if isinstance(x, str) else None)",
     "(x[0] if x else None)", "(x or [])", "(x and 1)",
     \* displays with unpacking, comprehensions
     "(*x, 1)", "[*x]", "(x, x)", "[x, None]", "{x}", "(x,)",
     "[q for q in x]", "[(q, 1) for q in x]", "{q: 1 for q in x}", "[q for q in x if q]", "[q for q in x if isinstance(q, int)]",
     "{q for q in x}", "[q[0] for q in x]", "[k for q in x for k in q]", "[q for q in x if q is not None]", "{q: k for q, k in x}",
     "[q + 1 for q in x]", "list(q for q in x)",
     \* calls: annotated / generic functions, nested calls, defaults, keywords, *args
     "ident(first(x))", "first(tolist(x))", "maybe(first(x))", "len(tolist(x))", "swap(pair(x, 1))", "swap(x)", "pair(x, x)[0]",
     "opt(x)", "opt(x, 1)", "kw(a=x)", "varargs(x, 1)", "varargs(*x)", "second(x)", "unwrap(maybe(x))", "firstkey(x)", "vals(x)",
     "bothof(x, 1)", "ident(x)[0]", "tolist(x)[0]", "takes_int(x)", "takes_opt(x)", "conv(x)",
     \* methods, properties, class / static methods of a small generic class
     "Box(x).get()", "Box(x).item", "Box(x).pair(1)", "Box.make(x).get()", "Box(x).first", "Box(x).map(str).get()",
     "Box(x).same().get()", "Pt(x, 1).px", "Pt(x, 1).both()", "Pt(1, x).py"}
ExprsY == IndexExprsY \cup
    {"y", "(x, y)", "pair(x, y)", "x + y", "(x if y else v)", "(x or y)", "(x and y)", "(x == y)", "(*x, y)", "(x, *y)",
     "x[y]", "x.get(y)", "x.get('a', y)", "{'k': x, 'j': y}['j']", "{'k': x, 'j': y}", "min(x, y)", "max(x, y)", "list(zip(x, y))",
     "x * y", "x - y", "(x is y)", "(x in y)", "(x < y)", "[*x, y]", "[*x, *y]", "(*x, *y)", "[(q, y) for q in x]",
     "{q: y for q in x}", "[q for q in (x, y)]", "swap(pair(x, y))", "pick(x, y)", "second(pair(x, y))", "pair(ident(x), maybe(y))",
     "kw(a=x, b=y)", "varargs(x, y)", "bothof(x, y)", "Box(x).pair(y)", "Pt(x, y).both()", "Pt(x, y).py", "m + [y]",
     "d.get('j', y)", "(y if isinstance(x, int) else x)", "(x if x is not None else y)", "[x, y]", "{x: y}", "y[0]", "len(y)",
     "{**x, 'z': y}", "dict(k=x, j=y)", "(y or x)", "first(y)", "[k for q in (x, y) for k in q]"}

TestsX ==
    {"isinstance(x, int)", "isinstance(x, str)", "isinstance(x, tuple)", "isinstance(x, float)", "isinstance(x, (int, str))",
     "isinstance(x, bool)", "isinstance(x, list)", "x is None", "x is not None", "x == 1", "x != 1", "x in (1, 2)",
     "len(x) == 2", "x", "not x", "isinstance(x, int) or x is None", "isinstance(x, int) and x",
     "x == 'a'", "x is Color.RED", "callable(x)",
     \* saved conditions, walrus, other locals
     "ok", "not ok", "(w := x) is not None", "(w := maybe(x))", "isinstance((w := x), int)", "(w := x) and w[0]",
     "(w := first(x)) is None", "(w := len(x)) > 1", "v", "a", "a is None", "isinstance(a, int)", "rest", "isinstance(v, int)",
     "e is not None", "isinstance(e, str)", "w",
     \* more narrowing forms
     "len(x) > 1", "len(x) >= 2", "len(x) == 3", "'a' in x", "x in ('a', 'b')", "x == 'b'", "isinstance(x, A)", "isinstance(x, B)",
     "isinstance(x, dict)", "isinstance(x, (list, tuple))", "not isinstance(x, str)", "type(x) is int", "type(x) == str",
     "hasattr(x, 'value')", "bool(x)", "x.get('a')", "x == Color.RED", "x is not Color.RED", "x in (Color.RED, Color.GREEN)",
     "x > 0", "0 < x < 2", "x is True", "x and isinstance(x[0], int)", "x[0] is None", "x[0] == 1", "isinstance(x[0], int)",
     "x is not None and x[0]", "x is None or isinstance(x, int)", "not (x is None)", "isinstance(x, (float, str))",
     "isinstance(x, Sequence)", "x != 'a'", "x not in (1, 2)", "x == None", "m", "d", "len(m) == 1", "'k' in d", "all(x)", "x.value == 1"}
TestsY ==
    {"x and y", "y is None", "x is y", "x == y", "x != y", "isinstance(y, str)", "x is not None and y is not None",
     "x is None or y is None", "x in y", "x or y", "y", "not y", "isinstance(x, int) and isinstance(y, int)", "(w := y)",
     "len(x) == len(y)", "y == 1", "x is None and y"}

PatternsX ==
    {"int()", "str()", "(a, b)", "[a, *rest]", "None", "1 | 2", "{'a': a}", "_", "(int(), str())", "Color.RED",
     "[a, b, c]", "float() | bool()", "a",
     "[a, b, *rest]", "(a, *_)", "{'a': a, **rest}", "int(a)" , "str() as a", "[int(), *rest]", "(1, a)", "'a'", "'a' | 'b'",
     "True", "A()", "B()", "Color.RED | Color.GREEN", "[]", "[a]", "(int() | str()) as a", "list()", "tuple()", "dict()",
     "{'a': 1}", "[int() as a, str() as b]", "None | int()", "[(a, b), *rest]", "(a, (b, c))", "{}", "float()", "bool()",
     "[*rest, a]", "[a, *rest, b]", "int() | None", "list() | tuple()", "Box(item=a)", "Pt(px=a, py=b)", "[None, *rest]",
     \* guards that yield no constraint (len(m) > len(d) is false, len(m) >= len(d) true while m and d are empty)
     "int() if len(m) > len(d)", "1 if len(m) > len(d)", "None if len(m) > len(d)", "str() if len(m) > len(d)",
     "Color.RED if len(m) > len(d)", "'a' if len(m) > len(d)", "(a, b) if len(m) > len(d)", "True if len(m) > len(d)",
     "int() | None if len(m) > len(d)", "[a, *rest] if len(m) > len(d)", "1 | 2 if len(m) > len(d)", "2 if ident(ok)",
     "1 if len(m) >= len(d)", "None if len(m) >= len(d)", "'a' | 'b' if takes_int(v)", "Color.GREEN if ident(v)",
     "a if a", "int() if ok", "_ if isinstance(x, str)", "(a, b) if a", "[a, *rest] if rest", "str() if x"}
PatternsY == {"int() if y", "a if y is None", "_ if isinstance(y, int)", "(a, b) if a == y", "_ if x == y"}

UnpackTargets == {"a, b, *c", "a, *b", "a, b", "a, *rest", "(a, b), c", "[a, b]", "a, b, c", "*rest, a", "a, (b, *rest)", "v, x", "a, *rest, b"}
UnpackExprsX == TwoStarX \cup {"{**({'a': 1} if x else {}), 'b': 2}", "d", "{**x}", "x", "x[0]", "(x, 1)", "[x, None]", "tolist(x)", "pair(x, 1)", "swap(x)", "x[0:2]", "(*x, 1)", "list(x)", "tuple(x)",
                 "x.split()", "first(x)", "(x, (1, 'a'))", "[*x]", "(x or (1, 2))", "list(x.items())", "(x, x)", "x[1:]", "sorted(x)",
                 "divmod(x, 2)", "(1, *x)", "Pt(x, 1).both()", "(a, b)", "rest", "m", "(b, a)", "x.popitem()"}
UnpackExprsY == TwoStarY \cup {"(x, y)", "pair(x, y)", "(x, *y)", "(*x, y)", "x + y", "swap(pair(x, y))", "[x, y]", "(y, x)", "(x if x else y)",
                 "(x, (y, 1))", "y"}
AugOps == {"+=", "*=", "-=", "|="}
AugTargets == {"v", "x", "a"}
AugExprsX == {"1", "x", "'a'", "[x]", "(x,)", "1.5", "v", "x[0]", "[None]", "2"}
AugExprsY == {"y", "[y]", "(y,)", "(x, y)"}
MutLinesX == IndexLinesX \cup TwoStarLinesX \cup {"m.append(x)", "m.append(1)", "m.extend(x)", "m.append(None)", "m += [x]", "m.extend([x, 1])",
              "d['k'] = x", "d['j'] = 1", "d.setdefault('k', x)", "d.update({'z': x})", "d.pop('k', None)", "d['k'] = [x]",
              "d.update(k=x)", "del d['k']", "m.append((x, 1))", "m.append([x])", "d['k'] = None",
              "d.update({'a': 1} if x else {})", "d.setdefault('a', 1)",
              \* mutators without an impl function (class unmodelled-container-mutator)
              "m.insert(0, x)", "m[0] = x", "m.clear()"}
MutLinesY == IndexLinesY \cup {"m.append(y)", "d['j'] = y", "d.setdefault('j', y)", "m.extend([x, y])", "d.update({'k': x, 'j': y})", "m += [y]"}
ForTargets == {"e", "a, b", "a, *rest", "(a, b), c", "e, a"}
ForItersX == {"{**({'a': 1} if x else {}), 'b': 2}", "{**x}", "{**d}", "x", "(x, 1)", "(1, 'a')", "v", "x[0:1]", "[x]", "range(2)", "tolist(x)", "enumerate(x)", "x.items()", "x.values()",
              "reversed(x)", "sorted(x)", "m", "d", "(x, None)", "[(x, 1)]", "rest", "x[0]", "x.keys()", "d.items()", "list(x)",
              "[(1, 'a'), (2, 'b')]", "((x, 1), (x, 'a'))", "x.split()"}
ForItersY == {"y", "(x, y)", "zip(x, y)", "[x, y]", "((x, y),)", "[(x, y), (y, x)]", "x + y", "(*x, y)"}
WithItemsX == {"ctx()", "ctx() as cm", "give(x) as cm", "suppress(Exception)", "suppress(TypeError, IndexError)", "give(x) as (a, b)",
               "ctx(), give(x) as cm", "maybe_suppress()", "maybe_suppress() as cm"}
WithItemsY == {"give((x, y)) as (a, b)", "give(y) as cm", "give(x) as a, give(y) as b"}
Handlers == {"except Exception:", "except (TypeError, IndexError):", "except Exception as exc:", "except TypeError :", "except:",
             "except (KeyError, AttributeError, ValueError):"}
MatchSubjectsX == {"x", "v", "x[0]", "(x, 1)", "[x]", "a", "tolist(x)", "w", "rest"}
MatchSubjectsY == {"(x, y)", "y", "[x, y]", "pair(x, y)"}
JumpLines == {"break", "continue"}
RaiseLines == {"raise ValueError()", "raise TypeError(x)", "return"}

CONSTANTS MaxStmts, MaxDepth,
          UseY,      \* FALSE: only tokens that do not mention y are used (TY is then irrelevant and fixed)
          Cats,      \* enabled statement categories
          Slice      \* "all", or "narrow": the narrowing slice (every test / every pattern pair, bodies that just read x)

\* the catalogues of the slice
ExprsXS == IF Slice = "narrow" THEN {"x"} ELSE IF Slice = "index" THEN IndexExprsX ELSE ExprsX
ExprsYS == IF Slice = "index" THEN IndexExprsY ELSE ExprsY
MutXS == IF Slice = "index" THEN IndexLinesX \cup TwoStarLinesX ELSE MutLinesX
UnpackTS == IF Slice = "index" THEN TwoStarTargets ELSE UnpackTargets
UnpackXS == IF Slice = "index" THEN TwoStarX ELSE UnpackExprsX
UnpackYS == IF Slice = "index" THEN TwoStarY ELSE UnpackExprsY
MutYS == IF Slice = "index" THEN IndexLinesY ELSE MutLinesY
\* in the indexing slice y only supplies one more element: a type whose only member (None) lies outside every element type
TypesY == IF Slice = "index" THEN {Typed("NoneType")} ELSE ParamTypes
Patterns2 == IF Slice = "narrow" THEN {"_", "a", "int()", "str()", "None", "(a, b)"} ELSE PatternsX
MatchSubjectsXS == IF Slice = "narrow" THEN {"x"} ELSE MatchSubjectsX

VARIABLES stack, n, tx, ty, done, pick, pend, usesy
mvars == <<stack, n, tx, ty, done, pick, pend, usesy>>

Frame(kind, hdr, heads, np) == [kind |-> kind, hdr |-> hdr, heads |-> heads, np |-> np, parts |-> << >>, cur |-> << >>]
Root == Frame("root", "", << >>, 1)

MInit == /\ stack = <<Root>> /\ n = 0 /\ tx = Typed("int") /\ ty = Typed("int") /\ done = "gen" /\ pick = "" /\ pend = << >>
         /\ usesy = FALSE

Top == stack[Len(stack)]
AfterJump == Top.cur # << >> /\ Top.cur[Len(Top.cur)].k = "jump"
InLoop == \E i \in 1..Len(stack) : stack[i].kind \in {"while", "for"} /\ stack[i].parts = << >>

SimpleCats == {"assign-v", "assign-x", "unpack", "aug", "expr", "return", "assert", "save", "mut", "loopjump", "raise"}
OpenCats == {"if", "ifelse", "while", "whileelse", "for", "forelse", "try", "with", "match"}
StructCats == {"next", "close", "finish"}

\* ---- stage A: choose what to do (one successor per category, so that simulation is uniform over categories) ----
CanSimple == n < MaxStmts /\ ~AfterJump
CanOpen == n + 1 < MaxStmts /\ Len(stack) <= MaxDepth /\ ~AfterJump
CanNext == Len(stack) > 1 /\ Len(Top.parts) + 1 < Top.np /\ Top.cur # << >>
CanClose == Len(stack) > 1 /\ Len(Top.parts) + 1 = Top.np /\ Top.cur # << >>
CanFinish == Len(stack) = 1 /\ Top.cur # << >>
Choose ==
    /\ done = "gen" /\ pick = ""
    /\ \E cat \in (Cats \cap (SimpleCats \cup OpenCats)) \cup StructCats :
          /\ CASE cat \in SimpleCats -> CanSimple /\ (cat = "loopjump" => InLoop)
               [] cat \in OpenCats -> CanOpen
               [] cat = "next" -> CanNext
               [] cat = "close" -> CanClose
               [] cat = "finish" -> CanFinish
          /\ pick' = cat
    /\ UNCHANGED <<stack, n, tx, ty, done, pend, usesy>>

\* ---- stage B: choose the tokens of the picked category, one token per step (pend = tokens chosen so far) ----
PushStmt(s, y) == /\ stack' = [stack EXCEPT ![Len(stack)].cur = Append(@, s)]
                  /\ n' = n + 1 /\ pick' = "" /\ pend' = << >> /\ usesy' = (usesy \/ y) /\ UNCHANGED <<tx, ty, done>>
Line(t) == [k |-> "line", line |-> t]
Jump(t) == [k |-> "jump", line |-> t]
\* tokens mentioning y are available only when UseY
YSet(S) == IF UseY THEN S ELSE {}
\* remember one more token of a statement that needs several
More(t, y) == /\ pend' = Append(pend, t) /\ usesy' = (usesy \/ y) /\ UNCHANGED <<stack, n, tx, ty, done, pick>>

AddSimple ==
    /\ done = "gen"
    /\ \/ pick = "assign-v" /\ \/ \E e \in ExprsXS : PushStmt(Line("v = " \o e), FALSE)
                               \/ \E e \in YSet(ExprsYS) : PushStmt(Line("v = " \o e), TRUE)
       \/ pick = "assign-x" /\ \/ \E e \in ExprsXS : PushStmt(Line("x = " \o e), FALSE)
                               \/ \E e \in YSet(ExprsYS) : PushStmt(Line("x = " \o e), TRUE)
       \/ pick = "expr" /\ \/ \E e \in ExprsXS : PushStmt(Line(e), FALSE)
                           \/ \E e \in YSet(ExprsYS) : PushStmt(Line(e), TRUE)
       \/ pick = "return" /\ \/ \E e \in ExprsXS : PushStmt(Jump("return " \o e), FALSE)
                             \/ \E e \in YSet(ExprsYS) : PushStmt(Jump("return " \o e), TRUE)
       \/ pick = "unpack" /\ pend = << >> /\ \E t \in UnpackTS : More(t, FALSE)
       \/ pick = "unpack" /\ pend # << >> /\ \/ \E e \in UnpackXS : PushStmt(Line(pend[1] \o " = " \o e), FALSE)
                                             \/ \E e \in YSet(UnpackYS) : PushStmt(Line(pend[1] \o " = " \o e), TRUE)
       \/ pick = "aug" /\ pend = << >> /\ \E t \in AugTargets, op \in AugOps : More(t \o " " \o op \o " ", FALSE)
       \/ pick = "aug" /\ pend # << >> /\ \/ \E e \in AugExprsX : PushStmt(Line(pend[1] \o e), FALSE)
                                          \/ \E e \in YSet(AugExprsY) : PushStmt(Line(pend[1] \o e), TRUE)
       \/ pick = "assert" /\ \/ \E t \in TestsX : PushStmt(Line("assert " \o t), FALSE)
                             \/ \E t \in YSet(TestsY) : PushStmt(Line("assert " \o t), TRUE)
       \/ pick = "save" /\ \/ \E t \in TestsX : PushStmt(Line("ok = " \o t), FALSE)
                           \/ \E t \in YSet(TestsY) : PushStmt(Line("ok = " \o t), TRUE)
       \/ pick = "mut" /\ \/ \E t \in MutXS : PushStmt(Line(t), FALSE)
                          \/ \E t \in YSet(MutYS) : PushStmt(Line(t), TRUE)
       \/ pick = "loopjump" /\ \E t \in JumpLines : PushStmt(Jump(t), FALSE)
       \/ pick = "raise" /\ \E t \in RaiseLines : PushStmt(Jump(t), FALSE)

OpenFrame(f, y) == /\ stack' = Append(stack, f) /\ n' = n + 1 /\ pick' = "" /\ pend' = << >> /\ usesy' = (usesy \/ y)
                   /\ UNCHANGED <<tx, ty, done>>
Heads1(kw, t) == <<kw \o " " \o t \o ":">>
Heads2(kw, t) == <<kw \o " " \o t \o ":", "else:">>
TryShapes(h) == {<<"try:", h>>, <<"try:", h, "finally:">>, <<"try:", h, "else:">>, <<"try:", h, "else:", "finally:">>,
                 <<"try:", "finally:">>, <<"try:", "except TypeError :", h>>}
Open ==
    /\ done = "gen"
    /\ \/ pick = "if" /\ \/ \E t \in TestsX : OpenFrame(Frame("if", "", Heads1("if", t), 1), FALSE)
                         \/ \E t \in YSet(TestsY) : OpenFrame(Frame("if", "", Heads1("if", t), 1), TRUE)
       \/ pick = "ifelse" /\ \/ \E t \in TestsX : OpenFrame(Frame("if", "", Heads2("if", t), 2), FALSE)
                             \/ \E t \in YSet(TestsY) : OpenFrame(Frame("if", "", Heads2("if", t), 2), TRUE)
       \/ pick = "while" /\ \/ \E t \in TestsX : OpenFrame(Frame("while", "", Heads1("while", t), 1), FALSE)
                            \/ \E t \in YSet(TestsY) : OpenFrame(Frame("while", "", Heads1("while", t), 1), TRUE)
       \/ pick = "whileelse" /\ \/ \E t \in TestsX : OpenFrame(Frame("while", "", Heads2("while", t), 2), FALSE)
                                \/ \E t \in YSet(TestsY) : OpenFrame(Frame("while", "", Heads2("while", t), 2), TRUE)
       \/ pick \in {"for", "forelse"} /\ pend = << >> /\ \E t \in ForTargets : More(t, FALSE)
       \/ pick = "for" /\ pend # << >> /\
            \/ \E e \in ForItersX : OpenFrame(Frame("for", "", Heads1("for", pend[1] \o " in " \o e), 1), FALSE)
            \/ \E e \in YSet(ForItersY) : OpenFrame(Frame("for", "", Heads1("for", pend[1] \o " in " \o e), 1), TRUE)
       \/ pick = "forelse" /\ pend # << >> /\
            \/ \E e \in ForItersX : OpenFrame(Frame("for", "", Heads2("for", pend[1] \o " in " \o e), 2), FALSE)
            \/ \E e \in YSet(ForItersY) : OpenFrame(Frame("for", "", Heads2("for", pend[1] \o " in " \o e), 2), TRUE)
       \/ pick = "try" /\ pend = << >> /\ \E h \in Handlers : More(h, FALSE)
       \/ pick = "try" /\ pend # << >> /\ \E hs \in TryShapes(pend[1]) : OpenFrame(Frame("try", "", hs, Len(hs)), FALSE)
       \/ pick = "with" /\ \/ \E w \in WithItemsX : OpenFrame(Frame("with", "", Heads1("with", w), 1), FALSE)
                           \/ \E w \in YSet(WithItemsY) : OpenFrame(Frame("with", "", Heads1("with", w), 1), TRUE)
       \/ pick = "match" /\ Len(pend) = 0 /\ \/ \E s \in MatchSubjectsXS : More(s, FALSE)
                                             \/ \E s \in YSet(MatchSubjectsY) : More(s, TRUE)
       \* an irrefutable pattern is only legal in the last case
       \/ pick = "match" /\ Len(pend) = 1 /\ \/ \E p \in PatternsX \ {"_", "a"} : More(p, FALSE)
                                             \/ \E p \in YSet(PatternsY) : More(p, TRUE)
       \/ pick = "match" /\ Len(pend) = 2 /\ \E p \in Patterns2 \ {pend[2]} :
               OpenFrame(Frame("match", "match " \o pend[1] \o ":", <<"case " \o pend[2] \o ":", "case " \o p \o ":">>, 2), FALSE)

NextPart ==
    /\ done = "gen" /\ pick = "next"
    /\ stack' = [stack EXCEPT ![Len(stack)] = [@ EXCEPT !.parts = Append(@, Top.cur), !.cur = << >>]]
    /\ pick' = "" /\ UNCHANGED <<n, tx, ty, done, pend, usesy>>

Close ==
    /\ done = "gen" /\ pick = "close"
    /\ LET st == [k |-> "block", hdr |-> Top.hdr, heads |-> Top.heads, parts |-> Append(Top.parts, Top.cur)]
           below == SubSeq(stack, 1, Len(stack) - 1)
       IN stack' = [below EXCEPT ![Len(below)].cur = Append(@, st)]
    /\ pick' = "" /\ UNCHANGED <<n, tx, ty, done, pend, usesy>>

Finish == done = "gen" /\ pick = "finish" /\ done' = "typex" /\ pick' = "" /\ UNCHANGED <<stack, n, tx, ty, pend, usesy>>

\* the parameter types are chosen last (one per step); TY only matters if the body mentions y
ChooseTypes ==
    \/ done = "typex" /\ (\E ta \in ParamTypes : tx' = ta) /\ done' = "typey" /\ UNCHANGED <<stack, n, ty, pick, pend, usesy>>
    \/ done = "typey" /\ (\E tb \in IF usesy THEN TypesY ELSE {Typed("int")} : ty' = tb) /\ done' = "done"
       /\ UNCHANGED <<stack, n, tx, pick, pend, usesy>>

MNext == Choose \/ AddSimple \/ Open \/ NextPart \/ Close \/ Finish \/ ChooseTypes

Prog == stack[1].cur
RECURSIVE SetToSeq(_)
SetToSeq(S) == IF S = {} THEN << >> ELSE LET xx == CHOOSE yy \in S : TRUE IN <<xx>> \o SetToSeq(S \ {xx})
\* Arguments are drawn from the declared type.  Narrowing by == / in / literal patterns is only claimed for objects whose
\* equality with the tested literals implies equal type (the same restriction as in property C02): bool objects are only
\* passed where bool is declared (True == 1), and 1.0 (== 1) is not passed at all; computed values that compare equal
\* across types are handled by the event-level domain predicate CrossEqTest below.
RECURSIVE EqSafe(_)
EqSafe(o) == /\ o # FLT1 /\ o.c # "bool"
             /\ \A i \in 1..Len(o.items) : IF o.c = "dict" THEN EqSafe(o.items[i].key) /\ EqSafe(o.items[i].val) ELSE EqSafe(o.items[i])
\* TypedDict parameters receive dicts with declared keys only (a TypedDict type is structurally open, Values!Member, but
\* {**td} / iteration over td are typed by the declared keys, as every checker does)
DeclaredKeysOnly(o, T) == T.k = "typeddict" => \A kk \in DictKeys(o) : \E i \in 1..Len(T.items) : kk.v = T.items[i].key
ArgsFor(T) == SetToSeq({o \in ArgObjs : Member(o, T) /\ DeclaredKeysOnly(o, T)
                                         /\ (EqSafe(o) \/ (o.c = "bool" /\ T = Typed("bool")))})

\* (a constant: TLC evaluates it once)
ArgsTable == [T \in ParamTypes \cup {Typed("NoneType")} |-> ArgsFor(T)]

\* the declared types are inhabited (otherwise no execution would be observed)
Inhabited == \A T \in ParamTypes : ArgsTable[T] # << >>

(***************************************************************************)
(* Acceptance of a recorded execution                                      *)
(*                                                                         *)
(* A recorded execution is a node table (syntactic facts about every       *)
(* recorded expression node of the function) and the stream of events the  *)
(* instrumented function produced under CPython:                           *)
(*   [k |-> "e", n, v, i, j]   node n evaluated to object v; the checker   *)
(*                             inferred type i for it (j: v and i are in   *)
(*                             the term universe, i.e. the event is judged)*)
(*   [k |-> "s", site]         the assignment site `site` (o.stores[site]) *)
(*                             completed: names := value of node n, which  *)
(*                             reads the variables r                        *)
(*   [k |-> "le"|"it"|"lx", loop]  loop entered / iteration begins / left  *)
(* Sound(e) is the property.  Every other operator below describes a KNOWN *)
(* deviating mechanism of the unchanged implementation as a predicate on   *)
(* the EVENT (never on the program): an unsound event is filed under a     *)
(* class only if the mechanism of that class explains this very event.     *)
(***************************************************************************)
\* e = [v |-> runtime object, i |-> inferred type]
Sound(e) == Member(e.v, e.i)

VarNames == {"x", "y", "v", "w", "ok", "a", "b", "c", "rest", "e", "m", "d", "cm", "g", "h", "s", "t", "k"}
LoopIds == 1..10
NoObj == [c |-> "?", v |-> "?", items |-> << >>]
NoT == [k |-> "skip"]

RECURSIVE SubObjs(_), ObjOK(_)
SubObjs(o) == {o} \cup UNION {IF o.c = "dict" THEN SubObjs(o.items[i].key) \cup SubObjs(o.items[i].val) ELSE SubObjs(o.items[i]) :
                               i \in 1..Len(o.items)}
ObjOK(o) == \A s \in SubObjs(o) : s.c \in Classes
NumericObj(o) == o.c \in {"int", "bool", "float"}
ContainsNumeric(o) == \E s \in SubObjs(o) : NumericObj(s)
ElemsOf(o) == IF o.c = "dict" THEN DictKeys(o) ELSE SeqToSet(o.items)

KeyNumeric == "numeric-promotion-lost-by-isinstance"
KeyLoop == "loop-carried-growth-not-at-fixpoint"
KeyTupleAdd == "tuple-add-drops-left-operand"
KeyCrossEq == "cross-type-equality"
KeyRejected == "value-of-rejected-expression"
KeyUnmodelled == "unmodelled-container-mutator"
KeyMutLost == "mutation-lost-on-exception-path"
KeyAbsTruthy == "abstract-type-assumed-truthy"
KeyVariadic == "variadic-tuple-leniency"

RECURSIVE HasManyT(_)
HasManyT(T) ==
    CASE T.k = "seq" -> \E i \in 1..Len(T.ms) : T.ms[i].many \/ HasManyT(T.ms[i].t)
      [] T.k = "generic" -> \E i \in 1..Len(T.args) : HasManyT(T.args[i])
      [] T.k = "union" -> \E i \in 1..Len(T.ms) : HasManyT(T.ms[i])
      [] OTHER -> FALSE

RECURSIVE HasVariadicTuple(_)
HasVariadicTuple(T) ==
    CASE T.k = "seq" -> \E i \in 1..Len(T.ms) : HasVariadicTuple(T.ms[i].t)
      [] T.k = "generic" -> (T.c = "tuple" /\ Len(T.args) = 1) \/ \E i \in 1..Len(T.args) : HasVariadicTuple(T.args[i])
      [] T.k = "union" -> \E i \in 1..Len(T.ms) : HasVariadicTuple(T.ms[i])
      [] OTHER -> FALSE
RECURSIVE HasShapedTuple(_)
HasShapedTuple(T) ==
    CASE T.k = "seq" -> T.c = "tuple" \/ \E i \in 1..Len(T.ms) : HasShapedTuple(T.ms[i].t)
      [] T.k = "generic" -> \E i \in 1..Len(T.args) : HasShapedTuple(T.args[i])
      [] T.k = "union" -> \E i \in 1..Len(T.ms) : HasShapedTuple(T.ms[i])
      [] OTHER -> FALSE
KeyGuardCapture == "capture-kept-after-failed-guard"

\* ---- (e) in-place mutators of list / dict / set that have no impl function: the inferred type of the container stays
\* what it was (the impl table of implementation.py models append / extend / += / add / dict setitem / setdefault /
\* update / pop / delitem only)
Dev_UnmodelledMutator(cls, via) ==
    <<cls, via>> \in {<<"list", ".insert">>, <<"list", ".pop">>, <<"list", ".clear">>, <<"list", ".sort">>, <<"list", ".reverse">>,
                      <<"list", ".remove">>, <<"list", "[]=">>, <<"list", "del[]">>, <<"dict", ".popitem">>, <<"dict", ".clear">>,
                      <<"set", ".pop">>, <<"set", ".clear">>, <<"set", ".remove">>, <<"set", ".update">>}

\* ---- (g) list.extend / list.__iadd__ with a literal (KnownValue) str argument: _list_extend_or_iadd_impl checks the
\* element type only for TypedValue iterables, a literal str falls through and the list type stays unchanged
KeyExtendKnown == "list-extend-literal-str-unchecked"
AllKnown(T) == T.k = "known" \/ (T.k = "union" /\ T.ms # << >> /\ \A i \in 1..Len(T.ms) : T.ms[i].k = "known")
Dev_ListExtendKnown(cls, via, argval, arginf) ==
    cls = "list" /\ via \in {"aug+", ".extend"} /\ AllKnown(arginf) /\ argval.c = "str" /\ argval.v # ""

\* ---- (h) `m += <list>` on a list the checker knows literally (KnownValue): the augmented assignment is folded by
\* performing the in-place operation on the very object the KnownValue holds, so every earlier value that shares the
\* object (the state before an `if`, before a loop that is not entered) changes with it: `m = []` / `if y: m += [1]` /
\* reveal_type(m) reveals Literal[[1]].  Static part: the function contains such a statement on a variable the node
\* reads; event part: the inferred type names a literal list.
KeyKnownList == "known-list-mutated-in-place"
RECURSIVE HasKnownList(_)
HasKnownList(T) ==
    CASE T.k = "known" -> T.o.c = "list"
      [] T.k = "union" -> \E i \in 1..Len(T.ms) : HasKnownList(T.ms[i])
      [] OTHER -> FALSE
Dev_KnownListMutated(stores, reads, inf) ==
    /\ HasKnownList(inf)
    /\ \E k \in 1..Len(stores) : stores[k].via = "aug+" /\ SeqToSet(stores[k].names) \cap reads # {}

\* ---- (i) the assignments of the else clause of a loop reach the test and the body of that loop (C09's open finding
\* loop-else seen through inferred values): a node of the loop that reads a variable assigned in the else clause is typed
\* with that assignment's value too, and narrowing on it can go wrong (x[0] typed Never)
KeyWhileElse == "loop-else-assignment-seen-in-loop"
\* ---- (j) a subscript / attribute (x[0]) has no definition at the entry of a loop, so at the head of the body the
\* narrowing a test / assert inside the loop applies to it is all the checker knows about it: the node is typed with
\* the narrowed value of the previous pass although the first iteration reads the un-narrowed element
KeyLoopComposite == "composite-narrowing-carried-around-loop"
\* ---- (k) dict.__setitem__ / setdefault / update on a receiver whose inferred type is a UNION of dict values (one branch
\* added a key): _add_pairs_to_dict (implementation.py:1131) hands the union to _update_incomplete_dict, which starts a
\* new dict from the added pairs alone: `d = {}` / `if x: d['a'] = 1` / `d['j'] = 1` reveals {'j': 1}
KeyDictUnion == "dict-mutation-on-union-forgets-keys"
Dev_DictUnionMutation(cls, via, recvinf) == cls = "dict" /\ via \in {"[]=", ".setdefault", ".update"} /\ recvinf.k = "union"
KeyDictTD == "plain-dict-accepted-for-typeddict"
RECURSIVE HasTypedDict(_)
HasTypedDict(T) ==
    CASE T.k = "typeddict" -> TRUE
      [] T.k = "seq" -> \E i \in 1..Len(T.ms) : HasTypedDict(T.ms[i].t)
      [] T.k = "generic" -> \E i \in 1..Len(T.args) : HasTypedDict(T.args[i])
      [] T.k = "union" -> \E i \in 1..Len(T.ms) : HasTypedDict(T.ms[i])
      [] OTHER -> FALSE
\* ---- domain: the program mutated a container through an alias (observed by identity), which the property excludes
KeyAlias == "mutated-through-alias"
\* ---- domain: a value that came out of an expression typed Any (gradual typing: an Any argument does not take part in
\* solving a type variable, so min(<Any>, y) is typed like y)
KeyAny == "flows-from-any"

\* ---- (f) a value whose static type is an abstract class without __bool__ / __len__ (Iterable) is assumed always
\* truthy although the runtime object (a list, a str) can be empty
IsFalsy(o) == (o.c \in {"list", "tuple", "set", "dict"} /\ o.items = << >>) \/ (o.c = "str" /\ o.v = "")
Dev_AbstractTruthy(val, inf) == inf.k \in {"typed", "generic"} /\ inf.c = "Iterable" /\ IsFalsy(val)

\* ---- (a) numeric promotion lost by isinstance (same root cause as C02's class of the same name) -----------------
\* CPython's isinstance versus what the narrowing assumes: typeshed's artificial bases make every int an instance of
\* float and complex (and every float of complex).  The mechanism mis-predicts the branch exactly when the two differ.
PyIsInst(o, Cs) == \E c \in Cs : c \in Classes /\ o.c \in Classes /\ IsSubclass(o.c, c)
ArtIsInst(o, Cs) == PyIsInst(o, Cs) \/ \E c \in Cs : c \in Classes /\ o.c \in Classes /\ Promotes(o.c, c)
Dev_NumericMispredict(o, Cs) == PyIsInst(o, Cs) # ArtIsInst(o, Cs)

\* ---- (d) domain restriction shared with C02: narrowing by == / != / in / literal patterns is claimed only for ----
\* objects whose equality with the tested literals implies equal type (1 == 1.0 == True are equal across types)
\* Python's == on recorded objects (payloads of computed numbers are their repr: 2 == 2.0; small integers suffice)
NumKey(o) == CASE o.v \in {"1", "True", "1.0"} -> "1"
               [] o.v \in {"0", "False", "0.0", "-0.0"} -> "0"
               [] o.v \in {"2", "2.0"} -> "2"
               [] o.v \in {"3", "3.0"} -> "3"
               [] o.v \in {"4", "4.0"} -> "4"
               [] o.v \in {"-1", "-1.0"} -> "-1"
               [] o.v \in {"-2", "-2.0"} -> "-2"
               [] OTHER -> o.v
RECURSIVE PyEq(_, _)
PyEq(a, b) ==
    IF a.c \in NumericClasses /\ b.c \in NumericClasses THEN NumKey(a) = NumKey(b)
    ELSE /\ a.c = b.c /\ a.v = b.v /\ Len(a.items) = Len(b.items)
         /\ \A i \in 1..Len(a.items) :
               IF a.c = "dict" THEN PyEq(a.items[i].key, b.items[i].key) /\ PyEq(a.items[i].val, b.items[i].val)
               ELSE PyEq(a.items[i], b.items[i])
CrossEq(a, b) == a # b /\ PyEq(a, b)
CrossEqTest(op, lo, ro) ==
    CASE op \in {"==", "!="} -> CrossEq(lo, ro)
      [] op \in {"in", "not in"} -> \E xo \in ElemsOf(ro) : CrossEq(lo, xo)
      [] OTHER -> FALSE

\* ---- (c) tuple.__add__: the element types of the LEFT operand are not part of the result type ------------------
\* (the typeshed overload  __add__(self, value: tuple[_T_co, ...]) -> tuple[_T_co, ...]  is solved from `value` alone)
Dev_TupleAddDropsLeft(lo, ro, val, inf) ==
    /\ lo.c = "tuple" /\ ro.c = "tuple" /\ val.c = "tuple" /\ val.items = lo.items \o ro.items
    /\ inf.k = "generic" /\ inf.c = "tuple" /\ Len(inf.args) = 1
    /\ ObjOK(lo) /\ ObjOK(ro)
    /\ AllMembers(SeqToSet(ro.items), inf.args[1])
    /\ ~AllMembers(SeqToSet(lo.items), inf.args[1])

\* ---- (b) a loop body is not analysed to a fixpoint -------------------------------------------------------------
\* The collecting phase visits a loop body twice, the checking phase once, and every definition node keeps ONE value
\* (that of its latest visit), so the state at the head of the body is  <entry state> | <latest value of the body's
\* definition nodes>.  In a loop that is always entered the second collecting visit starts from the first visit's END
\* state alone: for `for e in (1, 'a'): x = tolist(x)` the checking phase types x at the head of the body as
\* x0 | list[list[x0]] and the second iteration's value [x0] is in neither member.  What the mechanism gets wrong are
\* values that were carried over a back edge of the loop: carry(r) = number of back edges crossed by the data flow that
\* produced the current value of r (copied by assignments: max over the variables read, see MiniPyTrace!AfterStore),
\* Delta = one more if the value was stored in an earlier iteration of a loop that is still running.  A value that was
\* never carried (read in the iteration that produced it, or produced before the loop) is not excused.
Delta(st, r) == IF \E L \in LoopIds : st.stamp[r][L] >= 1 /\ st.it[L] > st.stamp[r][L] THEN 1 ELSE 0
Carry(st, r) == st.cc[r] + Delta(st, r)
Dev_LoopCarried(st, reads) == \E r \in reads : Carry(st, r) >= 1
=============================================================================
