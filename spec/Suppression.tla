---------------------------- MODULE Suppression ----------------------------
(***************************************************************************)
(* Suppression and enabling of diagnostics (property C11), and the state   *)
(* the add-ignores fix loop of C16 runs on (FixLoop.tla extends this).     *)
(*                                                                         *)
(* A file is a sequence of abstract lines:                                 *)
(*   kind "code"    -- a statement that raises the diagnostics `diags`     *)
(*                     (codes, in column order) and may carry a trailing   *)
(*                     ignore comment `ign`                                *)
(*   kind "own"     -- an own-line `# static analysis: ignore` comment     *)
(*                     (`ign` = "bare" or a code)                          *)
(*   kind "comment" -- another comment line;  kind "blank" -- empty line   *)
(* Settings: the set of disabled codes and whether the two meta codes      *)
(* unused_ignore / bare_ignore are enabled.                                *)
(*                                                                         *)
(* Impl* transcribes BaseNodeVisitor.show_error (node_visitor.py:558-713), *)
(* has_file_level_ignore (:240), show_errors_for_unused_ignores (:267) and *)
(* show_errors_for_bare_ignores (:284) as a state machine: one step per    *)
(* show_error call, one action per return path.  Ref* is the meaning       *)
(* stated in README.md / the property, written as a set comprehension.     *)
(***************************************************************************)
EXTENDS Naturals, Sequences, FiniteSets, TLC

Codes == {"c1", "c2"}            \* codes that statements raise
IgnCodes == {"c1", "c2", "c3"}   \* codes an ignore comment may name (c3: never raised)
Igns == {"bare"} \cup IgnCodes

NoDiags == << >>
DiagSets == { << >>, <<"c1">>, <<"c2">>, <<"c1", "c2">> }

CodeLines == [kind : {"code"}, diags : DiagSets, ign : {"none"} \cup Igns]
OwnLines == [kind : {"own"}, diags : {NoDiags}, ign : Igns]
OtherLines == [kind : {"comment", "blank"}, diags : {NoDiags}, ign : {"none"}]
LineSpace == CodeLines \cup OwnLines \cup OtherLines

HasIgnore(ln) == ln.ign # "none"
Matches(ign, code) == ign = "bare" \/ ign = code

(***************************************************************************)
(* Raw diagnostics of a file, in visiting order: <<code, lineno>> (1-based)*)
(***************************************************************************)
\* Each statement of the realised files is a module-level lambda.  NameCheckVisitor visits a
\* function body twice when it reaches the def/lambda in its checking pass (first in the
\* collecting state, then in the checking state; functions.py / name_check_visitor.py).  Most
\* diagnostics are only raised in the checking state (_show_error_if_checking); others -- in this
\* model c2 (unsupported_operation) -- are raised in both, so show_error sees them twice per line
\* and the second call takes the `duplicate` return path.
TwoPhaseCodes == {"c2"}
IsTwoPhase(d) == d.code \in TwoPhaseCodes
LineDiags(lines, k) == [j \in 1..Len(lines[k].diags) |-> [code |-> lines[k].diags[j], line |-> k]]
RECURSIVE RawFrom(_, _)
RawFrom(lines, k) ==
    IF k > Len(lines) THEN << >>
    ELSE SelectSeq(LineDiags(lines, k), IsTwoPhase) \o LineDiags(lines, k) \o RawFrom(lines, k + 1)
Raw(c) == RawFrom(c.lines, 1)

(***************************************************************************)
(* Impl                                                                    *)
(***************************************************************************)
\* has_file_level_ignore(code): scan the leading lines that start with "#"; the first one that is
\* exactly the ignore comment (bare or naming `code`) is a file-level ignore.  Returns its 0-based
\* index + 1, or 0.  (node_visitor.py:247-257)
RECURSIVE ImplFileLevelFrom(_, _, _)
ImplFileLevelFrom(lines, code, i) ==
    IF i > Len(lines) THEN 0
    ELSE IF lines[i].kind \notin {"own", "comment"} THEN 0
    ELSE IF lines[i].kind = "own" /\ Matches(lines[i].ign, code) THEN i
    ELSE ImplFileLevelFrom(lines, code, i + 1)
ImplFileLevel(c, code) == ImplFileLevelFrom(c.lines, code, 1)

\* Python's lines[lineno - 2]: index -1 wraps to the last line.  pinned = TRUE reproduces the
\* pinned commit (no guard); the repaired code only looks at a previous line when there is one.
ImplPrevIndex(c, lineno, pinned) ==
    IF lineno >= 2 THEN lineno - 1
    ELSE IF pinned THEN Len(c.lines) ELSE 0        \* 1-based index of the line consulted, 0 = none

\* One show_error(node, code) call with obey_ignore=True.  ms = [used, seen, out] is the visitor
\* state; the result is [decision, ms'].   used holds 1-based line indices (the code stores
\* lineno-1 / lineno-2; under the pinned wrap it stores -1, modelled as 0 = "no real line").
ImplShow(c, ms, code, lineno, pinned) ==
    LET fl == ImplFileLevel(c, code)
        this == c.lines[lineno]
        pi == ImplPrevIndex(c, lineno, pinned)
    IN IF code \in c.disabled
         THEN [decision |-> "disabled", ms |-> ms]
       ELSE IF fl # 0
         THEN [decision |-> "file_ignore", ms |-> [ms EXCEPT !.used = @ \cup {fl}]]
       ELSE IF <<code, lineno>> \in ms.seen
         THEN [decision |-> "duplicate", ms |-> ms]
       ELSE IF HasIgnore(this) /\ this.kind = "code" /\ Matches(this.ign, code)
         THEN [decision |-> "this_line",
               ms |-> [ms EXCEPT !.used = @ \cup {lineno}, !.seen = @ \cup {<<code, lineno>>}]]
       ELSE IF pi # 0 /\ c.lines[pi].kind = "own" /\ Matches(c.lines[pi].ign, code)
         THEN [decision |-> "prev_line",
               ms |-> [ms EXCEPT !.used = @ \cup {IF lineno >= 2 THEN pi ELSE 0},
                                 !.seen = @ \cup {<<code, lineno>>}]]
       ELSE [decision |-> "emitted",
             ms |-> [ms EXCEPT !.seen = @ \cup {<<code, lineno>>},
                               !.out = Append(@, [code |-> code, line |-> lineno])]]

\* show_errors_for_unused_ignores: every line containing the ignore comment whose index is not in
\* used_ignores gets show_error(unused_ignore, obey_ignore=False): enabled? file-level ignore for
\* the code unused_ignore (only a bare one can match in this model)? otherwise emitted.
RECURSIVE ImplUnusedFrom(_, _, _)
ImplUnusedFrom(c, used, i) ==
    IF i > Len(c.lines) THEN << >>
    ELSE (IF HasIgnore(c.lines[i]) /\ i \notin used /\ c.unused_on /\ ImplFileLevel(c, "unused_ignore") = 0
          THEN << [code |-> "unused_ignore", line |-> i] >> ELSE << >>)
         \o ImplUnusedFrom(c, used, i + 1)

\* show_errors_for_bare_ignores: nothing if the file has a bare file-level ignore; otherwise every
\* line with a bare ignore comment.
RECURSIVE ImplBareFrom(_, _)
ImplBareFrom(c, i) ==
    IF i > Len(c.lines) THEN << >>
    ELSE (IF c.lines[i].ign = "bare" /\ c.bare_on THEN << [code |-> "bare_ignore", line |-> i] >> ELSE << >>)
         \o ImplBareFrom(c, i + 1)
ImplBare(c) == IF ImplFileLevel(c, "bare_ignore") # 0 THEN << >> ELSE ImplBareFrom(c, 1)

(***************************************************************************)
(* Ref: the documented meaning.                                            *)
(*   - a diagnostic of a disabled code does not exist;                     *)
(*   - an ignore comment applies to a diagnostic (code, L) when it is bare *)
(*     or names the code and is: in the leading comment block of the file  *)
(*     on a line of its own (file-level), trailing on line L, or alone on  *)
(*     line L-1;                                                           *)
(*   - a diagnostic is reported iff no comment applies to it;              *)
(*   - a comment is unused iff it applies to no enabled diagnostic.        *)
(***************************************************************************)
RefLeading(c, k) == \A j \in 1..k : c.lines[j].kind \in {"own", "comment"}

RefApplies(c, k, code, L) ==          \* does the comment on line k apply to diagnostic (code, L)?
    /\ HasIgnore(c.lines[k]) /\ Matches(c.lines[k].ign, code)
    /\ \/ c.lines[k].kind = "own" /\ RefLeading(c, k)
       \/ c.lines[k].kind = "code" /\ k = L
       \/ c.lines[k].kind = "own" /\ k + 1 = L

RefEnabledRaw(c) == {d \in {Raw(c)[i] : i \in 1..Len(Raw(c))} : d.code \notin c.disabled}
RefSuppressors(c, d) == {k \in 1..Len(c.lines) : RefApplies(c, k, d.code, d.line)}
RefReported(c) == {d \in RefEnabledRaw(c) : RefSuppressors(c, d) = {}}

RefBareFileLevel(c) == \E k \in 1..Len(c.lines) : c.lines[k].kind = "own" /\ c.lines[k].ign = "bare" /\ RefLeading(c, k)
RefCommentLines(c) == {k \in 1..Len(c.lines) : HasIgnore(c.lines[k])}
RefMustBeUnused(c, k) == \A d \in RefEnabledRaw(c) : k \notin RefSuppressors(c, d)
RefMustBeUsed(c, k) == \E d \in RefEnabledRaw(c) : RefSuppressors(c, d) = {k}
RefMetaOn(c) == ~RefBareFileLevel(c)      \* a blanket file-level ignore also silences the meta codes
RefBareReported(c) == IF c.bare_on /\ RefMetaOn(c) THEN {k \in RefCommentLines(c) : c.lines[k].ign = "bare"} ELSE {}

\* judge an output (a set of [code, line]) against the reference; `codes` = the codes statements can
\* raise in the universe the file was drawn from (SuppressionRoutes.tla uses a larger one)
OutputOKFor(c, out, codes) ==
    /\ {d \in out : d.code \in codes} = RefReported(c)
    /\ \A k \in RefCommentLines(c) :
         LET rep == [code |-> "unused_ignore", line |-> k] \in out
         IN IF ~(c.unused_on /\ RefMetaOn(c)) THEN ~rep
            ELSE /\ (RefMustBeUnused(c, k) => rep)
                 /\ (RefMustBeUsed(c, k) => ~rep)
    /\ {d.line : d \in {e \in out : e.code = "bare_ignore"}} = RefBareReported(c)
    /\ \A d \in out : d.code \in codes \cup {"unused_ignore", "bare_ignore"}
    /\ \A d \in {e \in out : e.code = "unused_ignore"} : d.line \in RefCommentLines(c)
OutputOK(c, out) == OutputOKFor(c, out, Codes)

(***************************************************************************)
(* The machine: generator stages, then one step per show_error call.       *)
(***************************************************************************)
CONSTANTS MaxLines, Pinned

VARIABLES case, pc, i, ms
vars == <<case, pc, i, ms>>

BlankMS == [used |-> {}, seen |-> {}, out |-> << >>]
Blank == [lines |-> << >>, disabled |-> {}, unused_on |-> FALSE, bare_on |-> FALSE]

Init == case = Blank /\ pc = "lines" /\ i = 0 /\ ms = BlankMS

AddLine ==
    /\ pc = "lines" /\ Len(case.lines) < MaxLines
    /\ \E ln \in LineSpace : case' = [case EXCEPT !.lines = Append(@, ln)]
    /\ UNCHANGED <<pc, i, ms>>

ChooseSettings ==
    /\ pc = "lines" /\ Len(case.lines) >= 1
    /\ \E dis \in SUBSET Codes, u \in BOOLEAN, b \in BOOLEAN :
         case' = [case EXCEPT !.disabled = dis, !.unused_on = u, !.bare_on = b]
    /\ pc' = "diags" /\ i' = 1 /\ UNCHANGED ms

\* one action per return path of show_error, all sharing ImplShow
ShowStep(decision) ==
    /\ pc = "diags" /\ i <= Len(Raw(case))
    /\ LET d == Raw(case)[i]
           r == ImplShow(case, ms, d.code, d.line, Pinned)
       IN r.decision = decision /\ ms' = r.ms
    /\ i' = i + 1 /\ UNCHANGED <<case, pc>>

ShowDisabled == ShowStep("disabled")
ShowFileIgnore == ShowStep("file_ignore")
ShowDuplicate == ShowStep("duplicate")
ShowThisLine == ShowStep("this_line")
ShowPrevLine == ShowStep("prev_line")
ShowEmitted == ShowStep("emitted")

UnusedPass ==
    /\ pc = "diags" /\ i > Len(Raw(case))
    /\ ms' = [ms EXCEPT !.out = @ \o ImplUnusedFrom(case, ms.used, 1)]
    /\ pc' = "bare" /\ UNCHANGED <<case, i>>

BarePass ==
    /\ pc = "bare"
    /\ ms' = [ms EXCEPT !.out = @ \o ImplBare(case)]
    /\ pc' = "done" /\ UNCHANGED <<case, i>>

Next == AddLine \/ ChooseSettings \/ ShowDisabled \/ ShowFileIgnore \/ ShowDuplicate \/ ShowThisLine
        \/ ShowPrevLine \/ ShowEmitted \/ UnusedPass \/ BarePass

OutSet(m) == {m.out[j] : j \in 1..Len(m.out)}

(***************************************************************************)
(* Properties                                                              *)
(***************************************************************************)
ProjectionOK == pc = "done" => OutputOK(case, OutSet(ms))

\* used_ignores only ever holds lines that carry an ignore comment (or the pinned wrap marker 0)
UsedAreComments == \A k \in ms.used : k = 0 \/ HasIgnore(case.lines[k])
=============================================================================
