------------------------------- MODULE Assign -------------------------------
(***************************************************************************)
(* Assignability (properties C03, C04): ImplCA(A, B, x) transcribes the    *)
(* can_assign dispatch of pyanalyze/value.py and TypeObject.can_assign of  *)
(* pyanalyze/type_object.py on the term universe of Values.tla.  x = TRUE  *)
(* is the "Any only matches Any" mode (ctx.should_exclude_any()).  The     *)
(* result is a BOOLEAN (the universe has no type variables, so the bounds  *)
(* maps the real code returns are always empty).                           *)
(***************************************************************************)
EXTENDS ValueAlgebra

TypedFamily == {"typed", "newtype", "generic", "seq", "typeddict"}      \* subclasses of TypedValue

\* ---- type_object.py ------------------------------------------------------
IsProtocol(c) == c = "Iterable"          \* per typeshed; Sequence and Mapping are ABCs, not protocols
HasIter(c) == IsSubclass(c, "Iterable")  \* classes of the universe whose instances define __iter__
\* What the attribute lookup behind _is_compatible_with_protocol finds: for an instance of an Enum class
\* it also finds EnumType.__iter__, a method of the METACLASS (known deviation, see known_findings.jsonl)
ImplHasIter(c) == HasIter(c) \/ c = "Color"

\* TypeObject.__post_init__ (type_object.py:77): int -> float, complex; float -> complex
ArtificialBases(c) ==
    (IF IsSubclass(c, "int") THEN {"float", "complex"} ELSE {})
    \cup (IF IsSubclass(c, "float") THEN {"complex"} ELSE {})

\* TypeObject.can_assign (type_object.py:113)
\* (otherKnown: the other value is a literal -- its attributes are then looked up on the object itself)
ImplTObjCAx(selfc, otherc, otherKnown) ==
    IF ~IsProtocol(selfc)
    THEN IF IsProtocol(otherc) THEN selfc = "object"
         ELSE \E base \in {otherc} \cup ArtificialBases(otherc) : IsSubclass(base, selfc)
    ELSE IF otherKnown THEN HasIter(otherc) ELSE ImplHasIter(otherc)

\* ---- helpers of value.py ---------------------------------------------------
\* replace_known_sequence_value (value.py:3309); a literal dict becomes a DictIncompleteValue whose
\* generic arguments are the united key / value literals
ImplTObjCA(selfc, otherc) == ImplTObjCAx(selfc, otherc, FALSE)

ImplReplaceKnown(B) ==
    IF B.k = "known" /\ B.o.c \in {"list", "tuple", "set"}
    THEN SeqT(B.o.c, [i \in 1..Len(B.o.items) |-> One(Known(B.o.items[i]))])
    ELSE IF B.k = "known" /\ B.o.c = "dict"
    THEN Generic("dict", IF B.o.items = << >> THEN <<AnyU, AnyU>>
                         ELSE << ImplUnite([i \in 1..Len(B.o.items) |-> Known(B.o.items[i].key)]),
                                 ImplUnite([i \in 1..Len(B.o.items) |-> Known(B.o.items[i].val)]) >>)
    ELSE B

NParams(c) == CASE c \in {"list", "set", "tuple", "Sequence", "Iterable"} -> 1
                [] c \in {"dict", "Mapping"} -> 2
                [] OTHER -> 0

\* GenericValue.args of a TypedValue-family term
ImplOwnArgs(B) ==
    CASE B.k = "generic" -> B.args
      [] B.k = "seq" -> IF B.ms = << >> THEN <<AnyU>> ELSE << ImplUnite([i \in 1..Len(B.ms) |-> B.ms[i].t]) >>
      \* TypedDictValue.__init__ (value.py:1427): GenericValue(dict, (str, union of the entry types))
      [] B.k = "typeddict" -> << Typed("str"), IF B.items = << >> THEN AnyU ELSE ImplUnite([i \in 1..Len(B.items) |-> B.items[i].t]) >>
      [] OTHER -> [i \in 1..NParams(B.c) |-> AnyG]     \* bare class: missing arguments are Any

\* TypedValue.get_generic_args_for_type (value.py:922) over the typeshed generic bases;
\* [found |-> FALSE] stands for None (c is not a generic base of B's class)
Found(args) == [found |-> TRUE, args |-> args]
NotFound == [found |-> FALSE, args |-> << >>]
ImplGenericArgsFor(B, c) ==
    LET own == ImplOwnArgs(B)
    IN IF B.c = c THEN Found(own)
       ELSE IF B.c \in {"list", "tuple", "Sequence"} /\ c \in {"Sequence", "Iterable"} /\ IsSubclass(B.c, c) THEN Found(<<own[1]>>)
       ELSE IF B.c = "set" /\ c = "Iterable" THEN Found(<<own[1]>>)
       ELSE IF B.c = "str" /\ c \in {"Sequence", "Iterable"} THEN Found(<<Typed("str")>>)
       ELSE IF B.c = "dict" /\ c = "Mapping" THEN Found(own)
       ELSE IF B.c \in {"dict", "Mapping"} /\ c = "Iterable" THEN Found(<<own[1]>>)
       ELSE IF c = "object" THEN Found(<< >>)
       ELSE NotFound

RECURSIVE ImplCA(_, _, _), ImplBaseCA(_, _, _), ImplTypedCA(_, _, _), ImplGenericCA(_, _, _), ImplSeqCA(_, _, _),
          ImplUnionCA(_, _, _), ImplTDCA(_, _, _)

\* Value.can_assign (value.py:89)
ImplBaseCA(A, B, x) ==
    IF B.k = "any" /\ ~x THEN TRUE
    ELSE IF B.k = "union" THEN \A i \in 1..Len(B.ms) : ImplCA(A, B.ms[i], x)     \* Never (empty) included
    ELSE ImplEq(A, B)

\* TypedValue.can_assign (value.py:819)
ImplTypedCA(A, B, x) ==
    CASE B.k = "known" -> ImplTObjCAx(A.c, B.o.c, TRUE) \/ IsInstance(B.o, A.c)       \* is_instance rescue (value.py:830)
      [] B.k \in TypedFamily -> ImplTObjCA(A.c, B.c)
      [] B.k = "subclass" -> IF B.t.k = "typed" THEN ImplTObjCA(A.c, "type") ELSE TRUE
      [] OTHER -> ImplBaseCA(A, B, x)

\* GenericValue.can_assign (value.py:1042)
ImplGenericCA(A, B, x) ==
    LET B1 == ImplReplaceKnown(B)
        B2 == IF B1.k = "known" THEN Typed(B1.o.c) ELSE B1
    IN IF B2.k \in TypedFamily
       THEN LET ga == ImplGenericArgsFor(B2, A.c)
                myargs == ImplOwnArgs(A)
            IN IF ~ga.found \/ Len(ga.args) # Len(myargs)
               THEN /\ ImplTypedCA(A, B, x)
                    \* (structural check with self_val = Iterable[T]: the __iter__ found on the enum's metaclass returns
                    \*  Iterator[_EnumMemberT] with the type variable unsolved, which is matched like object)
                    /\ (A.k = "generic" /\ IsProtocol(A.c) /\ B2.c = "Color") => ImplCA(A.args[1], Typed("object"), x)
               ELSE IF Len(ga.args) = 0 THEN FALSE
               ELSE \A i \in 1..Len(ga.args) : ImplCA(myargs[i], ga.args[i], x)
       ELSE ImplTypedCA(A, B, x)

\* SequenceValue.can_assign (value.py:1214)
ImplSeqCA(A, B, x) ==
    LET B1 == ImplReplaceKnown(B)
    IN IF B1.k = "seq"
       THEN /\ ImplTObjCA(A.c, B1.c)
            /\ Len(A.ms) = Len(B1.ms)
            /\ \A i \in 1..Len(A.ms) : A.ms[i].many = B1.ms[i].many /\ ImplCA(A.ms[i].t, B1.ms[i].t, x)
       ELSE ImplGenericCA(A, B1, x)

\* MultiValuedValue.can_assign (value.py:1992)
ImplUnionCA(A, B, x) ==
    IF B.k = "union" THEN \A i \in 1..Len(B.ms) : ImplUnionCA(A, B.ms[i], x)
    ELSE IF B.k = "any" /\ ~x THEN TRUE
    ELSE \E i \in 1..Len(A.ms) : ImplCA(A.ms[i], B, x)

\* TypedDictValue.can_assign (value.py:1464); both sides open (extra_keys None)
\* (FixTDStringKeys = FALSE is the behaviour before the repair "fix: TypedDict rejects a literal dict with a
\*  non-string key": kept as a sensitivity switch)
FixTDStringKeys == TRUE
TDIdx(B, key) == LET hits == {i \in 1..Len(B.items) : B.items[i].key = key} IN IF hits = {} THEN 0 ELSE CHOOSE i \in hits : TRUE
ImplTDCA(A, B, x) ==
    IF B.k = "typeddict"
    THEN \A i \in 1..Len(A.items) :                                         \* value.py:1530-1584
            LET e == A.items[i]
                j == TDIdx(B, e.key)
            IN IF j = 0
               THEN ~e.req /\ e.ro /\ ImplCA(e.t, Typed("object"), x)         \* other.extra_keys or TypedValue(object)
               ELSE LET f == B.items[j]
                    IN /\ ~(e.req /\ ~f.req)
                       /\ ~(~e.req /\ ~e.ro /\ f.req)
                       /\ ~(~e.ro /\ f.ro)
                       /\ ImplCA(e.t, f.t, x)
                       /\ (e.ro \/ ImplCA(f.t, e.t, x))
    ELSE IF B.k = "known" /\ B.o.c = "dict"
    THEN /\ (FixTDStringKeys => \A kk \in DictKeys(B.o) : kk.c = "str")      \* value.py:1612 (fix: non-string keys)
         /\ \A i \in 1..Len(A.items) :                                      \* value.py:1605-1618
            LET e == A.items[i]
                hits == {j \in 1..Len(B.o.items) : B.o.items[j].key.c = "str" /\ B.o.items[j].key.v = e.key}
            IN IF hits = {} THEN ~e.req
               ELSE \A j \in hits : ImplCA(e.t, Known(B.o.items[j].val), x)
    ELSE ImplGenericCA(A, B, x)                                              \* super().can_assign

ImplCA(A, B, x) ==
    CASE A.k = "any" -> TRUE                                             \* AnyValue.can_assign (value.py:424)
      [] A.k = "known" ->                                                \* KnownValue.can_assign (value.py:582)
            IF B.k = "known" /\ KVEq(A.o, B.o) THEN TRUE ELSE ImplBaseCA(A, B, x)
      [] A.k = "typed" -> ImplTypedCA(A, B, x)
      [] A.k = "newtype" ->                                              \* NewTypeValue.can_assign (value.py:991)
            IF B.k = "newtype" THEN A.n = B.n
            ELSE IF B.k \in TypedFamily /\ A.c # B.c THEN FALSE
            ELSE IF B.k = "known" /\ A.c # B.o.c THEN FALSE
            ELSE ImplTypedCA(A, B, x)
      [] A.k = "generic" -> ImplGenericCA(A, B, x)
      [] A.k = "seq" -> ImplSeqCA(A, B, x)
      [] A.k = "subclass" ->                                             \* SubclassValue.can_assign (value.py:1862)
            IF B.k = "subclass" THEN ImplCA(A.t, B.t, x)
            ELSE IF B.k = "known" /\ B.o.c = "type" /\ A.t.k = "typed" THEN ImplTObjCA(A.t.c, B.o.v)
            ELSE IF B.k \in TypedFamily /\ B.c = "type" THEN TRUE
            ELSE ImplBaseCA(A, B, x)
      [] A.k = "union" -> ImplUnionCA(A, B, x)
      [] A.k = "typeddict" -> ImplTDCA(A, B, x)

(***************************************************************************)
(* What the properties demand                                              *)
(***************************************************************************)
RECURSIVE HasAny(_)
HasAny(T) ==
    CASE T.k = "any" -> TRUE
      [] T.k = "generic" -> \E i \in 1..Len(T.args) : HasAny(T.args[i])
      [] T.k = "seq" -> \E i \in 1..Len(T.ms) : HasAny(T.ms[i].t)
      [] T.k = "subclass" -> HasAny(T.t)
      [] T.k = "union" -> \E i \in 1..Len(T.ms) : HasAny(T.ms[i])
      [] OTHER -> FALSE

\* documented leniencies excluded from Sound (DESIGN.md C04): a bare generic class stands for G[Any]
RECURSIVE HasBareGeneric(_)
HasBareGeneric(T) ==
    CASE T.k = "typed" -> NParams(T.c) > 0 \/ T.c = "type"      \* plain `type` is type[Any] (value.py:1833)
      [] T.k = "generic" -> \E i \in 1..Len(T.args) : HasBareGeneric(T.args[i])
      [] T.k = "seq" -> \E i \in 1..Len(T.ms) : HasBareGeneric(T.ms[i].t)
      [] T.k = "subclass" -> HasBareGeneric(T.t)
      [] T.k = "union" -> \E i \in 1..Len(T.ms) : HasBareGeneric(T.ms[i])
      [] OTHER -> FALSE

\* ... and a fixed-shape tuple/list type accepts a variadic tuple[T, ...] / list[T] of compatible element type
RECURSIVE HasSeq(_), HasVariadic(_)
HasSeq(T) ==
    CASE T.k = "seq" -> TRUE
      [] T.k = "generic" -> \E i \in 1..Len(T.args) : HasSeq(T.args[i])
      [] T.k = "subclass" -> HasSeq(T.t)
      [] T.k = "union" -> \E i \in 1..Len(T.ms) : HasSeq(T.ms[i])
      [] OTHER -> FALSE
HasVariadic(T) ==
    CASE T.k = "generic" -> T.c \in {"tuple", "list", "set"} \/ \E i \in 1..Len(T.args) : HasVariadic(T.args[i])
      [] T.k = "seq" -> \E i \in 1..Len(T.ms) : HasVariadic(T.ms[i].t)
      [] T.k = "subclass" -> HasVariadic(T.t)
      [] T.k = "union" -> \E i \in 1..Len(T.ms) : HasVariadic(T.ms[i])
      [] OTHER -> FALSE
\* ... and a NewType accepts plain values of its supertype (value.py:1000 "Allow e.g. int for a NewType over int")
RECURSIVE HasNewType(_)
HasNewType(T) ==
    CASE T.k = "newtype" -> TRUE
      [] T.k = "generic" -> \E i \in 1..Len(T.args) : HasNewType(T.args[i])
      [] T.k = "seq" -> \E i \in 1..Len(T.ms) : HasNewType(T.ms[i].t)
      [] T.k = "subclass" -> HasNewType(T.t)
      [] T.k = "union" -> \E i \in 1..Len(T.ms) : HasNewType(T.ms[i])
      [] OTHER -> FALSE
Lenient(A, B) == HasBareGeneric(A) \/ HasBareGeneric(B) \/ (HasSeq(A) /\ HasVariadic(B)) \/ HasNewType(A)

\* the static types C03 quantifies over: what an annotation can say with classes, Literal, unions,
\* list/set/dict/tuple generics, fixed and variadic tuples, Sequence/Mapping/Iterable, NewType, type[...]
RECURSIVE C03Domain(_)
C03Domain(T) ==
    CASE T.k = "any" -> FALSE
      [] T.k = "known" -> T.o.c \in {"int", "bool", "str", "NoneType", "Color"}
      [] T.k = "generic" -> \A i \in 1..Len(T.args) : C03Domain(T.args[i])
      [] T.k = "seq" -> T.c = "tuple" /\ \A i \in 1..Len(T.ms) : ~T.ms[i].many /\ C03Domain(T.ms[i].t)
      [] T.k = "subclass" -> C03Domain(T.t)
      [] T.k = "union" -> \A i \in 1..Len(T.ms) : C03Domain(T.ms[i])
      [] OTHER -> TRUE

\* Known deviation: an Enum *instance* type is accepted where the Iterable protocol is expected, because
\* the protocol member __iter__ is found on the enum's metaclass.
RECURSIVE Mentions(_, _)
Mentions(T, cls) ==
    CASE T.k \in {"typed", "newtype"} -> T.c = cls
      [] T.k = "generic" -> T.c = cls \/ \E i \in 1..Len(T.args) : Mentions(T.args[i], cls)
      [] T.k = "seq" -> T.c = cls \/ \E i \in 1..Len(T.ms) : Mentions(T.ms[i].t, cls)
      [] T.k = "subclass" -> Mentions(T.t, cls)
      [] T.k = "union" -> \E i \in 1..Len(T.ms) : Mentions(T.ms[i], cls)
      [] OTHER -> FALSE
Dev_EnumMetaclassProtocol(A, B) == Mentions(A, "Iterable") /\ Mentions(B, "Color")

\* Known deviation: KnownValue equality compares the outer type only ((1,) == (1.0,) == (True,)), so hashable sibling
\* literals that are equal in Python but differ in element types are merged by unite_values when a literal container is
\* turned into a SequenceValue / DictIncompleteValue, and only the first one is checked against the element type.
RECURSIVE HasMergedSiblings(_)
Elems(o) == IF o.c = "dict" THEN [i \in 1..Len(o.items) |-> o.items[i].val] ELSE o.items
IsHashableObj(o) == o.c \notin {"list", "dict", "set"}
HasMergedSiblings(o) ==
    LET es == Elems(o)
    IN \/ \E i \in 1..Len(es) : \E j \in 1..Len(es) :
            i # j /\ es[i] # es[j] /\ KVEq(es[i], es[j]) /\ IsHashableObj(es[i]) /\ IsHashableObj(es[j])
       \/ \E i \in 1..Len(es) : HasMergedSiblings(es[i])
Dev_MergedSiblingLiterals(o) == HasMergedSiblings(o)

\* objects the assignability properties quantify over: the shared universe plus the dicts for the TypedDict terms
AObjects == Objects \cup TDObjs

\* Known deviation: a TypedDict is built as GenericValue(dict, (str, union of the entry types)) and falls back to
\* GenericValue.can_assign (value.py:1632), so (1) a TypedDict accepts a plain dict[str, V] / dict whose value type fits
\* although such a dict need not have the required keys, and (2) dict[str, V] / Mapping[str, V] accepts a TypedDict whose
\* declared value types fit V although undeclared keys of an open TypedDict may hold anything.
RECURSIVE MentionsTD(_)
MentionsTD(T) ==
    CASE T.k = "typeddict" -> TRUE
      [] T.k = "generic" -> \E i \in 1..Len(T.args) : MentionsTD(T.args[i])
      [] T.k = "seq" -> \E i \in 1..Len(T.ms) : MentionsTD(T.ms[i].t)
      [] T.k = "subclass" -> MentionsTD(T.t)
      [] T.k = "union" -> \E i \in 1..Len(T.ms) : MentionsTD(T.ms[i])
      [] OTHER -> FALSE
PlainDictish(T) == Mentions(T, "dict") \/ Mentions(T, "Mapping")
Dev_TypedDictAsPlainDict(A, B) == (MentionsTD(A) /\ PlainDictish(B)) \/ (PlainDictish(A) /\ MentionsTD(B))

C03_Exact(A, o) == ImplCA(A, Known(o), FALSE) = Member(o, A)
C04_Sound(A, B) == (ImplCA(A, B, FALSE) /\ ~Lenient(A, B) /\ ~Dev_EnumMetaclassProtocol(A, B) /\ ~Dev_TypedDictAsPlainDict(A, B)) => \A o \in AObjects : Member(o, B) => Member(o, A)
C04_Refl(A) == ImplCA(A, A, FALSE)
C04_NeverBottom(A) == ImplCA(A, Never, FALSE)
C04_ObjectTop(B) == ImplCA(Typed("object"), B, FALSE)
C04_UnionLeft(A, B) == B.k = "union" => (ImplCA(A, B, FALSE) <=> \A i \in 1..Len(B.ms) : ImplCA(A, B.ms[i], FALSE))
C04_UnionRight(A, B) == A.k = "union" => ((\E i \in 1..Len(A.ms) : ImplCA(A.ms[i], B, FALSE)) => ImplCA(A, B, FALSE))
C04_AnyBoth(A) == ImplCA(AnyT, A, FALSE) /\ ImplCA(A, AnyT, FALSE)
C04_ExcludeAnyMonotone(A, B) == ImplCA(A, B, TRUE) => ImplCA(A, B, FALSE)

(***************************************************************************)
(* Generator: choose A, then B                                             *)
(***************************************************************************)
CONSTANTS Mode,     \* "pairs" (C04) or "objects" (C03)
          Depth    \* 1: A, B from D1;  2: A from D1 \cup D2Static, B from D1 \cup D2Static (sampled by simulation)

VARIABLES stage, ta, tb, ob
vars == <<stage, ta, tb, ob>>

\* unions of two (three) literals of ONE run-time type, in every order: "a union is accepted exactly when each member
\* is" must not depend on a literal's position or on an earlier literal of the same type (ints, strs, bools, enum members,
\* lists / tuples / dicts that differ in their element types)
LitU2(a, b) == {Union(<<Known(a), Known(b)>>), Union(<<Known(b), Known(a)>>)}
SameTypeLitUnions ==
    LitU2(I1, I0) \cup LitU2(SA, SE) \cup LitU2(BT, BF) \cup LitU2(RED, GREEN)
    \cup LitU2(Cont("list", <<I1>>), Cont("list", <<SA>>)) \cup LitU2(Cont("tuple", <<I1, SA>>), Cont("tuple", << >>))
    \cup LitU2(Cont("dict", <<KV(SA, I1)>>), Cont("dict", <<KV(I1, SA)>>))
    \cup {Union(<<Known(I1), Known(SA), Known(I0)>>), Union(<<Known(I0), Known(I1), Known(Obj("int", "2"))>>)}
Space == (IF Depth = 1 THEN D1 ELSE D1 \cup D2Static) \cup TDTerms \cup SameTypeLitUnions

Init == stage = "a" /\ ta = Never /\ tb = Never /\ ob = NONE
ChooseA == stage = "a" /\ \E t \in Space : ta' = t /\ stage' = "b" /\ UNCHANGED <<tb, ob>>
ChooseB == Mode = "pairs" /\ stage = "b" /\ \E t \in Space : tb' = t /\ stage' = "done" /\ UNCHANGED <<ta, ob>>
\* C03: pair the type with every object of the universe
ChooseObj == Mode = "objects" /\ stage = "b" /\ C03Domain(ta) /\ \E o \in AObjects : ob' = o /\ stage' = "doneobj" /\ UNCHANGED <<ta, tb>>
Next == ChooseA \/ ChooseB \/ ChooseObj

Static(T) == ~HasAny(T)
Done == stage = "done"

(***************************************************************************)
(* Invariants over the generated pairs                                     *)
(***************************************************************************)
InvSound == (Done /\ Static(ta) /\ Static(tb)) => C04_Sound(ta, tb)
InvSoundStrict == (Done /\ Static(ta) /\ Static(tb) /\ ImplCA(ta, tb, FALSE) /\ ~Lenient(ta, tb)) => \A o \in AObjects : Member(o, tb) => Member(o, ta)
InvSoundNoLeniency == (Done /\ Static(ta) /\ Static(tb) /\ ImplCA(ta, tb, FALSE)) => \A o \in AObjects : Member(o, tb) => Member(o, ta)
InvRefl == stage = "b" => C04_Refl(ta)
InvNeverBottom == stage = "b" => C04_NeverBottom(ta)
InvObjectTop == (stage = "b" /\ Static(ta)) => C04_ObjectTop(ta)
InvUnionLeft == Done => C04_UnionLeft(ta, tb)
InvUnionRight == Done => C04_UnionRight(ta, tb)
InvAnyBoth == stage = "b" => C04_AnyBoth(ta)
InvExcludeAnyMonotone == Done => C04_ExcludeAnyMonotone(ta, tb)
InvObjExact == stage = "doneobj" => (C03_Exact(ta, ob) \/ Dev_MergedSiblingLiterals(ob))
InvObjExactStrict == stage = "doneobj" => C03_Exact(ta, ob)
InvLiteralExact == (stage = "b" /\ C03Domain(ta)) => \A o \in AObjects : (C03_Exact(ta, o) \/ Dev_MergedSiblingLiterals(o))
=============================================================================
