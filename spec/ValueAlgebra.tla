---------------------------- MODULE ValueAlgebra ----------------------------
(***************************************************************************)
(* Equality, hashing and union of Values as implemented in                 *)
(* pyanalyze/value.py (property C14), over the term universe of Values.tla.*)
(***************************************************************************)
EXTENDS Values

IsUnion(v) == v.k = "union"
IsUnhashableKnown(v) == v.k = "known" /\ v.o.c \in {"list", "dict", "set"}

(***************************************************************************)
(* Impl: Value.__eq__                                                      *)
(*   dataclass equality (same class, equal fields) everywhere, except      *)
(*   KnownValue.__eq__ (value.py:622: same type and equal value) and       *)
(*   MultiValuedValue.__eq__ (value.py:2054: equal tuples, or equal *sets* *)
(*   of members when every member is hashable).                            *)
(***************************************************************************)
\* hash(a) = hash(b)?  Generated dataclass hashes are structural; MultiValuedValue.__hash__ hashes the
\* frozenset of the members (order-insensitive, consistent with __eq__); KnownValue of an unhashable
\* object hashes by id() (value.py:636), i.e. two separately created literals never hash alike.
RECURSIVE HasUnhashableKnown(_)
HasUnhashableKnown(v) ==
    CASE v.k = "known"    -> IsUnhashableKnown(v)
      [] v.k = "generic"  -> \E i \in 1..Len(v.args) : HasUnhashableKnown(v.args[i])
      [] v.k = "seq"      -> \E i \in 1..Len(v.ms) : HasUnhashableKnown(v.ms[i].t)
      [] v.k = "subclass" -> HasUnhashableKnown(v.t)
      [] v.k = "union"    -> \E i \in 1..Len(v.ms) : HasUnhashableKnown(v.ms[i])
      [] v.k = "dictinc"  -> \E i \in 1..Len(v.kvs) : HasUnhashableKnown(v.kvs[i].key) \/ HasUnhashableKnown(v.kvs[i].val)
      [] OTHER            -> FALSE
\* structural equality in which the members of a union form a set
RECURSIVE StructEq(_, _)
StructEq(a, b) ==
    IF a.k # b.k THEN FALSE
    ELSE CASE a.k = "generic"  -> a.c = b.c /\ Len(a.args) = Len(b.args) /\ \A i \in 1..Len(a.args) : StructEq(a.args[i], b.args[i])
           [] a.k = "seq"      -> a.c = b.c /\ Len(a.ms) = Len(b.ms)
                                  /\ \A i \in 1..Len(a.ms) : a.ms[i].many = b.ms[i].many /\ StructEq(a.ms[i].t, b.ms[i].t)
           [] a.k = "subclass" -> StructEq(a.t, b.t)
           \* TypedDictValue.__hash__ hashes the sorted key names only (value.py:1699)
           [] a.k = "typeddict" -> {a.items[i].key : i \in 1..Len(a.items)} = {b.items[i].key : i \in 1..Len(b.items)}
           [] a.k = "union"    -> /\ \A i \in 1..Len(a.ms) : \E j \in 1..Len(b.ms) : StructEq(a.ms[i], b.ms[j])
                                  /\ \A j \in 1..Len(b.ms) : \E i \in 1..Len(a.ms) : StructEq(a.ms[i], b.ms[j])
           \* DictIncompleteValue: dataclass hash over (typ, args, kv_pairs); KVPair is a frozen dataclass
           [] a.k = "dictinc"  -> Len(a.kvs) = Len(b.kvs)
                                  /\ \A i \in 1..Len(a.kvs) : /\ a.kvs[i].many = b.kvs[i].many /\ a.kvs[i].req = b.kvs[i].req
                                                              /\ StructEq(a.kvs[i].key, b.kvs[i].key) /\ StructEq(a.kvs[i].val, b.kvs[i].val)
           [] a.k = "known"    -> KVEq(a.o, b.o)      \* hash((type(val), val)): 1, 1.0 and True hash alike
           [] OTHER            -> a = b
ImplSameHash(a, b) == StructEq(a, b) /\ ~HasUnhashableKnown(a)

RECURSIVE ImplEq(_, _), ImplEqSeq(_, _), ImplEqMembers(_, _), ImplHashable(_)

\* can hash(v) be computed?  KnownValue falls back to id() (value.py:632), so every Value of this
\* universe is hashable; kept as an operator because MultiValuedValue.__eq__ depends on it.
ImplHashable(v) == TRUE

ImplEqSeq(s, t) == Len(s) = Len(t) /\ \A i \in 1..Len(s) : ImplEq(s[i], t[i])
ImplEqMembers(s, t) == Len(s) = Len(t) /\ \A i \in 1..Len(s) : s[i].many = t[i].many /\ ImplEq(s[i].t, t[i].t)

ImplEq(a, b) ==
    IF a.k # b.k THEN FALSE
    ELSE CASE a.k = "any"      -> a.src = b.src
           [] a.k = "known"    -> KVEq(a.o, b.o)
           [] a.k = "typed"    -> a.c = b.c
           [] a.k = "newtype"  -> a.c = b.c            \* inherited dataclass __eq__ compares typ only
           [] a.k = "generic"  -> a.c = b.c /\ ImplEqSeq(a.args, b.args)
           [] a.k = "seq"      -> a.c = b.c /\ ImplEqMembers(a.ms, b.ms)
           [] a.k = "subclass" -> ImplEq(a.t, b.t)
           [] a.k = "typevar"  -> a.n = b.n          \* TypeVarValue (terms of Algebra.tla only)
           \* TypedDictValue: dataclass equality over the items dict (order of the keys is irrelevant)
           [] a.k = "typeddict" ->
                /\ {a.items[i].key : i \in 1..Len(a.items)} = {b.items[i].key : i \in 1..Len(b.items)}
                /\ \A i \in 1..Len(a.items) : \A j \in 1..Len(b.items) :
                      a.items[i].key = b.items[j].key => (a.items[i].req = b.items[j].req /\ a.items[i].ro = b.items[j].ro
                                                          /\ ImplEq(a.items[i].t, b.items[j].t))
           \* DictIncompleteValue / KVPair: dataclass equality, pair by pair in order
           [] a.k = "dictinc" ->
                /\ Len(a.kvs) = Len(b.kvs)
                /\ \A i \in 1..Len(a.kvs) : /\ a.kvs[i].many = b.kvs[i].many /\ a.kvs[i].req = b.kvs[i].req
                                            /\ ImplEq(a.kvs[i].key, b.kvs[i].key) /\ ImplEq(a.kvs[i].val, b.kvs[i].val)
           [] a.k = "union"    ->
                \/ ImplEqSeq(a.ms, b.ms)
                \/ /\ \A i \in 1..Len(a.ms) : \E j \in 1..Len(b.ms) : ImplEq(a.ms[i], b.ms[j]) /\ ImplSameHash(a.ms[i], b.ms[j])
                   /\ \A j \in 1..Len(b.ms) : \E i \in 1..Len(a.ms) : ImplEq(a.ms[i], b.ms[j]) /\ ImplSameHash(a.ms[i], b.ms[j])

(***************************************************************************)
(* Impl: unite_values (value.py:2873)                                      *)
(***************************************************************************)
RECURSIVE Flatten(_)
Flatten(vals) ==          \* members of unions are spliced in (unions are never nested)
    IF vals = << >> THEN << >>
    ELSE (IF IsUnion(Head(vals)) THEN Head(vals).ms ELSE <<Head(vals)>>) \o Flatten(Tail(vals))

\* insertion-ordered de-duplication through a dict keyed by the values (hash + __eq__)
RECURSIVE Dedupe(_, _)
Dedupe(vals, acc) ==
    IF vals = << >> THEN acc
    ELSE LET v == Head(vals)
             dup == \E i \in 1..Len(acc) : ImplSameHash(acc[i], v) /\ ImplEq(acc[i], v)
         IN Dedupe(Tail(vals), IF dup THEN acc ELSE Append(acc, v))

IsUnreachableAny(v) == v.k = "any" /\ v.src = "unreachable"

ImplUnite(vals) ==
    LET existing == Dedupe(Flatten(vals), << >>)
        reachable == SelectSeq(existing, LAMBDA v : ~IsUnreachableAny(v))
    IN IF Len(reachable) = 0 THEN (IF Len(existing) > 0 THEN AnyU ELSE Never)
       ELSE IF Len(reachable) = 1 THEN reachable[1]
       ELSE Union(reachable)
=============================================================================
