---------------------------- MODULE ValueAlgebra ----------------------------
(***************************************************************************)
(* Equality, hashing and union of Values as implemented in                 *)
(* pyanalyze/value.py (property C14), over the term universe of Values.tla.*)
(***************************************************************************)
EXTENDS Values

IsUnion(v) == v.k = "union"
IsUnhashableKnown(v) == v.k = "known" /\ v.o.c \in {"list", "dict", "set"}

(***************************************************************************)
(* Impl: Value.__eq__                                                      *)
(*   dataclass equality (same class, equal fields) everywhere, except      *)
(*   KnownValue.__eq__ (value.py:622: same type and equal value) and       *)
(*   MultiValuedValue.__eq__ (value.py:2054: equal tuples, or equal *sets* *)
(*   of members when every member is hashable).                            *)
(***************************************************************************)
\* hash(a) = hash(b)?  Generated dataclass hashes are structural; MultiValuedValue.__hash__ hashes the
\* frozenset of the members (order-insensitive, consistent with __eq__); KnownValue of an unhashable
\* object hashes by id() (value.py:636), i.e. two separately created literals never hash alike.
\* is_asynq flag of a callable term (the field is present only when set)
SigAsynq(v) == "asynq" \in DOMAIN v /\ v.asynq
\* generated dataclass hashes do not include the class: TypeGuardExtension(t) / TypeIsExtension(t) hash alike, and so do
\* ParameterTypeGuardExtension(name, t) / NoReturnGuardExtension(name, t)
MdHashKey(x) == CASE x \in {"typeguard", "typeis"} -> "guard1" [] x \in {"paramguard", "noreturnguard"} -> "guard2" [] OTHER -> x
RECURSIVE HasUnhashableKnown(_)
HasUnhashableKnown(v) ==
    CASE v.k = "known"    -> IsUnhashableKnown(v)
      [] v.k = "generic"  -> \E i \in 1..Len(v.args) : HasUnhashableKnown(v.args[i])
      [] v.k = "seq"      -> \E i \in 1..Len(v.ms) : HasUnhashableKnown(v.ms[i].t)
      [] v.k = "subclass" -> HasUnhashableKnown(v.t)
      [] v.k = "union"    -> \E i \in 1..Len(v.ms) : HasUnhashableKnown(v.ms[i])
      [] v.k = "dictinc"  -> \E i \in 1..Len(v.kvs) : HasUnhashableKnown(v.kvs[i].key) \/ HasUnhashableKnown(v.kvs[i].val)
      \* C14 wide terms (SubstContexts.tla; add-only arms, no term of the older spaces has these kinds)
      [] v.k = "callable" -> HasUnhashableKnown(v.ret) \/ \E i \in 1..Len(v.ps) : v.ps[i].t # << >> /\ HasUnhashableKnown(v.ps[i].t[1])
      [] v.k = "annotated" -> HasUnhashableKnown(v.t) \/ \E i \in 1..Len(v.md) : HasUnhashableKnown(v.md[i].t)
      [] v.k \in {"unpacked", "asynctask", "exactly"} -> HasUnhashableKnown(v.t)
      [] OTHER            -> FALSE
\* structural equality in which the members of a union form a set
RECURSIVE StructEq(_, _)
StructEq(a, b) ==
    \* (C14 wide terms) a TypedDict with and one without extra keys hash alike when their key names agree
    IF a.k # b.k THEN ({a.k, b.k} = {"typeddict", "tdx"} /\ {a.items[i].key : i \in 1..Len(a.items)} = {b.items[i].key : i \in 1..Len(b.items)})
    ELSE CASE a.k = "generic"  -> a.c = b.c /\ Len(a.args) = Len(b.args) /\ \A i \in 1..Len(a.args) : StructEq(a.args[i], b.args[i])
           [] a.k = "seq"      -> a.c = b.c /\ Len(a.ms) = Len(b.ms)
                                  /\ \A i \in 1..Len(a.ms) : a.ms[i].many = b.ms[i].many /\ StructEq(a.ms[i].t, b.ms[i].t)
           [] a.k = "subclass" -> StructEq(a.t, b.t)
           \* TypedDictValue.__hash__ hashes the sorted key names only (value.py:1699)
           [] a.k = "typeddict" -> {a.items[i].key : i \in 1..Len(a.items)} = {b.items[i].key : i \in 1..Len(b.items)}
           [] a.k = "union"    -> /\ \A i \in 1..Len(a.ms) : \E j \in 1..Len(b.ms) : StructEq(a.ms[i], b.ms[j])
                                  /\ \A j \in 1..Len(b.ms) : \E i \in 1..Len(a.ms) : StructEq(a.ms[i], b.ms[j])
           \* DictIncompleteValue: dataclass hash over (typ, args, kv_pairs); KVPair is a frozen dataclass
           [] a.k = "dictinc"  -> Len(a.kvs) = Len(b.kvs)
                                  /\ \A i \in 1..Len(a.kvs) : /\ a.kvs[i].many = b.kvs[i].many /\ a.kvs[i].req = b.kvs[i].req
                                                              /\ StructEq(a.kvs[i].key, b.kvs[i].key) /\ StructEq(a.kvs[i].val, b.kvs[i].val)
           [] a.k = "known"    -> KVEq(a.o, b.o)      \* hash((type(val), val)): 1, 1.0 and True hash alike
           \* ---- C14 wide terms (add-only arms)
           \* CallableValue: unsafe_hash over (typ, literal_only, signature); Signature.__hash__ (signature.py:578) hashes
           \* tuple(parameters.items()) IN ORDER, the return value and the flags; SigParameter: frozen dataclass hash
           [] a.k = "callable" -> /\ Len(a.ps) = Len(b.ps) /\ SigAsynq(a) = SigAsynq(b) /\ StructEq(a.ret, b.ret)
                                  /\ \A i \in 1..Len(a.ps) : /\ a.ps[i].n = b.ps[i].n /\ a.ps[i].kind = b.ps[i].kind /\ a.ps[i].d = b.ps[i].d
                                                              /\ Len(a.ps[i].t) = Len(b.ps[i].t)
                                                              /\ (a.ps[i].t # << >> => StructEq(a.ps[i].t[1], b.ps[i].t[1]))
           \* AnnotatedValue: frozen dataclass hash over (value, metadata tuple); extensions are frozen dataclasses
           [] a.k = "annotated" -> /\ StructEq(a.t, b.t) /\ Len(a.md) = Len(b.md)
                                   /\ \A i \in 1..Len(a.md) : MdHashKey(a.md[i].x) = MdHashKey(b.md[i].x) /\ StructEq(a.md[i].t, b.md[i].t)
           \* TypedDictValue with extra keys: __hash__ still hashes the sorted key names only
           [] a.k = "tdx"      -> {a.items[i].key : i \in 1..Len(a.items)} = {b.items[i].key : i \in 1..Len(b.items)}
           [] a.k \in {"unpacked", "asynctask", "exactly"} -> StructEq(a.t, b.t)
           \* KnownValueWithTypeVars: generated dataclass hash over (val,) -- differs from KnownValue.__hash__ (a.k # b.k above)
           [] a.k = "knowntv"  -> a.o = b.o
           [] OTHER            -> a = b
ImplSameHash(a, b) == StructEq(a, b) /\ ~HasUnhashableKnown(a)

RECURSIVE ImplEq(_, _), ImplEqSeq(_, _), ImplEqMembers(_, _), ImplHashable(_)

\* can hash(v) be computed?  KnownValue falls back to id() (value.py:632), so every Value of this
\* universe is hashable; kept as an operator because MultiValuedValue.__eq__ depends on it.
ImplHashable(v) == TRUE

ImplEqSeq(s, t) == Len(s) = Len(t) /\ \A i \in 1..Len(s) : ImplEq(s[i], t[i])
ImplEqMembers(s, t) == Len(s) = Len(t) /\ \A i \in 1..Len(s) : s[i].many = t[i].many /\ ImplEq(s[i].t, t[i].t)

ImplEq(a, b) ==
    \* KnownValueWithTypeVars (C14 wide terms): KnownValue.__eq__ accepts it (isinstance), and its own generated __eq__ returns
    \* NotImplemented for a plain KnownValue so that the reflected KnownValue.__eq__ decides
    IF a.k # b.k THEN ({a.k, b.k} = {"known", "knowntv"} /\ KVEq(a.o, b.o))
    ELSE CASE a.k = "any"      -> a.src = b.src
           [] a.k = "known"    -> KVEq(a.o, b.o)
           [] a.k = "typed"    -> a.c = b.c
           [] a.k = "newtype"  -> a.c = b.c            \* inherited dataclass __eq__ compares typ only
           [] a.k = "generic"  -> a.c = b.c /\ ImplEqSeq(a.args, b.args)
           [] a.k = "seq"      -> a.c = b.c /\ ImplEqMembers(a.ms, b.ms)
           [] a.k = "subclass" -> ImplEq(a.t, b.t)
           [] a.k = "typevar"  -> a.n = b.n          \* TypeVarValue (terms of Algebra.tla only)
           \* TypedDictValue: dataclass equality over the items dict (order of the keys is irrelevant)
           [] a.k = "typeddict" ->
                /\ {a.items[i].key : i \in 1..Len(a.items)} = {b.items[i].key : i \in 1..Len(b.items)}
                /\ \A i \in 1..Len(a.items) : \A j \in 1..Len(b.items) :
                      a.items[i].key = b.items[j].key => (a.items[i].req = b.items[j].req /\ a.items[i].ro = b.items[j].ro
                                                          /\ ImplEq(a.items[i].t, b.items[j].t))
           \* DictIncompleteValue / KVPair: dataclass equality, pair by pair in order
           [] a.k = "dictinc" ->
                /\ Len(a.kvs) = Len(b.kvs)
                /\ \A i \in 1..Len(a.kvs) : /\ a.kvs[i].many = b.kvs[i].many /\ a.kvs[i].req = b.kvs[i].req
                                            /\ ImplEq(a.kvs[i].key, b.kvs[i].key) /\ ImplEq(a.kvs[i].val, b.kvs[i].val)
           \* ---- C14 wide terms (add-only arms)
           \* CallableValue / Signature: dataclass equality; `parameters` is a dict, so the ORDER of the parameters is not
           \* compared (dict equality), only name -> SigParameter(name, kind, default, annotation)
           [] a.k = "callable" ->
                /\ {a.ps[i].n : i \in 1..Len(a.ps)} = {b.ps[i].n : i \in 1..Len(b.ps)} /\ Len(a.ps) = Len(b.ps)
                /\ SigAsynq(a) = SigAsynq(b) /\ ImplEq(a.ret, b.ret)
                /\ \A i \in 1..Len(a.ps) : \A j \in 1..Len(b.ps) :
                      a.ps[i].n = b.ps[j].n => /\ a.ps[i].kind = b.ps[j].kind /\ a.ps[i].d = b.ps[j].d /\ Len(a.ps[i].t) = Len(b.ps[j].t)
                                               /\ (a.ps[i].t # << >> => ImplEq(a.ps[i].t[1], b.ps[j].t[1]))
           [] a.k = "annotated" -> /\ ImplEq(a.t, b.t) /\ Len(a.md) = Len(b.md)
                                   /\ \A i \in 1..Len(a.md) : a.md[i].x = b.md[i].x /\ ImplEq(a.md[i].t, b.md[i].t)
           [] a.k = "tdx" ->
                /\ {a.items[i].key : i \in 1..Len(a.items)} = {b.items[i].key : i \in 1..Len(b.items)}
                /\ \A i \in 1..Len(a.items) : \A j \in 1..Len(b.items) :
                      a.items[i].key = b.items[j].key => (a.items[i].req = b.items[j].req /\ a.items[i].ro = b.items[j].ro
                                                          /\ ImplEq(a.items[i].t, b.items[j].t))
                /\ Len(a.extra) = Len(b.extra) /\ (a.extra # << >> => ImplEq(a.extra[1], b.extra[1])) /\ a.xro = b.xro
           [] a.k \in {"unpacked", "asynctask", "exactly"} -> ImplEq(a.t, b.t)
           [] a.k = "knowntv"  -> a.o = b.o          \* generated dataclass __eq__ over (val,)
           [] a.k = "union"    ->
                \/ ImplEqSeq(a.ms, b.ms)
                \/ /\ \A i \in 1..Len(a.ms) : \E j \in 1..Len(b.ms) : ImplEq(a.ms[i], b.ms[j]) /\ ImplSameHash(a.ms[i], b.ms[j])
                   /\ \A j \in 1..Len(b.ms) : \E i \in 1..Len(a.ms) : ImplEq(a.ms[i], b.ms[j]) /\ ImplSameHash(a.ms[i], b.ms[j])

(***************************************************************************)
(* Impl: unite_values (value.py:2873)                                      *)
(***************************************************************************)
\* annotate_value (value.py:2812): nested Annotated are merged, the metadata de-duplicated in insertion order
RECURSIVE DedupeMd(_, _)
DedupeMd(md, acc) ==
    IF md = << >> THEN acc
    ELSE LET e == Head(md)
             dup == \E i \in 1..Len(acc) : acc[i].x = e.x /\ ImplSameHash(acc[i].t, e.t) /\ ImplEq(acc[i].t, e.t)
         IN DedupeMd(Tail(md), IF dup THEN acc ELSE Append(acc, e))
ImplAnnotate(t, md) ==
    IF md = << >> THEN t
    ELSE IF t.k = "annotated" THEN [k |-> "annotated", t |-> t.t, md |-> DedupeMd(t.md \o md, << >>)]
    ELSE [k |-> "annotated", t |-> t, md |-> DedupeMd(md, << >>)]
RECURSIVE Flatten(_)
Flatten(vals) ==          \* members of unions are spliced in (unions are never nested)
    IF vals = << >> THEN << >>
    ELSE (IF IsUnion(Head(vals)) THEN Head(vals).ms
          \* C14 wide terms: Annotated[A | B, md] is split into Annotated[A, md] | Annotated[B, md] (value.py:2893, :2762)
          ELSE IF Head(vals).k = "annotated" /\ IsUnion(Head(vals).t)
               THEN [i \in 1..Len(Head(vals).t.ms) |-> ImplAnnotate(Head(vals).t.ms[i], Head(vals).md)]
          ELSE <<Head(vals)>>) \o Flatten(Tail(vals))

\* insertion-ordered de-duplication through a dict keyed by the values (hash + __eq__)
RECURSIVE Dedupe(_, _)
Dedupe(vals, acc) ==
    IF vals = << >> THEN acc
    ELSE LET v == Head(vals)
             dup == \E i \in 1..Len(acc) : ImplSameHash(acc[i], v) /\ ImplEq(acc[i], v)
         IN Dedupe(Tail(vals), IF dup THEN acc ELSE Append(acc, v))

RECURSIVE IsUnreachableAny(_)
IsUnreachableAny(v) == IF v.k = "annotated" THEN IsUnreachableAny(v.t)      \* _is_unreachable looks through Annotated (value.py:2871)
                       ELSE v.k = "any" /\ v.src = "unreachable"

ImplUnite(vals) ==
    LET existing == Dedupe(Flatten(vals), << >>)
        reachable == SelectSeq(existing, LAMBDA v : ~IsUnreachableAny(v))
    IN IF Len(reachable) = 0 THEN (IF Len(existing) > 0 THEN AnyU ELSE Never)
       ELSE IF Len(reachable) = 1 THEN reachable[1]
       ELSE Union(reachable)
=============================================================================
