---------------------------- MODULE PercentFormat ----------------------------
(***************************************************************************)
(* %-formatting diagnostics agree with CPython's formatter (property C17,  *)
(* first half).                                                            *)
(*                                                                         *)
(* A case is [kind, t, args]:                                              *)
(*   kind  "str" | "bytes"       the type of the literal template          *)
(*   t     sequence of 1-character strings: the template                   *)
(*   args  [shape |-> "scalar" | "tuple" | "dict",                         *)
(*          items |-> sequence of value atoms (scalar: exactly one),       *)
(*          keys  |-> for "dict": sequence of [ty, chars] (one per item)]  *)
(* Value atoms are names of Python literals (table ValTy below; the driver *)
(* holds the atom -> source text codec).                                   *)
(*                                                                         *)
(* Impl* transcribes pyanalyze/format_strings.py (file:line in comments).  *)
(* Ref* models CPython 3.12's PyUnicode_Format / _PyBytes_FormatEx         *)
(* (Objects/unicodeobject.c, Objects/bytesobject.c) from the C source and  *)
(* the library reference; it never refers to Impl*.  RefOutcome is         *)
(* validated against the real `template % args` in every observation.      *)
(* Every operator takes the case as a parameter (PercentFormatTrace.tla    *)
(* applies the same operators to recorded observations).                   *)
(***************************************************************************)
EXTENDS Naturals, Sequences, FiniteSets, TLC

CONSTANT BugFlag        \* "none" | name of a seeded model bug (sensitivity self-tests only)

FlagCh  == {"#", "0", "-", " ", "+"}
DigitCh == {"0", "1", "2", "3", "4", "5", "6", "7", "8", "9"}
LenCh   == {"h", "l", "L"}

At(t, p) == IF p >= 1 /\ p <= Len(t) THEN t[p] ELSE "EOF"

RECURSIVE RunEnd(_, _, _)
\* first position >= p whose character is not in S (Len(t)+1 if none)
RunEnd(t, p, S) == IF p <= Len(t) /\ t[p] \in S THEN RunEnd(t, p + 1, S) ELSE p

Has(t, ch) == \E j \in 1..Len(t) : t[j] = ch

(***************************************************************************)
(* Value atoms                                                             *)
(***************************************************************************)
ValTy(v) ==
    CASE v \in {"i1", "i255", "i300", "in1", "ibig"} -> "int"
      [] v = "true" -> "bool"
      [] v = "f15" -> "float"
      [] v = "c1j" -> "complex"
      [] v = "none" -> "none"
      [] v \in {"sa", "sab", "se"} -> "str"
      [] v \in {"ba", "bab", "be"} -> "bytes"
      [] v = "DICT" -> "dict"           \* the argument dict itself, consumed as a value
      [] OTHER -> "other"

\* int-like atoms: where the integer lies
IntClass(v) ==
    CASE v \in {"i1", "i255", "true"} -> "byte"      \* 0..255
      [] v = "i300" -> "uni"                         \* 256..0x10FFFF
      [] v = "in1" -> "neg"
      [] v = "ibig" -> "big"                         \* > 0x10FFFF
      [] OTHER -> "na"
TextLen(v) == CASE v \in {"sa", "ba"} -> 1 [] v \in {"sab", "bab"} -> 2 [] OTHER -> 0

IsIntLike(v) == ValTy(v) \in {"int", "bool"}
IsReal(v) == ValTy(v) \in {"int", "bool", "float"}

(***************************************************************************)
(* Ref: CPython's formatter                                                *)
(*                                                                         *)
(* ctx = [single, used, cur, binds]:                                       *)
(*   single  TRUE  <=> arglen = -1 (one object `cur`; used \in {0,1})      *)
(*           FALSE <=> args is the tuple c.args.items, `used` consumed     *)
(*   binds   sequence of [ch, v]: which value each conversion consumed     *)
(* Result: [exc, cause, binds], exc = "ok" or the exception class name.    *)
(***************************************************************************)
IsTupleArgs(c) == c.args.shape = "tuple"

\* `dict` in the C code: PyMapping_Check(args) && !PyTuple_Check(args) && !PyUnicode_Check(args)
\* for str templates (so a bytes object counts as a mapping); the bytes formatter excludes tuple,
\* bytes, bytearray and str.
DictP(c) ==
    \/ c.args.shape = "dict"
    \/ /\ c.args.shape = "scalar" /\ c.kind = "str"
       /\ ValTy(c.args.items[1]) = "bytes"

RFail(exc, cause, st) == [exc |-> exc, cause |-> cause, binds |-> st.binds]

\* getnextarg()
RHasNext(c, st) == IF st.single THEN st.used = 0 ELSE st.used < Len(c.args.items)
RNextVal(c, st) == IF st.single THEN st.cur ELSE c.args.items[st.used + 1]
RConsume(st, ch, v) == [st EXCEPT !.used = @ + 1, !.binds = Append(@, [ch |-> ch, v |-> v])]

RECURSIVE MatchParen(_, _, _)
\* position of the ")" closing the key that starts at q (nesting counted), 0 if there is none
MatchParen(t, q, depth) ==
    IF q > Len(t) THEN 0
    ELSE IF t[q] = ")" THEN (IF depth = 1 THEN q ELSE MatchParen(t, q + 1, depth - 1))
    ELSE IF t[q] = "(" THEN MatchParen(t, q + 1, depth + 1)
    ELSE MatchParen(t, q + 1, depth)

\* dict[key]: the key object has the type of the template
RLookup(c, key) ==
    LET hits == {j \in 1..Len(c.args.items) : c.args.keys[j].ty = c.kind /\ c.args.keys[j].chars = key}
    IN IF hits = {} THEN [found |-> FALSE, v |-> "none"]
       ELSE [found |-> TRUE, v |-> c.args.items[CHOOSE j \in hits : \A i \in hits : i <= j]]   \* later duplicate wins

\* the conversion itself: "ok" or <<exception, cause>>
RConvert(kind, ch, v) ==
    LET ty == ValTy(v) IN
    CASE ch \in {"r", "a"} -> <<"ok", "">>
      [] ch = "s" /\ kind = "str" -> <<"ok", "">>
      [] ch \in {"s", "b"} /\ kind = "bytes" ->
            IF ty = "bytes" THEN <<"ok", "">> ELSE <<"TypeError", "bytes-required">>
      [] ch \in {"d", "i", "u"} ->
            IF IsReal(v) THEN <<"ok", "">> ELSE <<"TypeError", "real-required">>
      [] ch \in {"o", "x", "X"} ->
            IF IsIntLike(v) THEN <<"ok", "">>
            ELSE IF ty = "float" THEN <<"TypeError", "int-required-float">>
            ELSE <<"TypeError", "int-required">>
      [] ch \in {"e", "E", "f", "F", "g", "G"} ->
            IF IsReal(v) THEN <<"ok", "">> ELSE <<"TypeError", "float-required">>
      [] ch = "c" /\ kind = "str" ->
            IF IsIntLike(v) THEN (IF IntClass(v) \in {"byte", "uni"} THEN <<"ok", "">> ELSE <<"OverflowError", "c-range">>)
            ELSE IF ty = "str" THEN (IF TextLen(v) = 1 THEN <<"ok", "">> ELSE <<"TypeError", "c-char">>)
            ELSE <<"TypeError", "c-type">>
      [] ch = "c" /\ kind = "bytes" ->
            IF IsIntLike(v) THEN (IF IntClass(v) = "byte" THEN <<"ok", "">> ELSE <<"OverflowError", "c-range">>)
            ELSE IF ty = "bytes" THEN (IF TextLen(v) = 1 THEN <<"ok", "">> ELSE <<"TypeError", "c-char">>)
            ELSE <<"TypeError", "c-type">>
      [] OTHER -> <<"ValueError", "unsupported">>       \* includes "%" after options and "b" on str

RECURSIVE RScan(_, _, _), RFlags(_, _, _), RWidth(_, _, _), RPrec(_, _, _), RLen(_, _, _), RConv(_, _, _)

\* the main loop; p = next character to read
RScan(c, p, st) ==
    IF p > Len(c.t) THEN
        \* "not all arguments converted": argidx < arglen && !dict
        IF ~DictP(c) /\ RHasNext(c, st) THEN RFail("TypeError", "not-all-converted", st)
        ELSE [exc |-> "ok", cause |-> "", binds |-> st.binds]
    ELSE IF c.t[p] # "%" THEN RScan(c, p + 1, st)
    ELSE IF p + 1 > Len(c.t) THEN RFail("ValueError", "incomplete", st)
    ELSE IF c.t[p + 1] = "%" THEN RScan(c, p + 2, st)                    \* "%%" (only when adjacent)
    ELSE IF c.t[p + 1] = "(" THEN
        \* mapping key
        IF ~DictP(c) THEN RFail("TypeError", "requires-mapping", st)
        ELSE LET r == MatchParen(c.t, p + 2, 1)
             IN IF r = 0 THEN RFail("ValueError", "incomplete-key", st)
                ELSE IF c.args.shape # "dict" THEN RFail("TypeError", "index-nondict", st)   \* 'a'[key]
                ELSE LET look == RLookup(c, SubSeq(c.t, p + 2, r - 1))
                     IN IF ~look.found THEN RFail("KeyError", "key", st)
                        ELSE RFlags(c, r + 1, [st EXCEPT !.single = TRUE, !.used = 0, !.cur = look.v])
    ELSE RFlags(c, p + 1, st)

RFlags(c, p, st) == RWidth(c, RunEnd(c.t, p, {"-", "+", " ", "#", "0"}), st)

RWidth(c, p, st) ==
    IF At(c.t, p) = "*" THEN
        IF ~RHasNext(c, st) THEN RFail("TypeError", "not-enough", st)
        ELSE IF ~IsIntLike(RNextVal(c, st)) THEN RFail("TypeError", "star-int", st)
        ELSE RPrec(c, p + 1, RConsume(st, "*", RNextVal(c, st)))
    ELSE RPrec(c, RunEnd(c.t, p, DigitCh), st)

RPrec(c, p, st) ==
    IF At(c.t, p) # "." THEN RLen(c, p, st)
    ELSE IF At(c.t, p + 1) = "*" THEN
        IF ~RHasNext(c, st) THEN RFail("TypeError", "not-enough", st)
        ELSE IF ~IsIntLike(RNextVal(c, st)) THEN RFail("TypeError", "star-int", st)
        ELSE RLen(c, p + 2, RConsume(st, "*", RNextVal(c, st)))
    ELSE RLen(c, RunEnd(c.t, p + 1, DigitCh), st)          \* possibly no digit at all: precision 0

RLen(c, p, st) == IF At(c.t, p) \in LenCh THEN RConv(c, p + 1, st) ELSE RConv(c, p, st)

RConv(c, p, st) ==
    LET ch == At(c.t, p) IN
    IF ch = "EOF" THEN RFail("ValueError", "incomplete", st)
    ELSE IF ~RHasNext(c, st) THEN RFail("TypeError", "not-enough", st)
    ELSE LET v == RNextVal(c, st)
             r == RConvert(c.kind, ch, v)
         IN IF r[1] = "ok" THEN RScan(c, p + 1, RConsume(st, ch, v))
            ELSE RFail(r[1], r[2], st)

RInitCtx(c) ==
    [single |-> ~IsTupleArgs(c), used |-> 0,
     cur |-> IF c.args.shape = "scalar" THEN c.args.items[1] ELSE "DICT",
     binds |-> << >>]

RefRun(c) == RScan(c, 1, RInitCtx(c))
RefOutcome(c) == RefRun(c).exc                 \* "ok" | exception class name
RefRaises(c) == RefOutcome(c) # "ok"
RefType(c) == c.kind                           \* type of the result when there is one

(***************************************************************************)
(* Ref: the conversion specifiers of a template as CPython's parser        *)
(* delimits them, independent of the arguments (used to state the          *)
(* documented lint rules and the deviation classes).                       *)
(* spec = [haskey, key, star, emptyprec, ch, adjacent]                     *)
(***************************************************************************)
RECURSIVE RefSpecs(_, _)
RefSpecs(t, p) ==
    IF p > Len(t) THEN << >>
    ELSE IF t[p] # "%" THEN RefSpecs(t, p + 1)
    ELSE IF p + 1 > Len(t) THEN << >>
    ELSE IF t[p + 1] = "%" THEN
        << [haskey |-> FALSE, key |-> << >>, star |-> FALSE, emptyprec |-> FALSE, ch |-> "%", adjacent |-> TRUE] >>
        \o RefSpecs(t, p + 2)
    ELSE LET r == IF t[p + 1] = "(" THEN MatchParen(t, p + 2, 1) ELSE 0
             haskey == t[p + 1] = "("
         IN IF haskey /\ r = 0 THEN      \* incomplete format key: recorded with the rest of the template as key
                << [haskey |-> TRUE, key |-> SubSeq(t, p + 2, Len(t)), star |-> FALSE, emptyprec |-> FALSE,
                    ch |-> "EOF", adjacent |-> FALSE] >>
            ELSE LET q1 == IF haskey THEN r + 1 ELSE p + 1
                     q2 == RunEnd(t, q1, {"-", "+", " ", "#", "0"})
                     wstar == At(t, q2) = "*"
                     q3 == IF wstar THEN q2 + 1 ELSE RunEnd(t, q2, DigitCh)
                     dot == At(t, q3) = "."
                     pstar == dot /\ At(t, q3 + 1) = "*"
                     q4 == IF ~dot THEN q3 ELSE IF pstar THEN q3 + 2 ELSE RunEnd(t, q3 + 1, DigitCh)
                     eprec == dot /\ ~pstar /\ q4 = q3 + 1
                     q5 == IF At(t, q4) \in LenCh THEN q4 + 1 ELSE q4
                 IN IF At(t, q5) = "EOF" THEN
                        \* incomplete format: a mapping key that was already looked up is still recorded
                        (IF haskey THEN << [haskey |-> TRUE, key |-> SubSeq(t, p + 2, r - 1), star |-> wstar \/ pstar,
                                            emptyprec |-> FALSE, ch |-> "EOF", adjacent |-> FALSE] >> ELSE << >>)
                    ELSE << [haskey |-> haskey, key |-> IF haskey THEN SubSeq(t, p + 2, r - 1) ELSE << >>,
                             star |-> wstar \/ pstar, emptyprec |-> eprec, ch |-> t[q5], adjacent |-> FALSE] >>
                         \o RefSpecs(t, q5 + 1)

RSpecs(c) == RefSpecs(c.t, 1)
SeqAny(s, P(_)) == \E j \in 1..Len(s) : P(s[j])
SeqAll(s, P(_)) == \A j \in 1..Len(s) : P(s[j])

(***************************************************************************)
(* The lint rules pyanalyze documents as deliberately stricter than        *)
(* CPython (format_strings.py:140-142, :275-278, :286-292), stated on      *)
(* CPython's reading of the template.  A report of one of these kinds is   *)
(* excused when formatting succeeds, provided the rule's stated condition  *)
(* holds.                                                                  *)
(***************************************************************************)
LintKinds == {"nospec", "pctopt", "mix"}

EmptyArgs(c) == c.args.shape \in {"tuple", "dict"} /\ c.args.items = << >>

LintCond(c, k) ==
    CASE k = "nospec" -> ~Has(c.t, "%") /\ ~EmptyArgs(c)       \* % applied to a template without specifiers
      [] k = "pctopt" -> SeqAny(RSpecs(c), LAMBDA s : s.ch = "%" /\ ~s.adjacent)
      [] k = "mix"    -> /\ SeqAny(RSpecs(c), LAMBDA s : s.haskey)
                         /\ SeqAny(RSpecs(c), LAMBDA s : ~s.haskey \/ s.star)
      [] OTHER -> FALSE

(***************************************************************************)
(* Impl: format_strings.py                                                 *)
(***************************************************************************)
PzTypeCh == {"d", "i", "o", "u", "x", "X", "e", "E", "f", "F", "g", "G", "c", "r", "s", "%", "b", "a"}
PzNumTy  == {"d", "i", "o", "u", "x", "X", "e", "E", "f", "F", "g", "G"}          \* :50

RECURSIVE FirstAt(_, _, _)
FirstAt(t, p, ch) == IF p > Len(t) THEN 0 ELSE IF t[p] = ch THEN p ELSE FirstAt(t, p + 1, ch)

\* _FORMAT_STRING_REGEX (format_strings.py:32-45) tried at a "%" at position p.  Every optional group
\* is greedy and giving characters back can never rescue a failed match, so the match is the
\* deterministic left-to-right scan below.
ImplMatchAt(t, p) ==
    LET q1 == p + 1
        r == IF At(t, q1) = "(" THEN FirstAt(t, q1 + 1, ")") ELSE 0
        haskey == r >= q1 + 2                                       \* \([^\)]+\)  :36
        q2 == IF haskey THEN r + 1 ELSE q1
        q3 == RunEnd(t, q2, FlagCh)                                 \* [#0\- +]+   :37
        width == IF At(t, q3) = "*" THEN "star" ELSE IF At(t, q3) \in DigitCh THEN "num" ELSE "none"   \* :38
        q4 == IF width = "star" THEN q3 + 1 ELSE RunEnd(t, q3, DigitCh)
        prec == IF At(t, q4) = "." /\ At(t, q4 + 1) = "*" THEN "star"
                ELSE IF At(t, q4) = "." /\ At(t, q4 + 1) \in DigitCh THEN "num" ELSE "none"            \* :39
        q5 == IF prec = "star" THEN q4 + 2 ELSE IF prec = "num" THEN RunEnd(t, q4 + 1, DigitCh) ELSE q4
        haslen == At(t, q5) \in LenCh                               \* :40
        q6 == IF haslen THEN q5 + 1 ELSE q5
    IN [ok |-> At(t, q6) \in PzTypeCh,                              \* :41
        end |-> q6,
        spec |-> [haskey |-> haskey, key |-> IF haskey THEN SubSeq(t, q1 + 1, r - 1) ELSE << >>,
                  hasflags |-> q3 > q2, width |-> width, prec |-> prec, haslen |-> haslen, ch |-> At(t, q6)]]

RECURSIVE ImplScan(_, _, _, _, _)
\* finditer (format_strings.py:225-233): p0 = start of the current pre_match, p = candidate position
ImplScan(t, p0, p, specs, pieces) ==
    IF p > Len(t) THEN [specs |-> specs, pieces |-> Append(pieces, SubSeq(t, p0, Len(t)))]
    ELSE IF t[p] = "%" /\ ImplMatchAt(t, p).ok THEN
        LET m == ImplMatchAt(t, p)
        IN ImplScan(t, m.end + 1, m.end + 1, Append(specs, m.spec), Append(pieces, SubSeq(t, p0, p - 1)))
    ELSE ImplScan(t, p0, p + 1, specs, pieces)

ImplParse(t) == ImplScan(t, 1, 1, << >>, << >>)

RECURSIVE Flat(_)
Flat(ss) == IF ss = << >> THEN << >> ELSE Head(ss) \o Flat(Tail(ss))

ImplNeedsMapping(P) == SeqAny(P.specs, LAMBDA s : s.haskey)                      \* :260

\* ConversionSpecifier.lint :127-147
ImplSpecLint(kind, s) ==
    IF s.ch = "%" THEN
        (IF s.haskey \/ s.hasflags \/ s.width # "none" \/ s.prec # "none" \/ s.haslen THEN <<"pctopt">> ELSE << >>)
    ELSE IF s.ch = "b" /\ kind # "bytes" THEN <<"b-on-str">>
    ELSE << >>

\* PercentFormatString.lint :264-281
ImplLint(c, P) ==
    LET nm == ImplNeedsMapping(P)
    IN Flat([j \in 1..Len(P.specs) |->
              ImplSpecLint(c.kind, P.specs[j])
              \o (IF nm /\ (~P.specs[j].haskey \/ P.specs[j].prec = "star" \/ P.specs[j].width = "star")
                  THEN <<"mix">> ELSE << >>)])
       \o Flat([j \in 1..Len(P.pieces) |-> IF Has(P.pieces[j], "%") THEN <<"invalid">> ELSE << >>])

\* what the Value system says about a literal
PzNumeric(v) == ValTy(v) \in {"int", "bool", "float"}        \* Numeric = float | SupportsIndex  :61
PzInt(v) == ValTy(v) \in {"int", "bool"}
PzInByte(v) == IntClass(v) = "byte"                          \* arg.val in range(256)

\* ConversionSpecifier.accept_no_mvv :154-193 (s = [ch |-> "*"] is StarConversionSpecifier :196)
ImplAccept(kind, s, v) ==
    IF s.ch = "*" THEN (IF PzInt(v) THEN << >> ELSE <<"star">>)                                   \* :200
    ELSE IF s.ch \in PzNumTy THEN (IF PzNumeric(v) THEN << >> ELSE <<"num">>)                     \* :155
    ELSE IF s.ch \in {"a", "r"} THEN << >>                                                       \* :162
    ELSE IF s.ch = "c" THEN                                                                      \* :165
        IF PzInt(v) THEN (IF PzInByte(v) THEN << >> ELSE <<"c-range">>)
        ELSE IF (kind = "bytes" /\ ValTy(v) = "bytes") \/ (kind = "str" /\ ValTy(v) = "str")
             THEN (IF TextLen(v) # 1 THEN <<"c-single">> ELSE << >>)
        ELSE <<"c-type">>
    ELSE IF s.ch = "b" \/ (kind = "bytes" /\ s.ch = "s") THEN                                     \* :180
        (IF ValTy(v) = "bytes" THEN << >> ELSE <<"bytes-only">>)
    ELSE IF s.ch = "s" THEN << >>                                                                \* :186
    ELSE <<"pct-arg">>                                                                           \* :189

\* get_serial_specifiers :339-349: one star slot for a "*" width, another one for a "*" precision,
\* then the specifier itself.  (BugFlag = "one-star-slot" is a seeded model bug used as sensitivity
\* self-test of the specifier-structured slices: "*.*" collapsed into a single slot.)
ImplSerial(P) ==
    Flat([j \in 1..Len(P.specs) |->
            (IF BugFlag = "one-star-slot"
             THEN (IF P.specs[j].width = "star" \/ P.specs[j].prec = "star" THEN << [ch |-> "*"] >> ELSE << >>)
             ELSE (IF P.specs[j].width = "star" THEN << [ch |-> "*"] >> ELSE << >>)
                  \o (IF P.specs[j].prec = "star" THEN << [ch |-> "*"] >> ELSE << >>))
         \o (IF P.specs[j].ch # "%" THEN << P.specs[j] >> ELSE << >>)])

\* accept_tuple_args_no_mvv :355-386
ImplTuple(c, P) ==
    LET all == IF c.args.shape = "tuple" THEN c.args.items
               ELSE IF c.args.shape = "scalar" THEN c.args.items ELSE <<"DICT">>
        ser == ImplSerial(P)
    IN IF Len(all) < Len(ser) THEN <<"too-few">>
       ELSE IF Len(all) > Len(ser) THEN <<"too-many">>
       ELSE Flat([j \in 1..Len(ser) |-> ImplAccept(c.kind, ser[j], all[j])])

\* accept_mapping_args_no_mvv :310-337.  cs_map: specifiers other than "%" grouped by mapping_key
\* (None for a specifier without key); keys of a bytes template are decoded to str (:98-101).
ImplMapping(c, P) ==
    IF c.args.shape # "dict" THEN <<"requires-mapping">>                                          \* :337
    ELSE LET real == SelectSeq(P.specs, LAMBDA s : s.ch # "%")
             strkey(j) == c.args.keys[j].ty = "str"
             perpair == Flat([j \in 1..Len(c.args.items) |->
                          IF strkey(j)
                          THEN Flat([i \in 1..Len(real) |->
                                  IF real[i].haskey /\ real[i].key = c.args.keys[j].chars
                                  THEN ImplAccept(c.kind, real[i], c.args.items[j]) ELSE << >>])
                          ELSE << >>])
             nonlit == \E j \in 1..Len(c.args.items) : ~strkey(j)
             seen == {c.args.keys[j].chars : j \in {i \in 1..Len(c.args.items) : strkey(i)}}
             leftkeyed == \E i \in 1..Len(real) : real[i].haskey /\ real[i].key \notin seen
             leftnone == \E i \in 1..Len(real) : ~real[i].haskey            \* the None key is never "seen"
         IN perpair \o (IF (leftkeyed \/ leftnone) /\ ~nonlit
                        THEN (IF leftnone THEN <<"CRASH">>          \* ', '.join(keys_left) with None  :335
                              ELSE <<"missing-keys">>)
                        ELSE << >>)

\* PercentFormatString.accept :283-296
ImplAcceptAll(c, P) ==
    IF P.specs = << >> THEN (IF EmptyArgs(c) THEN << >> ELSE <<"nospec">>)                         \* :291
    ELSE IF ImplNeedsMapping(P) THEN ImplMapping(c, P)
    ELSE ImplTuple(c, P)

\* check_string_format :389-406: lint errors then accept errors; "CRASH" = exception escaping
ImplMsgs(c) == LET P == ImplParse(c.t) IN ImplLint(c, P) \o ImplAcceptAll(c, P)
ImplCrashes(c) == LET m == ImplMsgs(c) IN m # << >> /\ m[Len(m)] = "CRASH"
\* the visitor shows the first error per (node, code) only (node_visitor.py:635)
ImplFirst(c) == LET m == SelectSeq(ImplMsgs(c), LAMBDA x : x # "CRASH") IN IF m = << >> THEN "none" ELSE m[1]
\* inferred type: TypedValue(type(format_str)) :406; Any[error] after an internal error
ImplType(c) == IF ImplCrashes(c) THEN "any" ELSE c.kind

(***************************************************************************)
(* Known deviations of the implementation (see known_findings.jsonl).      *)
(* k is the kind of the first reported bad_format_string ("none" if none). *)
(***************************************************************************)
\* '%c' % 300: str templates accept any code point, the check uses range(256)
Dev_CharAboveByte(c, k) ==
    /\ k = "c-range" /\ c.kind = "str"
    /\ SeqAny(RefRun(c).binds, LAMBDA b : b.ch = "c" /\ IsIntLike(b.v) /\ IntClass(b.v) = "uni")

\* '%.d' % 1: CPython accepts "." without digits (precision 0); the regex does not
Dev_EmptyPrecision(c, k) == k = "invalid" /\ SeqAny(RSpecs(c), LAMBDA s : s.emptyprec)

\* '%x' % 1.5: o/x/X need an integer; every numeric conversion is checked against float | SupportsIndex
Dev_IntConvFloat(c, k) == k = "none" /\ RefRun(c).cause = "int-required-float"

\* '%%' % {'k': 1}: a mapping argument is never "not all converted", but it is counted as one positional
Dev_EscapeOnlyMapping(c, k) ==
    /\ k = "too-many" /\ DictP(c)
    /\ RSpecs(c) # << >> /\ SeqAll(RSpecs(c), LAMBDA s : s.adjacent)

\* '%(k)s' % {1: 2}: a literal key that is not a str switches the missing-key and value checks off
Dev_NonStrKey(c, k) ==
    /\ k = "none" /\ c.args.shape = "dict"
    /\ \E j \in 1..Len(c.args.items) : c.args.keys[j].ty # "str"
    /\ SeqAny(RSpecs(c), LAMBDA s : s.haskey)

\* b'%(k)s' % {'k': b'a'}: keys of a bytes template are compared as str
Dev_BytesKeyAsStr(c, k) ==
    /\ k = "none" /\ c.kind = "bytes" /\ c.args.shape = "dict" /\ RefRun(c).cause = "key"
    /\ \A j \in 1..Len(c.args.items) : c.args.keys[j].ty = "str"

\* b'%(k)d' % {'k': 'x', b'k': 1}: the same decoding makes the checker validate the entry under the STR
\* spelling of a mapping key, an entry CPython never reads (it formats the value under b'k'): a false
\* report whenever that unread value does not fit the conversion
Dev_BytesKeyWrongEntry(c, k) ==
    /\ k \in {"num", "c-range", "c-single", "c-type", "bytes-only"}
    /\ c.kind = "bytes" /\ c.args.shape = "dict"
    /\ \E i \in 1..Len(RSpecs(c)), j \in 1..Len(c.args.items) :
          /\ RSpecs(c)[i].haskey
          /\ c.args.keys[j] = [ty |-> "str", chars |-> RSpecs(c)[i].key]
          /\ RConvert(c.kind, RSpecs(c)[i].ch, c.args.items[j])[1] # "ok"

\* '%((k))s' / '%()s': CPython keys may be empty or contain balanced parentheses
KeyOdd(s) == s.haskey /\ (s.key = << >> \/ Has(s.key, "(") \/ Has(s.key, ")"))
Dev_KeyGrammar(c, k) == SeqAny(RSpecs(c), KeyOdd) \/ (Has(c.t, "(") /\ RefRun(c).cause = "incomplete-key")

\* '%s %(k)s' % {'k': 1}: internal error (join over a None key)
Dev_MixedKeyCrash(c) ==
    /\ c.args.shape = "dict" /\ \A j \in 1..Len(c.args.items) : c.args.keys[j].ty = "str"
    \* the template has a "%(" and a "%" that does not start a mapping key (stated on the text: with
    \* unbalanced parentheses CPython and the regex delimit the specifiers differently)
    /\ \E j \in 1..Len(c.t) : c.t[j] = "%" /\ At(c.t, j + 1) = "("
    /\ \E j \in 1..Len(c.t) : c.t[j] = "%" /\ At(c.t, j + 1) # "("

DevMissed(c, k) ==
    CASE Dev_IntConvFloat(c, k) -> "percent-x-float"
      [] Dev_BytesKeyAsStr(c, k) -> "percent-bytes-key-as-str"
      [] Dev_NonStrKey(c, k) -> "percent-non-str-dict-key"
      [] k = "none" /\ Dev_KeyGrammar(c, k) -> "percent-key-grammar"
      [] OTHER -> "no"

DevFalse(c, k) ==
    CASE Dev_CharAboveByte(c, k) -> "percent-c-above-255"
      [] Dev_EmptyPrecision(c, k) -> "percent-empty-precision"
      [] Dev_EscapeOnlyMapping(c, k) -> "percent-escape-only-mapping"
      [] Dev_BytesKeyWrongEntry(c, k) -> "percent-bytes-key-wrong-entry"
      [] k = "invalid" /\ Dev_KeyGrammar(c, k) -> "percent-key-grammar"
      [] OTHER -> "no"

(***************************************************************************)
(* The property, on (case, first reported kind, crashed?, inferred type)   *)
(***************************************************************************)
Excused(c, k) == k \in LintKinds /\ LintCond(c, k)
ReportsWhenRaises(c, k) == RefRaises(c) => k # "none"
SilentWhenOk(c, k) == ~RefRaises(c) => (k = "none" \/ Excused(c, k))
TypeIsResultType(c, ty) == ~RefRaises(c) => ty = RefType(c)

(***************************************************************************)
(* Staged generator                                                        *)
(***************************************************************************)
CONSTANTS
    PKinds,        \* subset of {"str", "bytes"}
    PTokens,       \* set of character sequences appended one per step
    MaxTokens,
    ScalarVals, TupleVals, MaxTuple,
    DictKeys, DictVals, MaxDict

VARIABLES case, stage, ntok
vars == <<case, stage, ntok>>

Blank == [kind |-> "str", t |-> << >>, args |-> [shape |-> "tuple", items |-> << >>, keys |-> << >>]]

Init == case = Blank /\ stage = "kind" /\ ntok = 0

ChooseKind ==
    /\ stage = "kind"
    /\ \E kd \in PKinds : case' = [case EXCEPT !.kind = kd]
    /\ stage' = "tmpl" /\ UNCHANGED ntok

AddToken ==
    /\ stage = "tmpl" /\ ntok < MaxTokens
    /\ \E tok \in PTokens : case' = [case EXCEPT !.t = @ \o tok]
    /\ ntok' = ntok + 1 /\ UNCHANGED stage

EndTemplate ==
    /\ stage = "tmpl"
    /\ \E sh \in {"scalar", "tuple", "dict"} : case' = [case EXCEPT !.args.shape = sh]
    /\ stage' = "items" /\ UNCHANGED ntok

AddItem ==
    /\ stage = "items"
    /\ \/ /\ case.args.shape = "scalar" /\ case.args.items = << >>
          /\ \E v \in ScalarVals : case' = [case EXCEPT !.args.items = <<v>>]
          /\ stage' = "done"
       \/ /\ case.args.shape = "tuple" /\ Len(case.args.items) < MaxTuple
          /\ \E v \in TupleVals : case' = [case EXCEPT !.args.items = Append(@, v)]
          /\ UNCHANGED stage
       \/ /\ case.args.shape = "dict" /\ Len(case.args.items) < MaxDict
          /\ \E v \in DictVals, key \in DictKeys :
               /\ \A j \in 1..Len(case.args.keys) : case.args.keys[j] # key
               /\ case' = [case EXCEPT !.args.items = Append(@, v), !.args.keys = Append(@, key)]
          /\ UNCHANGED stage
    /\ UNCHANGED ntok

Finish ==
    /\ stage = "items" /\ case.args.shape \in {"tuple", "dict"}
    /\ stage' = "done" /\ UNCHANGED <<case, ntok>>

Next == ChooseKind \/ AddToken \/ EndTemplate \/ AddItem \/ Finish

(***************************************************************************)
(* Invariants on the model.  MFirst/MType are the implementation model,    *)
(* optionally with a seeded bug (sensitivity).                             *)
(***************************************************************************)
MFirst(c) ==
    IF BugFlag = "ignore-too-many" /\ ImplFirst(c) = "too-many" THEN "none"
    ELSE IF BugFlag = "bytes-s-any" /\ ImplFirst(c) = "bytes-only" THEN "none"
    ELSE ImplFirst(c)

Soundness == stage = "done" =>
    (ReportsWhenRaises(case, MFirst(case)) \/ DevMissed(case, MFirst(case)) # "no")
Precision == stage = "done" =>
    (SilentWhenOk(case, MFirst(case)) \/ DevFalse(case, MFirst(case)) # "no")
ResultType == stage = "done" =>
    (TypeIsResultType(case, ImplType(case)) \/ (ImplCrashes(case) /\ Dev_MixedKeyCrash(case)))
NoCrash == stage = "done" => (~ImplCrashes(case) \/ Dev_MixedKeyCrash(case))
\* strict versions: expected to be violated (they document the findings)
SoundnessStrict == stage = "done" => ReportsWhenRaises(case, MFirst(case))
PrecisionStrict == stage = "done" => SilentWhenOk(case, MFirst(case))
NoCrashStrict == stage = "done" => ~ImplCrashes(case)

(***************************************************************************)
(* Menus used by the configurations (cfg files substitute them for the     *)
(* constants: PTokens <- TokCore, ...)                                     *)
(***************************************************************************)
TokCore == { <<"%">>, <<"(", "k", ")">>, <<"-">>, <<"1">>, <<"*">>, <<".">>, <<"l">>,
             <<"s">>, <<"d">>, <<"x">>, <<"c">>, <<"f">>, <<"b">>, <<"r">>, <<"z">> }
\* every conversion type, flag and length modifier, parentheses as separate characters
TokFull == TokCore \cup { <<"(">>, <<")">>, <<"k">>, <<"0">>, <<"#">>, <<" ">>, <<"+">>, <<"h">>, <<"L">>,
                          <<"i">>, <<"o">>, <<"u">>, <<"X">>, <<"e">>, <<"E">>, <<"F">>, <<"g">>, <<"G">>, <<"a">> }
\* composite tokens: whole specifiers per step, for long templates
TokSpec == { <<"%", "s">>, <<"%", "d">>, <<"%", "x">>, <<"%", "c">>, <<"%", "f">>, <<"%", "b">>, <<"%", "r">>,
             <<"%", "%">>, <<"%", "(", "k", ")">>, <<"%", "(", "j", ")">>, <<"%", "*">>, <<"%", ".", "*">>,
             <<"%", ".">>, <<"%", "-", "1">>, <<"%", "l">>, <<"%">>, <<"s">>, <<"d">>, <<"c">>, <<"z">>, <<"(">>, <<")">> }

KStr(chars) == [ty |-> "str", chars |-> chars]
KeysCore == { KStr(<<"k">>), KStr(<<"j">>), [ty |-> "bytes", chars |-> <<"k">>], [ty |-> "int", chars |-> <<"1">>] }
KeysFull == KeysCore \cup { KStr(<< >>), KStr(<<"(", "k">>), KStr(<<"(", "k", ")">>) }

ValsAll == {"i1", "i255", "i300", "in1", "ibig", "true", "f15", "c1j", "none", "sa", "sab", "se", "ba", "bab", "be"}
ValsCore == {"i1", "i300", "f15", "sa", "ba", "none"}
ValsSmall == {"i1", "f15", "sa", "ba"}
\* quick tier: composite tokens so that three tokens reach keyed + unkeyed specifiers
TokQuick == { <<"%">>, <<"%", "(", "k", ")">>, <<"%", "%">>, <<"%", "s">>, <<"s">>, <<"d">>, <<"x">>, <<"c">>, <<"b">>,
              <<".">>, <<"*">>, <<"1">>, <<"l">>, <<"z">> }
KeysQuick == { KStr(<<"k">>), [ty |-> "bytes", chars |-> <<"k">>], [ty |-> "int", chars |-> <<"1">>] }
ValsQScalar == {"i1", "i300", "f15", "sa", "ba"}
ValsQTuple == {"i1", "f15"}
ValsQDict == {"i1", "ba"}
\* mapping-key grammar: parentheses as separate characters
TokKeys == { <<"%">>, <<"%", "(">>, <<"(">>, <<")">>, <<"k">>, <<"s">> }
ValsOne == {"i1"}
ValsKeyD == {"i1", "sa"}
TokSim == TokFull \cup TokSpec
=============================================================================
