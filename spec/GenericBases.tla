---------------------------- MODULE GenericBases ----------------------------
(***************************************************************************)
(* Property C04, slice "generic argument comparison through generic bases" *)
(* (value.py:1042 GenericValue.can_assign -> get_generic_args_for_type ->  *)
(* arg_spec.py:1049 get_generic_bases / :1078 _extract_bases) for USER     *)
(* generic classes.  Add-only, stand-alone module.                         *)
(*                                                                         *)
(* GTab[c] = the bases as written in the class statement (__orig_bases__): *)
(* <<[c |-> base class, args |-> <<type variable or type>>]..>>; an        *)
(* explicit Generic[...] base appears as the class "Generic".  The real    *)
(* classes are harness/gbase_universe.py (the driver compares the table,   *)
(* __parameters__ and the base arguments with CPython: "oracle:").         *)
(***************************************************************************)
EXTENDS Naturals, Sequences, FiniteSets, TLC

TV(n) == [k |-> "tv", n |-> n]
TY(n) == [k |-> "ty", n |-> n]
B(c, args) == [c |-> c, args |-> args]
kv == <<TV("K"), TV("V")>>   vk == <<TV("V"), TV("K")>>   t1 == <<TV("T")>>

GTab ==
    (  "Iterable" :> <<B("Generic", t1)>>
    @@ "Mapping"  :> <<B("Iterable", <<TV("KT")>>), B("Generic", <<TV("KT"), TV("VT")>>)>>     \* typeshed: Collection[_KT], Generic[_KT, _VT_co]
    @@ "Sequence" :> <<B("Iterable", t1)>>
    @@ "list"     :> <<B("Sequence", t1)>>
    @@ "Tagged"   :> << >>
    @@ "G1"       :> <<B("Generic", t1)>>
    @@ "M1"       :> <<B("Mapping", kv)>>
    @@ "InvLast"  :> <<B("Mapping", kv), B("Generic", vk)>>
    @@ "InvMid"   :> <<B("Mapping", kv), B("Generic", vk), B("Tagged", << >>)>>
    @@ "InvFirst" :> <<B("Generic", vk), B("Mapping", kv)>>
    @@ "SameMid"  :> <<B("Mapping", kv), B("Generic", kv), B("Tagged", << >>)>>
    @@ "SI"       :> <<B("InvMid", <<TY("int"), TV("V")>>)>>
    @@ "Chain2"   :> <<B("InvLast", kv)>>
    @@ "Chain3"   :> <<B("Chain2", vk), B("Tagged", << >>)>>
    @@ "S1"       :> <<B("Sequence", t1)>>
    @@ "L1"       :> <<B("list", t1)>>
    @@ "SPair"    :> <<B("Sequence", <<TV("K")>>), B("Generic", vk), B("Tagged", << >>)>> )
GRoots == {"Iterable", "Mapping", "Sequence", "list"}
GUser == DOMAIN GTab \ (GRoots \cup {"Tagged"})

IsGen(b) == b.c = "Generic"
RECURSIVE UniqAppend(_, _)
UniqAppend(acc, xs) == IF xs = << >> THEN acc
                       ELSE UniqAppend(IF \E i \in 1..Len(acc) : acc[i] = Head(xs) THEN acc ELSE Append(acc, Head(xs)), Tail(xs))
TVarsOf(b) == SelectSeq(b.args, LAMBDA a : a.k = "tv")
RECURSIVE ChainTVars(_, _)
ChainTVars(acc, bases) == IF bases = << >> THEN acc ELSE ChainTVars(UniqAppend(acc, TVarsOf(Head(bases))), Tail(bases))

(***************************************************************************)
(* The class's own type parameters, in order.                              *)
(*  "sorted"   arg_spec.py:1085 as it is: the bases are stably sorted so   *)
(*             that a Generic[...] base comes first, then first appearance *)
(*  "lastonly" seeded mistake: Generic[...] is moved to the front only if  *)
(*             it is the last base                                         *)
(*  "ref"      the typing rules (CPython __parameters__): an explicit      *)
(*             Generic[...] lists ALL parameters and dictates their order; *)
(*             without one, the order of first appearance in the bases     *)
(***************************************************************************)
Params(c, m) ==
    LET bs == GTab[c]
        n == Len(bs)
        gens == SelectSeq(bs, IsGen)
    IN CASE m = "sorted" -> ChainTVars(<< >>, gens \o SelectSeq(bs, LAMBDA b : ~IsGen(b)))
         [] m = "lastonly" -> ChainTVars(<< >>, IF n > 0 /\ IsGen(bs[n]) THEN <<bs[n]>> \o SubSeq(bs, 1, n - 1) ELSE bs)
         [] m = "ref" -> IF gens # << >> THEN gens[1].args ELSE ChainTVars(<< >>, bs)

\* the arguments with which c[args] is a `target` (get_generic_bases: substitute the parameters along every base)
Found(args) == [found |-> TRUE, args |-> args]
NotFound == [found |-> FALSE, args |-> << >>]
IdxOf(seq, x) == CHOOSE i \in 1..Len(seq) : seq[i] = x
SubstArgs(bargs, ps, args) ==
    [i \in 1..Len(bargs) |-> IF bargs[i].k = "tv" /\ (\E j \in 1..Len(ps) : ps[j] = bargs[i]) /\ IdxOf(ps, bargs[i]) <= Len(args)
                             THEN args[IdxOf(ps, bargs[i])] ELSE bargs[i]]
RECURSIVE BaseArgs(_, _, _, _), FirstFound(_, _, _, _, _)
BaseArgs(c, args, target, m) ==
    IF c = target THEN Found(args)
    ELSE FirstFound(SelectSeq(GTab[c], LAMBDA b : ~IsGen(b)), Params(c, m), args, target, m)
FirstFound(bases, ps, args, target, m) ==
    IF bases = << >> THEN NotFound
    ELSE LET r == BaseArgs(Head(bases).c, SubstArgs(Head(bases).args, ps, args), target, m)
         IN IF r.found THEN r ELSE FirstFound(Tail(bases), ps, args, target, m)

G(c, args) == [c |-> c, args |-> args]
\* GenericValue.can_assign for two specialised classes whose arguments are int / str: the arguments of the offered type
\* seen as the expected class must exist and agree (not a base at all: nominal rejection)
Accept(E, O, m) == LET r == BaseArgs(O.c, O.args, E.c, m) IN r.found /\ Len(r.args) = Len(E.args) /\ r.args = E.args

\* Ref: an object built as an O = c[args] (its contents typed as CPython's parameter order says) belongs to T iff T is
\* exactly what c[args] is when seen as T's class
Member(o, T) == Accept(T, o, "ref")
Tys == {TY("int"), TY("str")}
Arity(c) == Len(Params(c, "ref"))
ArgTuples(n) == IF n = 1 THEN {<<a>> : a \in Tys} ELSE {<<a, b>> : a \in Tys, b \in Tys}
Offered == UNION {{G(c, a) : a \in ArgTuples(Arity(c))} : c \in GUser}
Expected == UNION {{G(c, a) : a \in ArgTuples(Arity(c))} : c \in GRoots \cup {"InvMid", "InvLast", "Chain2", "M1"}}
Objects == Offered
RefSound(E, O) == \A o \in Objects : Member(o, O) => Member(o, E)

CONSTANT GMode      \* "sorted" (the unchanged tree) | "lastonly" (sensitivity: the seeded mistake)
VARIABLES gstage, ge, go
gvars == <<gstage, ge, go>>
GInit == gstage = "e" /\ ge = G("Iterable", <<TY("int")>>) /\ go = G("G1", <<TY("int")>>)
GChooseE == gstage = "e" /\ \E t \in Expected : ge' = t /\ gstage' = "o" /\ UNCHANGED go
GChooseO == gstage = "o" /\ \E t \in Offered : go' = t /\ gstage' = "done" /\ UNCHANGED ge
GNext == GChooseE \/ GChooseO
GDone == gstage = "done"
InvGSound == GDone => (Accept(ge, go, GMode) => RefSound(ge, go))
InvGRefl == GDone => Accept(go, go, GMode)
\* (not demanded by C04, but true of the unchanged model: it accepts exactly the true base)
InvGExact == GDone => (Accept(ge, go, GMode) <=> Member(go, ge))
\* vacuity guards: inverted classes are accepted as the inverted Mapping only
InvGInverted == /\ Accept(G("Mapping", <<TY("str"), TY("int")>>), G("InvMid", <<TY("int"), TY("str")>>), "sorted")
                /\ ~Accept(G("Mapping", <<TY("int"), TY("str")>>), G("InvMid", <<TY("int"), TY("str")>>), "sorted")
                /\ Accept(G("Mapping", <<TY("int"), TY("str")>>), G("InvMid", <<TY("int"), TY("str")>>), "lastonly")
=============================================================================
