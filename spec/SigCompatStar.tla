---------------------------- MODULE SigCompatStar ----------------------------
(***************************************************************************)
(* The typed *args / **kwargs slice of C07: the machine, the reference and *)
(* the invariants are those of SigCompat.tla; only the generator differs.  *)
(* It draws the parameter kinds of the expected and of the actual          *)
(* signature from two constant sets, so that the bounded space can be      *)
(* spent on the interplay that Signature.can_assign decides with its three *)
(* bookkeeping sets (consumed_positional, consumed_required_pos_only,      *)
(* consumed_keyword, signature.py:1514-1516, :1538-1540, :1572-1573,       *)
(* :1617, :1644-1651, :1664-1671): defaulted positional-only /             *)
(* positional-or-keyword parameters next to annotated *args / **kwargs on  *)
(* both sides, with parameter types from two unrelated classes (B and U)   *)
(* and Any.  The reference clause that matters here is                     *)
(* RefContravariant: a keyword the expected signature routes into its      *)
(* **kwargs: S (a positional into *args: S) lands, in the actual function, *)
(* in a parameter whose declared type must contain S.                      *)
(***************************************************************************)
EXTENDS SigCompat

CONSTANTS
    ExpKinds,      \* parameter kinds of the expected signature
    ActKinds       \* parameter kinds of the actual signature

StarAddExp ==
    /\ stage = "exp" /\ Len(case.exp) < MaxExpected
    /\ \E k \in ExpKinds, d \in BOOLEAN, t \in TypeRanks :
         LET sig2 == Append(case.exp, [kind |-> k, name |-> Names[Len(case.exp) + 1], dflt |-> d, ty |-> t])
         IN ValidSig(sig2) /\ case' = [case EXCEPT !.exp = sig2]
    /\ UNCHANGED <<stage, s, br>>

StarAddAct ==
    /\ stage = "act" /\ Len(case.act) < MaxActual
    /\ \E k \in ActKinds, d \in BOOLEAN, nm \in ActNames, t \in TypeRanks :
         LET sig2 == Append(case.act, [kind |-> k, name |-> nm, dflt |-> d, ty |-> t])
         IN ValidSig(sig2) /\ case' = [case EXCEPT !.act = sig2]
    /\ UNCHANGED <<stage, s, br>>

StarNext == StarAddExp \/ EndExp \/ StarAddAct \/ EndAct \/ SCLoopNext
=============================================================================
