----------------------------- MODULE DeclFields -----------------------------
(***************************************************************************)
(* C13 for DECLARATIONS OF STRUCTURED TYPES: what a class declaration says *)
(* about a field must not depend on how the field's annotation is spelled  *)
(* -- as an expression (CPython evaluates it: an OBJECT), quoted (a        *)
(* string), or in a `from __future__ import annotations` module (a string) *)
(* -- nor on the route by which pyanalyze reads the class.                 *)
(*                                                                         *)
(* A case  [kind, base, total, stack, spelling, inherit, q, dflt]:         *)
(*  kind "td"  class TD(<base>.TypedDict, total=<total>): a: <stack>[int]; *)
(*             b: str      base "typing" | "ext" (typing_extensions);      *)
(*             stack = qualifiers around int, outermost first, over        *)
(*             Required NotRequired ReadOnly Annotated; inherit: `a` is    *)
(*             declared in a base TypedDict of the observed class          *)
(*  kind "dc"  @dataclass class K: b: int; a: <q>[int] [= 1]               *)
(*             q "none" | "ClassVar" | "InitVar" | "Final"                 *)
(*  kind "nt"  class K(NamedTuple): b: int; a: int [= 1]                   *)
(*                                                                         *)
(* Py*   models of what CPython records when it executes the declaration   *)
(*       (validated against the real class in every observation);         *)
(* Impl* transcription of annotations.py:428-470 (_TypedDictMeta branch),  *)
(*       :640-663 _get_typeddict_value;                                    *)
(* Ref*  the declared meaning per PEP 589 / 655 / 705 (TypedDict), PEP 557 *)
(*       (dataclass fields), independent of spelling and route.            *)
(***************************************************************************)
EXTENDS Naturals, Sequences, FiniteSets, TLC

CONSTANTS
    Kinds, Bases, Totals, Stacks, Spellings, Inherits, DcQuals, Dflts,    \* the generator's choices
    BugReadOnlyOnlyWithoutKeys,   \* sensitivity: a ReadOnly qualifier found in the evaluated annotation is honoured
                                  \* only when the class has no __readonly_keys__
    BugRequiredFromKeysOnly       \* sensitivity: Required / NotRequired found in the annotation are ignored

VARIABLES stage, case
dvars == <<stage, case>>

Qualifiers == {"Required", "NotRequired", "ReadOnly"}
Has(stack, q) == \E i \in 1..Len(stack) : stack[i] = q
IsString(sp) == sp \in {"quoted", "future"}
\* Annotated[...] wrapped AROUND a qualifier (legal: PEP 655 / 705 allow any nesting order)
AnnotatedAroundQualifier(stack) == \E i, j \in 1..Len(stack) : i < j /\ stack[i] = "Annotated" /\ stack[j] \in Qualifiers
\* the qualifiers before the first Annotated
RECURSIVE Leading(_)
Leading(stack) == IF stack = << >> \/ Head(stack) = "Annotated" THEN << >> ELSE <<Head(stack)>> \o Leading(Tail(stack))

(***************************************************************************)
(* CPython: the key sets recorded on the class                             *)
(***************************************************************************)
\* typing_extensions._TypedDictMeta looks through Required / NotRequired / ReadOnly / Annotated in any order -- on
\* annotation OBJECTS; a string annotation is a ForwardRef for it.  typing.TypedDict (3.12) has no __readonly_keys__,
\* unwraps one outer Annotated and then recognises only an outermost Required / NotRequired.
PyReadonlyKey(c) ==
    IF c.base = "typing" THEN "none"
    ELSE IF ~IsString(c.spelling) /\ Has(c.stack, "ReadOnly") THEN "yes" ELSE "no"
PyRequiredKey(c) ==
    IF IsString(c.spelling) THEN c.total
    ELSE IF c.base = "ext"
         THEN (IF Has(c.stack, "Required") THEN TRUE ELSE IF Has(c.stack, "NotRequired") THEN FALSE ELSE c.total)
    ELSE LET s == IF c.stack # << >> /\ Head(c.stack) = "Annotated" THEN Tail(c.stack) ELSE c.stack
         IN IF s # << >> /\ s[1] = "Required" THEN TRUE ELSE IF s # << >> /\ s[1] = "NotRequired" THEN FALSE ELSE c.total

(***************************************************************************)
(* Impl: the entry of key `a` -- <<required, readonly, type>>              *)
(***************************************************************************)
Flag(b, yes, no) == IF b THEN yes ELSE no
\* what the evaluated field annotation is once the leading qualifiers are unwrapped (_type_from_runtime(...,
\* is_typeddict=True)): a qualifier below an Annotated stays INSIDE the Annotated value when the annotation is an
\* object (annotations.py:1177 _value_of_origin_args) and is rejected ("not allowed here") when it is parsed from a
\* string (:797 _type_from_subscripted_value)
ImplFieldType(c) ==
    IF AnnotatedAroundQualifier(c.stack)
    THEN (IF IsString(c.spelling) THEN "Annotated[AnyValue]" ELSE "Annotated[TypeQualifierValue]")
    ELSE IF Has(c.stack, "Annotated") THEN "Annotated[int]" ELSE "int"
RECURSIVE ImplUnwrap(_, _, _, _)
\* annotations.py:654-662: the while loop over TypeQualifierValue
ImplUnwrap(quals, req, ro, c) ==
    IF quals = << >> THEN <<req, ro>>
    ELSE LET q == Head(quals)
         IN CASE q = "ReadOnly" -> ImplUnwrap(Tail(quals), req, ro \/ ~BugReadOnlyOnlyWithoutKeys \/ PyReadonlyKey(c) = "none", c)
              [] q = "Required" -> ImplUnwrap(Tail(quals), req \/ ~BugRequiredFromKeysOnly, ro, c)
              [] q = "NotRequired" -> ImplUnwrap(Tail(quals), req /\ BugRequiredFromKeysOnly, ro, c)
\* a context in which the qualifiers' names mean the qualifiers: the defining module's globals (type_from_runtime),
\* the visitor of the defining module, an importing module that imports them too
ImplEntry(c) ==
    LET f == ImplUnwrap(Leading(c.stack), PyRequiredKey(c), PyReadonlyKey(c) = "yes", c)      \* :645-653 start from the key sets
    IN <<Flag(f[1], "required", "optional"), Flag(f[2], "readonly", "writable"), ImplFieldType(c)>>
\* an importing module that does NOT import the qualifiers' names: the ForwardRefs of the imported class are evaluated
\* with the CHECKED module's names (the context handed to _type_from_runtime), so the whole annotation is Any[error];
\* an object annotation needs no lookup
ImplEntryBare(c) ==
    IF IsString(c.spelling) /\ c.stack # << >>
    THEN <<Flag(PyRequiredKey(c), "required", "optional"), Flag(PyReadonlyKey(c) = "yes", "readonly", "writable"), "Any[error]">>
    ELSE ImplEntry(c)
TdRoutes == {"rt", "param", "imp", "impbare"}
ImplRoute(c, r) == IF r = "impbare" THEN ImplEntryBare(c) ELSE ImplEntry(c)

(***************************************************************************)
(* Ref: what the declaration states                                        *)
(***************************************************************************)
\* PEP 655: Required[] / NotRequired[] override the class's totality; PEP 705: ReadOnly[] makes the item read-only;
\* Annotated[] may be nested with them in any order and changes nothing; quoting changes nothing (PEP 484 / 563)
RefRequired(c) == IF Has(c.stack, "Required") THEN TRUE ELSE IF Has(c.stack, "NotRequired") THEN FALSE ELSE c.total
RefReadonly(c) == Has(c.stack, "ReadOnly")
RefDeclaredEntry(e, c) ==
    /\ e[1] = Flag(RefRequired(c), "required", "optional")
    /\ e[2] = Flag(RefReadonly(c), "readonly", "writable")
    /\ e[3] \in {"int", "Annotated[int]"}
\* operations on a value of the type, given an item's flags (PEP 589 "del on a required key", PEP 705 "a read-only
\* item cannot be assigned, deleted, popped or setdefault'ed"; a literal must supply the required keys; assignment to
\* class W(<same base>, total=<total>): a: int; b: str needs a writable `a` of the same requiredness)
Ops == {"set", "del", "pop", "setdefault", "missing", "toW"}
RefRejects(op, req, ro, c) ==
    CASE op \in {"set", "setdefault"} -> ro
      [] op \in {"del", "pop"} -> ro \/ req
      [] op = "missing" -> req
      [] op = "toW" -> ro \/ (req # c.total)
RefOpsFollow(ops, req, ro, c) == \A op \in Ops : (ops[op] # << >>) = RefRejects(op, req, ro, c)

\* Known deviations (each excuses only what ImplEntry / ImplEntryBare reproduce exactly):
\* (A) the field annotations of an IMPORTED TypedDict that are strings are evaluated with the importing module's names
Dev_FieldNamesInImporterScope(c) == c.kind = "td" /\ IsString(c.spelling) /\ c.stack # << >>
\* (B) Annotated[...] around a qualifier: the object route leaves the qualifier inside the Annotated value (its flag
\*     is lost unless the key sets carry it), the string route rejects it
Dev_AnnotatedAroundQualifier(c) == c.kind = "td" /\ AnnotatedAroundQualifier(c.stack)

(***************************************************************************)
(* dataclass / NamedTuple: the constructor                                 *)
(***************************************************************************)
\* PEP 557: a ClassVar field is not a parameter of __init__, an InitVar field is (typed by its argument), Final is an
\* ordinary field; dataclasses recognises the string spellings by name (dataclasses._is_type).  NamedTuple: every field
PyInitParams(c) ==
    LET a == <<"a", "POSITIONAL_OR_KEYWORD", IF c.dflt THEN "default" ELSE "nodefault">>
        b == <<"b", "POSITIONAL_OR_KEYWORD", "nodefault">>
    IN IF c.kind = "dc" /\ c.q = "ClassVar" THEN <<b>> ELSE <<b, a>>
\* arg_spec.py: the constructor's signature is inspect.signature(cls) read through from_signature: annotations through
\* _type_from_runtime -- InitVar[int] as an object is unwrapped (annotations.py InitVar branch), as a string it is
\* evaluated like a generic class InitVar[int]
ImplInitParamType(c) ==
    IF c.kind = "dc" /\ c.q = "InitVar" /\ IsString(c.spelling) THEN "InitVar[int]" ELSE "int"
Dev_InitVarInString(c) == c.kind = "dc" /\ c.q = "InitVar" /\ IsString(c.spelling)
CallNames == {"one", "two", "kw"}
\* K(1) / K(1, 2) / K(b=1, a=2) against the declared constructor
RefCallRejected(call, c) ==
    LET hasA == Len(PyInitParams(c)) = 2
    IN CASE call = "one" -> hasA /\ ~c.dflt
         [] OTHER -> ~hasA

(***************************************************************************)
(* Generator                                                               *)
(***************************************************************************)
\* the stacks by name (TLC configuration files cannot hold sequences)
StackOf(name) ==
    CASE name = "-" -> << >>
      [] name = "Req" -> <<"Required">>
      [] name = "NotReq" -> <<"NotRequired">>
      [] name = "RO" -> <<"ReadOnly">>
      [] name = "RO/Req" -> <<"ReadOnly", "Required">>
      [] name = "Req/RO" -> <<"Required", "ReadOnly">>
      [] name = "NotReq/RO" -> <<"NotRequired", "ReadOnly">>
      [] name = "RO/NotReq" -> <<"ReadOnly", "NotRequired">>
      [] name = "Ann/RO" -> <<"Annotated", "ReadOnly">>
      [] name = "RO/Ann" -> <<"ReadOnly", "Annotated">>
      [] name = "Ann/NotReq" -> <<"Annotated", "NotRequired">>
      [] name = "NotReq/Ann" -> <<"NotRequired", "Annotated">>
      [] name = "Req/Ann/RO" -> <<"Required", "Annotated", "ReadOnly">>
Blank == [kind |-> "td", base |-> "typing", total |-> TRUE, stack |-> << >>, spelling |-> "obj", inherit |-> FALSE,
          q |-> "none", dflt |-> FALSE]
DInit == stage = "kind" /\ case = Blank
ChooseKind == stage = "kind" /\ \E k \in Kinds : case' = [case EXCEPT !.kind = k] /\ stage' = "decl"
ChooseDecl ==
    /\ stage = "decl"
    /\ \/ case.kind = "td" /\ \E b \in Bases, t \in Totals, s \in Stacks, i \in Inherits :
             case' = [case EXCEPT !.base = b, !.total = t, !.stack = StackOf(s), !.inherit = i]
       \/ case.kind = "dc" /\ \E q \in DcQuals, d \in Dflts : case' = [case EXCEPT !.q = q, !.dflt = d]
       \/ case.kind = "nt" /\ \E d \in Dflts : case' = [case EXCEPT !.dflt = d]
    /\ stage' = "spelling"
ChooseSpelling == stage = "spelling" /\ \E s \in Spellings : case' = [case EXCEPT !.spelling = s] /\ stage' = "done"
DNext == ChooseKind \/ ChooseDecl \/ ChooseSpelling

(***************************************************************************)
(* Invariants                                                              *)
(***************************************************************************)
Done == stage = "done"
\* every route that knows the qualifiers' names states the declared entry ...
DeclaredMeaning ==
    (Done /\ case.kind = "td") => (RefDeclaredEntry(ImplEntry(case), case) \/ Dev_AnnotatedAroundQualifier(case))
DeclaredMeaningStrict == (Done /\ case.kind = "td") => RefDeclaredEntry(ImplEntry(case), case)
\* ... all routes give the same entry ...
FieldRoutesAgree ==
    (Done /\ case.kind = "td") => (\A r \in TdRoutes : ImplRoute(case, r) = ImplEntry(case)) \/ Dev_FieldNamesInImporterScope(case)
FieldRoutesAgreeStrict == (Done /\ case.kind = "td") => \A r \in TdRoutes : ImplRoute(case, r) = ImplEntry(case)
\* ... whatever the spelling
SpellingIndependent ==
    (Done /\ case.kind = "td" /\ ~Dev_AnnotatedAroundQualifier(case)) =>
        \A sp \in Spellings : ImplEntry([case EXCEPT !.spelling = sp])[1] = ImplEntry(case)[1]
                              /\ ImplEntry([case EXCEPT !.spelling = sp])[2] = ImplEntry(case)[2]
ConstructorTyped == (Done /\ case.kind \in {"dc", "nt"}) => (ImplInitParamType(case) = "int" \/ Dev_InitVarInString(case))
ConstructorTypedStrict == (Done /\ case.kind \in {"dc", "nt"}) => ImplInitParamType(case) = "int"
=============================================================================
