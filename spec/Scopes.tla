------------------------------- MODULE Scopes -------------------------------
(***************************************************************************)
(* Model of pyanalyze's per-function scope machinery (property C09):       *)
(*   stacked_scopes.FunctionScope  -- set, get_local (collecting phase),   *)
(*     subscope, loop_scope, suppressing_subscope, get_combined_scope /    *)
(*     combine_subscopes  (stacked_scopes.py:860-1290)                     *)
(*   name_check_visitor -- what the visitor issues per statement kind:     *)
(*     visit_If (:4531), visit_For (:4207), visit_While (:4249),           *)
(*     _handle_loop_else (:4279), visit_single_cm (:4351),                 *)
(*     visit_try_except (:4402), visit_Try (:4435), Return / Raise /       *)
(*     Break / Continue markers (:4091-4205).                              *)
(*                                                                         *)
(* State S of the visitor inside one function:                             *)
(*   cur   : name -> [present, nodes]   name_to_current_definition_nodes   *)
(*           (names: the variables plus the pseudo-names "LS" =            *)
(*           LEAVES_SCOPE and "LL" = LEAVES_LOOP; `present` = dict key     *)
(*           exists; nodes = ordered definition nodes, 0 = _UNINITIALIZED) *)
(*   usage : use id -> [present, nodes]  usage_to_definition_nodes         *)
(*   all   : name -> set of nodes        name_to_all_definition_nodes      *)
(*   loops : stack of lists of subscopes current_loop_scopes (the          *)
(*           qcore.override in loop_scope makes it a stack)                *)
(* The collecting phase builds `usage`; the checking phase only reads it,  *)
(* so Reported(use) is determined by the collecting visit modelled here.   *)
(***************************************************************************)
EXTENDS CFG

Names == Vars \cup {"LS", "LL"}
ASSUME Vars = {"x", "y"}        \* MkScope below spells the names out
Absent == [present |-> FALSE, nodes |-> << >>]
Entry(nodes) == [present |-> TRUE, nodes |-> nodes]
\* A scope dict, built EAGERLY as a record over the four names.  (TLC represents [n \in Names |-> e] as a lazy
\* function whose body is re-evaluated at every application; scopes are built on top of scopes, so lazy scope dicts
\* make a lookup cost exponential in the nesting of combine_subscopes calls.)
MkScope(F(_)) == [x |-> F("x"), y |-> F("y"), LS |-> F("LS"), LL |-> F("LL")]

EmptyScope == MkScope(LAMBDA n : Absent)

\* ---- list helpers ------------------------------------------------------------
RECURSIVE Uniq(_, _)
Uniq(s, acc) == IF s = << >> THEN acc
                ELSE Uniq(Tail(s), IF \E i \in 1..Len(acc) : acc[i] = Head(s) THEN acc ELSE Append(acc, Head(s)))
RECURSIVE ConcatAll(_)
ConcatAll(ss) == IF ss = << >> THEN << >> ELSE Head(ss) \o ConcatAll(Tail(ss))
RECURSIVE SetToSortedSeq(_)
SetToSortedSeq(S) == IF S = {} THEN << >>
                     ELSE LET m == CHOOSE x \in S : \A y \in S : x <= y IN <<m>> \o SetToSortedSeq(S \ {m})
ToSet(s) == {s[i] : i \in 1..Len(s)}

\* ---- FunctionScope.subscope (stacked_scopes.py:1213): a copy without LEAVES_SCOPE
SubCopy(cur) == [cur EXCEPT !["LS"] = Absent]

\* ---- FunctionScope.set (stacked_scopes.py:1096)
SetName(S, name, node) ==
    [S EXCEPT !.cur[name] = Entry(<<node>>), !.all[name] = @ \cup {node}]

\* a name that is not a local at the place of use is looked up in the module scope, where the leak is found
FromModule(S, v, useid) ==
    IF ~S.usage[useid].present /\ S.mod[v] # {} THEN [S EXCEPT !.usage[useid] = Entry(SetToSortedSeq(S.mod[v]))] ELSE S

\* ---- FunctionScope.get_local in the collecting phase (stacked_scopes.py:1121)
\* a use inside a nested function g: Scope.get (stacked_scopes.py:715) looks the name up in the enclosing
\* FunctionScope with the key (varname, g's node) each time g's body is visited in g's collecting state, i.e. once
\* while f is collected and once more while f is checked (name_check_visitor.py:2281-2320)
UseNested(S, v, useid) ==
    IF S.cur[v].present
    THEN [S EXCEPT !.usage[useid] = Entry((IF @.present THEN @.nodes ELSE << >>) \o S.cur[v].nodes)]
    ELSE IF S.phase = "check" THEN FromModule(S, v, useid) ELSE S
\* `nonlocal v; v = <id>` inside a nested function: visit_Nonlocal (name_check_visitor.py:2583) finds the defining
\* scope with `varname in scope` (name_to_all_definition_nodes) and FunctionScope.set (stacked_scopes.py:1104)
\* forwards the assignment to it -- at the place where g is DEFINED
\* ... and when the enclosing function has not assigned v yet (collecting phase), get_nonlocal_scope finds nothing
\* and visit_Nonlocal silently falls back to the module scope: the value leaks into a module-level variable `v`
SetNonlocal(S, v, node) == IF S.all[v] # {} THEN SetName(S, v, node) ELSE [S EXCEPT !.mod[v] = @ \cup {node}]
UseName(S, v, useid) ==
    IF S.phase = "check" THEN FromModule(S, v, useid)     \* the checking phase only reads usage_to_definition_nodes
    ELSE IF S.cur[v].present
    THEN [S EXCEPT !.usage[useid] = Entry((IF @.present THEN @.nodes ELSE << >>) \o S.cur[v].nodes)]
    ELSE S            \* not a local at this point: falls through to the enclosing scopes

\* ---- get_combined_scope / combine_subscopes (stacked_scopes.py:1245-1275)
\* scopes with LEAVES_LOOP go to the current loop's list; scopes with LEAVES_SCOPE are dropped
HasLL(sc) == sc["LL"].present
HasLS(sc) == sc["LS"].present
Included(scopes, ignoreLS) == SelectSeq(scopes, LAMBDA sc : ~HasLL(sc) /\ (~HasLS(sc) \/ ignoreLS))
ToLoops(scopes) == SelectSeq(scopes, LAMBDA sc : HasLL(sc))

CombinedScope(scopes, ignoreLS) ==
    LET inc == Included(scopes, ignoreLS)
    IN IF inc = << >> THEN [EmptyScope EXCEPT !["LS"] = Entry(<< >>)]
       ELSE MkScope(LAMBDA n :
               IF \E i \in 1..Len(inc) : inc[i][n].present
               THEN Entry(Uniq(ConcatAll([i \in 1..Len(inc) |-> IF inc[i][n].present THEN inc[i][n].nodes ELSE <<0>>]), << >>))
               ELSE Absent)

PushToLoops(loops, scs) ==
    IF scs = << >> THEN loops
    ELSE [loops EXCEPT ![Len(loops)] = @ \o scs]

Combine(S, scopes, ignoreLS) ==
    LET comb == CombinedScope(scopes, ignoreLS)
    IN [S EXCEPT !.cur = MkScope(LAMBDA n : IF comb[n].present THEN comb[n] ELSE S.cur[n]),
                 !.loops = PushToLoops(S.loops, ToLoops(scopes))]

StripLL(sc) == [sc EXCEPT !["LL"] = Absent]

(***************************************************************************)
(* The visitor                                                             *)
(***************************************************************************)
RECURSIVE Visit(_, _), VisitStmt(_, _), VisitHandlers(_, _, _, _, _), VisitTryExcept(_, _), VisitCases(_, _, _, _)

\* run `block` in a fresh subscope of S; returns the state afterwards with the outer `cur` restored
\* (field st) and the subscope's final dict (field scope)
InSub(block, S) ==
    LET R == Visit(block, [S EXCEPT !.cur = SubCopy(S.cur)])
    IN [st |-> [R EXCEPT !.cur = S.cur], scope |-> R.cur]

\* suppressing_subscope (stacked_scopes.py:1170) around `inner`, where inner = [st, scope] is the result
\* of running something in a fresh subscope of S0 (st.cur already restored to S0.cur)
Suppress(S0, inner) ==
    LET S1 == inner.st
        rest == MkScope(LAMBDA n :
                    IF n \in {"LS", "LL"} THEN Absent      \* `if key != LEAVES_SCOPE and key != LEAVES_LOOP` (repo 440760d)
                    ELSE LET d == S1.all[n] \ S0.all[n]
                         IN IF d = {} THEN Absent ELSE Entry(SetToSortedSeq(d)))
        dummy == SubCopy(S1.cur)
        newscope == MkScope(LAMBDA n :
                        IF rest[n].present \/ dummy[n].present
                        THEN Entry((IF dummy[n].present THEN dummy[n].nodes ELSE << >>)
                                   \o (IF rest[n].present THEN rest[n].nodes ELSE << >>))
                        ELSE Absent)
    IN Combine(S1, <<dummy, newscope>>, FALSE)

\* visit_try_except (name_check_visitor.py:4402); returns the state after the statement
VisitHandlers(handlers, idx, S, dummy, failure) ==
    \* returns [st, scopes]: every handler body runs in its own subscope of S after
    \* combine_subscopes([dummy_scope, failure_scope])
    IF idx > Len(handlers) THEN [st |-> S, scopes |-> << >>]
    ELSE LET start == Combine([S EXCEPT !.cur = SubCopy(S.cur)], <<dummy, failure>>, FALSE)
             R == Visit(handlers[idx], start)
             restored == [R EXCEPT !.cur = S.cur]
             more == VisitHandlers(handlers, idx + 1, restored, dummy, failure)
         IN [st |-> more.st, scopes |-> <<R.cur>> \o more.scopes]

VisitTryExcept(s, S) ==
    LET W == [S EXCEPT !.cur = SubCopy(S.cur)]                 \* with self.scopes.subscope():
        dummy == SubCopy(W.cur)                                \*   dummy_scope
        F0 == [W EXCEPT !.cur = SubCopy(W.cur)]                \*   failure_scope
        body == InSub(s.body, F0)                              \*     suppressing_subscope -> success_scope
        F1 == Suppress(F0, body)
        failure == F1.cur
        afterF == [F1 EXCEPT !.cur = W.cur]
        E0 == Combine([afterF EXCEPT !.cur = SubCopy(W.cur)], <<body.scope>>, FALSE)   \* else_scope
        E1 == Visit(s.orelse, E0)
        afterE == [E1 EXCEPT !.cur = W.cur]
        H == VisitHandlers(s.handlers, 1, afterE, dummy, failure)
        out == [H.st EXCEPT !.cur = S.cur]                     \* leave the outer subscope
    IN Combine(out, <<E1.cur>> \o H.scopes, FALSE)

\* visit_Match (name_check_visitor.py:5685): every case runs in its own subscope of the state before the statement
\* (`outer`); a capture is set by PatmaVisitor.visit_MatchAs / visit_MatchStar (patma.py:381) with the pattern node as
\* definition node; the subject is a call, so the pattern / guard constraints have no varname and change nothing.
\* Returns [st, scopes].
VisitCases(s, idx, S, outer) ==
    IF idx > Len(s.cases) THEN [st |-> S, scopes |-> << >>]
    ELSE LET c == s.cases[idx]
             start == [S EXCEPT !.cur = SubCopy(outer)]
             S1 == IF c.pat \in {"cap", "seq"} THEN SetName(start, s.v, c.id) ELSE start
             R == Visit(c.body, S1)
             more == VisitCases(s, idx + 1, [R EXCEPT !.cur = outer], outer)
         IN [st |-> more.st, scopes |-> <<R.cur>> \o more.scopes]

VisitStmt(s, S) ==
    CASE s.k = "assign"   -> SetName(S, s.v, s.id)
      [] s.k = "use"      -> UseName(S, s.v, s.id)
      [] s.k = "call"     -> S
      [] s.k = "defg"     -> UseNested(S, s.v, s.id)
      [] s.k = "defn"     -> SetNonlocal(S, s.v, s.id)
      [] s.k = "callg"    -> S             \* calling g has no effect on f's scope
      [] s.k \in {"return", "raise"} -> SetName(S, "LS", s.id)
      [] s.k \in {"break", "continue"} -> SetName(S, "LL", s.id)
      [] s.k = "if" ->
            LET b == InSub(s.body, S)
                o == InSub(s.orelse, b.st)
            IN Combine(o.st, <<b.scope, o.scope>>, FALSE)
      \* ---- other binding forms (each is FunctionScope.set with the binding node as definition node) ----
      \* visit_AugAssign (:4762): composite_from_name(target, force_read=True) records the usage under the target
      \* node, then visit(target) in Store context sets the name with the same node
      [] s.k = "aug"      -> SetName(UseName(S, s.v, s.id), s.v, s.id)
      \* visit_Import (:2668) -> _set_alias_in_scope: definition node = the ast.alias
      [] s.k = "import"   -> SetName(S, s.v, s.id)
      \* visit_ExceptHandler (:4482): _set_name_in_scope(node.name, node, ...) before the body; nothing afterwards
      [] s.k = "exas"     -> SetName(S, s.v, s.id)
      \* visit_If (:4554) with a walrus test: composite_from_walrus (:4669) sets the name, then the is_truthy constraint
      \* on it is added at the start of both branches: _add_single_constraint (stacked_scopes.py:1058) looks the name
      \* up with get_origin(varname, <the If node>) -- which records the current definition nodes as USED under the
      \* key (If node, varname) (field cons) -- and makes a _ConstrainedValue node the current definition, which
      \* resolves to the nodes current at that point (so the definition nodes are unchanged up to resolution)
      [] s.k = "ifw" ->
            LET S1 == SetName(S, s.v, s.id)
                S2 == [S1 EXCEPT !.cons = @ \cup {s.id}]
                b == InSub(s.body, S2)
                o == InSub(s.orelse, b.st)
            IN Combine(o.st, <<b.scope, o.scope>>, FALSE)
      \* visit_single_cm (:4374): visit_withitem assigns optional_vars BEFORE the suppressing subscope is opened
      [] s.k = "withas" ->
            LET S1 == SetName(S, s.v, s.id)
            IN IF s.supp THEN Suppress(S1, InSub(s.body, S1)) ELSE Visit(s.body, S1)
      \* visit_For (:4230): visit(node.target) right before the body, inside the loop scope, in both visits
      [] s.k = "forv" ->
            VisitStmt([k |-> "for", id |-> s.id, body |-> <<[k |-> "assign", v |-> s.v, id |-> s.id]>> \o s.body,
                       orelse |-> s.orelse], S)
      [] s.k = "match" ->
            LET C == VisitCases(s, 1, S, S.cur)
                \* after an unguarded irrefutable case the narrowed subject is NO_RETURN_VALUE: the implicit else is a scope
                \* that leaves (repo 38601f1); a guarded case never exhausts the subject
                exhaustive == \E i \in 1..Len(s.cases) : s.cases[i].pat \in {"cap", "wild"} /\ ~s.cases[i].guard
                E0 == [C.st EXCEPT !.cur = SubCopy(S.cur)]
                E1 == IF exhaustive THEN SetName(E0, "LS", s.id) ELSE E0
            IN Combine([E1 EXCEPT !.cur = S.cur], C.scopes \o <<E1.cur>>, FALSE)
      \* ---- inner scopes ----
      \* a comprehension (_visit_sequence_comp :2962), a lambda (visit_Lambda :2231) and a class body are visited in
      \* their own scope; a name they do not bind is looked up in the enclosing FunctionScope with the key
      \* (varname, scope node) -- the same route as a nested def (UseNested), once per phase of the enclosing function
      [] s.k = "cuse"     -> UseNested(S, s.v, s.id)
      \* the first iterable is visited in the enclosing scope before the comprehension's scope is added (:2969)
      [] s.k = "citer"    -> UseName(S, s.v, s.id)
      \* targets of a comprehension / class-body assignments are set in the inner scope
      [] s.k = "cbind"    -> S
      \* composite_from_walrus (:4669) inside a comprehension body: ignore_topmost_scope(), i.e. a plain
      \* FunctionScope.set in the enclosing function -- unconditionally
      [] s.k = "cwal"     -> SetName(S, s.v, s.id)
      \* visit_While (:4272): always_entered = get_boolability(test) in (value_always_true, type_always_true) -- a non-empty
      \* tuple / a non-zero int literal, NOT value_always_true_mutable (a currently non-empty list)
      [] s.k \in {"while", "for", "whilev"} ->
            LET always == (s.k = "while" /\ s.true) \/ (s.k = "whilev" /\ s.t \in AlwaysTrueTests)
                \* with subscope() as body_scope:  with loop_scope() as loop_scopes:
                B0 == [S EXCEPT !.cur = SubCopy(S.cur)]
                M0 == [B0 EXCEPT !.cur = SubCopy(B0.cur), !.loops = Append(@, << >>)]
                M1 == Visit(s.body, M0)
                loopscopes == <<M1.cur>> \o M1.loops[Len(M1.loops)]       \* main_scope first
                B1 == Combine([M1 EXCEPT !.cur = B0.cur, !.loops = SubSeq(@, 1, Len(@) - 1)],
                              [i \in 1..Len(loopscopes) |-> StripLL(loopscopes[i])], FALSE)
                bodyscope == B1.cur
                O0 == [B1 EXCEPT !.cur = S.cur]
                \* _handle_loop_else
                O1 == IF always THEN Combine(O0, <<bodyscope>>, FALSE) ELSE O0
                bodyscope2 == IF always THEN SubCopy(O1.cur) ELSE bodyscope
                e == InSub(s.orelse, O1)
                O2 == Combine(e.st, <<bodyscope2, e.scope>>, FALSE)
                \* second visit of the body in the collecting phase
                O3 == IF S.phase = "collect" THEN InSub(s.body, O2).st ELSE O2
                noexit == always /\ \A i \in 1..Len(loopscopes) : ~HasLL(loopscopes[i])
            IN IF noexit THEN SetName(O3, "LS", s.id) ELSE O3
      [] s.k = "with" ->
            IF s.supp THEN Suppress(S, InSub(s.body, S)) ELSE Visit(s.body, S)
      [] s.k = "try" ->
            IF s.final = << >> THEN VisitTryExcept(s, S)
            ELSE LET F0 == [S EXCEPT !.cur = SubCopy(S.cur)]              \* failure_scope
                     I0 == [F0 EXCEPT !.cur = SubCopy(F0.cur)]            \* suppressing_subscope -> success_scope
                     I1 == VisitTryExcept(s, I0)
                     inner == [st |-> [I1 EXCEPT !.cur = F0.cur], scope |-> I1.cur]
                     F1 == Suppress(F0, inner)
                     failure == F1.cur
                     back == [F1 EXCEPT !.cur = S.cur]
                     \* with subscope(): combine([failure_scope]); visit finalbody      (discarded)
                     X0 == Combine([back EXCEPT !.cur = SubCopy(S.cur)], <<failure>>, FALSE)
                     X1 == Visit(s.final, X0)
                     Y0 == Combine([X1 EXCEPT !.cur = S.cur], <<inner.scope>>, FALSE)
                 IN Visit(s.final, Y0)

Visit(block, S) == IF block = << >> THEN S ELSE Visit(Tail(block), VisitStmt(Head(block), S))

\* ---- a whole function body ------------------------------------------------------
MaxId == 12
S0 == [cur |-> EmptyScope, usage |-> [u \in 1..MaxId |-> Absent], all |-> [x |-> {}, y |-> {}, LS |-> {}, LL |-> {}], loops |-> << << >> >>,
       phase |-> "collect", mod |-> [v \in Vars |-> {}],
       cons |-> {}]       \* definition nodes recorded as used through a constraint lookup (get_origin)

RECURSIVE HasKind(_, _)
HasKind(block, kinds) ==
    \E i \in 1..Len(block) :
        LET s == block[i]
        IN \/ s.k \in kinds
           \/ s.k \in IfKinds \cup LoopKinds /\ (HasKind(s.body, kinds) \/ HasKind(s.orelse, kinds))
           \/ s.k \in WithKinds /\ HasKind(s.body, kinds)
           \/ s.k = "try" /\ (HasKind(s.body, kinds) \/ HasKind(s.orelse, kinds) \/ HasKind(s.final, kinds)
                              \/ \E j \in 1..Len(s.handlers) : HasKind(s.handlers[j], kinds))
           \/ s.k = "match" /\ \E j \in 1..Len(s.cases) : HasKind(s.cases[j].body, kinds)

\* The function body is visited twice: collecting, then checking.  The FunctionScope is NOT reset in between
\* (name_to_current_definition_nodes keeps its final collecting-phase contents), and only lookups from nested
\* functions add to usage_to_definition_nodes during the second visit.
\* definition nodes the unused-variable check (_check_function_unused_vars, name_check_visitor.py:2394) counts as
\* used: everything in usage_to_definition_nodes, including the keys created by constraint lookups
ImplFinal(prog) ==
    LET P1 == Visit(prog, S0)
    IN IF HasKind(prog, {"defg", "defn", "cuse"})
       THEN Visit(prog, [P1 EXCEPT !.phase = "check", !.loops = << << >> >>])
       ELSE P1
ImplUsage(prog) == ImplFinal(prog).usage
ImplUsedNodes(F) == F.cons \cup UNION {ToSet(F.usage[u].nodes) : u \in DOMAIN F.usage}
\* names looked up from a nested scope (accessed_from_special_nodes, stacked_scopes.py:1140) or assigned through
\* nonlocal (:1118) are exempt from the check
RECURSIVE SpecialVars(_)
SpecialVars(block) ==
    UNION {LET s == block[i]
           IN CASE s.k \in {"defg", "defn", "cuse"} -> {s.v}
                [] s.k \in IfKinds \cup LoopKinds -> SpecialVars(s.body) \cup SpecialVars(s.orelse)
                [] s.k \in WithKinds -> SpecialVars(s.body)
                [] s.k = "try" -> SpecialVars(s.body) \cup SpecialVars(s.orelse) \cup SpecialVars(s.final)
                                  \cup UNION {SpecialVars(s.handlers[j]) : j \in 1..Len(s.handlers)}
                [] s.k = "match" -> UNION {SpecialVars(s.cases[j].body) : j \in 1..Len(s.cases)}
                [] OTHER -> {}
           : i \in 1..Len(block)}
\* is the definition made by statement d (of variable v) reported as unused_variable / unused_assignment?
ImplReportedUnused(prog, F, d, v) == d \notin ImplUsedNodes(F) /\ v \notin SpecialVars(prog)
\* what pyanalyze reports at a use: the definition nodes recorded for it (0 = "may be unbound");
\* a use without an entry is not a local at all there: undefined_name
ImplReported(prog, useid) ==
    LET u == ImplUsage(prog)[useid]
    IN IF u.present /\ u.nodes # << >> THEN ToSet(u.nodes) ELSE {0}
=============================================================================
