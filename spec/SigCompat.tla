----------------------------- MODULE SigCompat -----------------------------
(***************************************************************************)
(* Callable compatibility (property C07).                                  *)
(*                                                                         *)
(* A case is a pair of signatures (CPythonBind.tla vocabulary, every       *)
(* parameter additionally carries a type rank `ty`, the signature a return *)
(* rank):  exp -- the signature that is expected (Callable parameter,      *)
(* Literal[f]),  act -- the signature of the function g that is passed.    *)
(*                                                                         *)
(* Impl* transcribes Signature.can_assign (signature.py:1440-1715) with    *)
(* can_assign_var_positional (:2665) and can_assign_var_keyword (:2703) as *)
(* a state machine over the EXPECTED parameters, one action per branch /   *)
(* return path, followed by the final loop over the ACTUAL parameters.     *)
(* The reference is behavioural inclusion: every concrete call shape that  *)
(* CPython binds to exp is also bound by act (CPythonBind!RefBinds -- the  *)
(* oracle of C05), and for typed signatures every argument lands in a      *)
(* parameter of act whose type contains the type exp promised.             *)
(*                                                                         *)
(* Types: a chain  C <: B <: A <: object  of ranks 0..3, a class U (rank  *)
(* 5) unrelated to the chain (U <: object only) and "any" = 9              *)
(* (unannotated).  TypeFits(target, source) is the subclass order; it is   *)
(* the only fact about Value.can_assign this module assumes, and the real  *)
(* result is compared with it in every run (drift).                        *)
(***************************************************************************)
EXTENDS CPythonBind, TLC

CONSTANTS
    MaxExpected,        \* parameters of the expected signature
    MaxActual,        \* parameters of the actual signature
    ActNames,      \* set of names the actual parameters are drawn from (expected ones are a, b, c, ...)
    MaxCallPos,    \* call shapes: positional arguments
    MaxCallKw,     \*              keyword arguments
    TypeRanks,     \* set of type ranks parameters range over: {9} = untyped, {1, 2, 9} typed
    RetRanks,      \* set of type ranks return annotations range over
    SCMutant       \* "none" or a seeded model bug (sensitivity self-test)

AnyTy == 9
UnrelatedTy == 5
\* the subclass order of the realised classes (on the chain 0..3 it is <=; U is below object only)
SubRank(x, y) == x = y \/ y = 3 \/ (x # UnrelatedTy /\ y # UnrelatedTy /\ x <= y)
\* Value.can_assign on classes: a value of type `source` may be passed where `target` is declared
TypeFits(target, source) == target = AnyTy \/ source = AnyTy \/ SubRank(source, target)
\* The checks of THEIR extra positional / keyword parameters against MY *args / **kwargs
\* (signature.py:1631, :1655) compare the extra parameter's annotation T with my_param.get_annotation(),
\* which for *args: S is tuple[S, ...] and for **kwargs: S is dict[str, S] -- not with S.  So they
\* succeed exactly when my *args/**kwargs is unannotated or T is Any / object (rank 3), whatever the
\* relation of T and S.  (Over-rejection only; it cannot make an accepted pair unsound.)
ExtraFits(extra, mine) == mine = AnyTy \/ extra = AnyTy \/ extra = 3

(***************************************************************************)
(* Impl: Signature.can_assign                                              *)
(*   s = [i        index of the expected parameter the loop is at,         *)
(*        cpos     consumed_positional     (names of actual parameters),   *)
(*        creq     consumed_required_pos_only,                             *)
(*        ckw      consumed_keyword,                                       *)
(*        verdict  "run" | "ok" | "err",  why = branch that ended it]      *)
(***************************************************************************)
CompatStart == [i |-> 1, cpos |-> {}, creq |-> {}, ckw |-> {}, verdict |-> "run", why |-> ""]

IndexOfKind(sig, k) == IF Has(sig, k) THEN CHOOSE j \in DOMAIN sig : sig[j].kind = k ELSE 0
ByName(sig, nm) == IF \E j \in DOMAIN sig : sig[j].name = nm THEN CHOOSE j \in DOMAIN sig : sig[j].name = nm ELSE 0

\* the return annotations are compared first (:1473-1479)
ImplReturnOK(c) == TypeFits(c.exp_ret, c.act_ret)

\* annotation of their *args / **kwargs as seen by the loop (:1482-1493): the element type
TheirArgsTy(act) == act[IndexOfKind(act, "va")].ty
TheirKwargsTy(act) == act[IndexOfKind(act, "vk")].ty

ImplBranchC(exp, act, s) ==
    LET my == exp[s.i]
        i == s.i                               \* the code's index is 0-based: i < len(their_params)
        hasTheir == i <= Len(act)
        their == act[i]
        hasArgs == Has(act, "va")              \* args_annotation is not None
        hasKwargs == Has(act, "vk")            \* kwargs_annotation is not None
    IN CASE my.kind = "po" ->                                                        \* :1503
              IF hasTheir /\ their.kind \in {"po", "pk"}                             \* :1504
              THEN (IF my.dflt /\ ~their.dflt THEN "PO_NoDefault"                    \* :1508
                    ELSE IF ~TypeFits(their.ty, my.ty) THEN "PO_Type"                \* :1514
                    ELSE "PO_Match")
              ELSE IF hasArgs                                                        \* :1525
                   THEN (IF TypeFits(TheirArgsTy(act), my.ty) THEN "PO_ViaVarArgs" ELSE "PO_VarArgsType")
              ELSE "PO_NotAccepted"                                                  \* :1532
         [] my.kind = "pk" ->                                                        \* :1536
              IF hasTheir /\ their.kind = "pk"                                       \* :1537
              THEN (IF my.name # their.name THEN "PK_NameMismatch"                   \* :1541
                    ELSE IF my.dflt /\ ~their.dflt THEN "PK_NoDefault"               \* :1546
                    ELSE IF ~TypeFits(their.ty, my.ty) THEN "PK_Type"                \* :1549
                    ELSE "PK_Match")
              ELSE IF hasTheir /\ their.kind = "po" THEN "PK_TheirPosOnly"           \* :1558
              ELSE IF hasArgs /\ hasKwargs                                           \* :1566
                   THEN (IF ~TypeFits(TheirArgsTy(act), my.ty) THEN "PK_VarArgsType"
                         ELSE IF ~TypeFits(TheirKwargsTy(act), my.ty) THEN "PK_KwargsType"
                         ELSE "PK_ViaVarArgsAndKwargs")
              ELSE "PK_NotAccepted"                                                  \* :1579
         [] my.kind = "ko" ->                                                        \* :1583
              LET j == ByName(act, my.name)
              IN IF j # 0 /\ act[j].kind \in {"pk", "ko"}                            \* :1585
                 THEN (IF my.dflt /\ ~act[j].dflt THEN "KO_NoDefault"                \* :1589
                       ELSE IF ~TypeFits(act[j].ty, my.ty) THEN "KO_Type"            \* :1594
                       ELSE "KO_Match")
                 ELSE IF hasKwargs                                                   \* :1602
                      THEN (IF TypeFits(TheirKwargsTy(act), my.ty) THEN "KO_ViaKwargs" ELSE "KO_KwargsType")
                 ELSE "KO_NotAccepted"                                               \* :1609
         [] my.kind = "va" ->                                                        \* :1613
              IF ~hasArgs THEN "VA_NotAccepted"                                      \* :1614
              ELSE IF ~TypeFits(TheirArgsTy(act), my.ty) THEN "VA_Type"              \* :1616
              ELSE IF \E j \in DOMAIN act :                                          \* :1620-1638
                        /\ act[j].kind \in {"po", "pk"} /\ act[j].name \notin s.cpos
                        /\ ~ExtraFits(act[j].ty, my.ty)
                   THEN "VA_ExtraPositionalType"
              ELSE "VA_Ok"
         [] my.kind = "vk" ->                                                        \* :1639
              IF ~hasKwargs THEN "VK_NotAccepted"                                    \* :1640
              ELSE IF ~TypeFits(TheirKwargsTy(act), my.ty) THEN "VK_Type"            \* :1642
              ELSE IF \E j \in DOMAIN act :                                          \* :1646-1662
                        /\ act[j].kind \in {"ko", "pk"} /\ act[j].name \notin s.ckw
                        /\ (IF SCMutant = "exempt_consumed_positional"                   \* seeded model bug
                            THEN act[j].name \notin s.cpos ELSE act[j].name \notin s.creq)   \* :1669
                        /\ ~ExtraFits(act[j].ty, my.ty)
                   THEN "VK_ExtraKeywordType"
              ELSE "VK_Ok"

ErrorBranches ==
    {"PO_NoDefault", "PO_Type", "PO_VarArgsType", "PO_NotAccepted", "PK_NameMismatch", "PK_NoDefault", "PK_Type",
     "PK_TheirPosOnly", "PK_VarArgsType", "PK_KwargsType", "PK_NotAccepted", "KO_NoDefault", "KO_Type",
     "KO_KwargsType", "KO_NotAccepted", "VA_NotAccepted", "VA_Type", "VA_ExtraPositionalType", "VK_NotAccepted",
     "VK_Type", "VK_ExtraKeywordType"}

ImplEffectC(b, exp, act, s) ==
    LET my == exp[s.i]
        their == act[s.i]
        next == [s EXCEPT !.i = @ + 1]
    IN IF b \in ErrorBranches THEN [s EXCEPT !.verdict = "err", !.why = b]
       ELSE CASE b = "PO_Match" ->                                                   \* :1522-1524
                    [next EXCEPT !.cpos = @ \cup {their.name},
                                 !.creq = IF their.dflt THEN @ ELSE @ \cup {their.name}]
              [] b = "PK_Match" ->                                                   \* :1556-1557
                    [next EXCEPT !.cpos = @ \cup {their.name}, !.ckw = @ \cup {their.name}]
              [] b = "KO_Match" -> [next EXCEPT !.ckw = @ \cup {my.name}]            \* :1601
              [] OTHER -> next

\* the final loop over THEIR parameters (:1685-1713): the first required one that nothing feeds
Unfed(act, s, j) ==
    /\ act[j].kind \in {"po", "pk", "ko"} /\ ~act[j].dflt
    /\ CASE act[j].kind = "po" -> act[j].name \notin s.cpos                                   \* :1694
         [] act[j].kind = "pk" -> act[j].name \notin s.cpos /\ act[j].name \notin s.ckw     \* :1699
         [] act[j].kind = "ko" -> act[j].name \notin s.ckw                                    \* :1705

ImplFinalBranch(act, s) ==
    IF SCMutant # "skip_final_loop" /\ \E j \in DOMAIN act : Unfed(act, s, j)
    THEN LET j == CHOOSE k \in DOMAIN act : Unfed(act, s, k) /\ \A m \in 1..(k - 1) : ~Unfed(act, s, m)
         IN CASE act[j].kind = "po" -> "Final_ExtraPosOnly"
              [] act[j].kind = "pk" -> "Final_ExtraParam"
              [] act[j].kind = "ko" -> "Final_ExtraKwOnly"
    ELSE "Final_Ok"

ImplFinal(b, s) == IF b = "Final_Ok" THEN [s EXCEPT !.verdict = "ok", !.why = b] ELSE [s EXCEPT !.verdict = "err", !.why = b]

RECURSIVE ImplLoopC(_, _, _)
ImplLoopC(exp, act, s) ==
    IF s.verdict # "run" THEN s
    ELSE IF s.i > Len(exp) THEN ImplFinal(ImplFinalBranch(act, s), s)
    ELSE ImplLoopC(exp, act, ImplEffectC(ImplBranchC(exp, act, s), exp, act, s))

ImplCompat(c) ==
    IF ~ImplReturnOK(c) THEN [CompatStart EXCEPT !.verdict = "err", !.why = "Return_Type"]
    ELSE ImplLoopC(c.exp, c.act, CompatStart)

(***************************************************************************)
(* Ref: behavioural inclusion, written with the C05 oracle only            *)
(***************************************************************************)
CallNames(c) == {c.exp[i].name : i \in DOMAIN c.exp} \cup {c.act[i].name : i \in DOMAIN c.act} \cup {Extra}
CallShapes(c, maxpos, maxkw) ==
    {[npos |-> n, kws |-> K, dup |-> FALSE] :
        n \in 0..maxpos, K \in {S \in SUBSET CallNames(c) : Cardinality(S) <= maxkw}}

RefIncluded(c, maxpos, maxkw) ==
    \A cc \in CallShapes(c, maxpos, maxkw) : RefBinds(c.exp, cc) => RefBinds(c.act, cc)

\* where an argument of a bound call lands (6.3.4): index of the parameter
RefPositionalTarget(sig, n) ==          \* the n-th positional argument
    IF n \in PositionalSlots(sig) THEN n ELSE IndexOfKind(sig, "va")
RefKeywordTarget(sig, k) ==
    IF \E i \in KeywordSlots(sig) : sig[i].name = k
    THEN CHOOSE i \in KeywordSlots(sig) : sig[i].name = k
    ELSE IndexOfKind(sig, "vk")

\* contravariance of parameters under the membership model: whatever exp lets a caller pass for an
\* argument is a member of the type act declares for the parameter that argument lands in
TypeContains(sup, sub) == sup = AnyTy \/ sub = AnyTy \/ SubRank(sub, sup)      \* Member(v, sub) => Member(v, sup)
\* one bound call cc whose arguments have the types exp declares for the parameters they land in (a keyword that
\* lands in exp's **kwargs has its value type, a positional that lands in *args its element type): every argument
\* is a member of the type act declares for the parameter it lands in there
RefContravariantAtShape(c, cc) ==
    /\ \A n \in 1..cc.npos :
         TypeContains(c.act[RefPositionalTarget(c.act, n)].ty, c.exp[RefPositionalTarget(c.exp, n)].ty)
    /\ \A k \in cc.kws :
         TypeContains(c.act[RefKeywordTarget(c.act, k)].ty, c.exp[RefKeywordTarget(c.exp, k)].ty)
RefContravariant(c, maxpos, maxkw) ==
    \A cc \in CallShapes(c, maxpos, maxkw) :
        (RefBinds(c.exp, cc) /\ RefBinds(c.act, cc)) => RefContravariantAtShape(c, cc)
RefCovariantReturn(c) == TypeContains(c.exp_ret, c.act_ret)

(***************************************************************************)
(* Known deviation (known_findings.jsonl key "keyword-also-positional"):   *)
(* act has a positional-or-keyword parameter named k in positional slot j, *)
(* and exp binds some call that passes at least j positional arguments AND *)
(* the keyword k (k goes to exp's **kwargs, to a keyword-only parameter k, *)
(* or to a later positional-or-keyword parameter k of exp): that call      *)
(* raises "multiple values for argument k" in act.  Signature.can_assign   *)
(* tracks consumed_positional and consumed_keyword separately and never    *)
(* asks whether one actual parameter is reachable both ways.               *)
(* The predicate is on the case alone (it does not look at the verdict).   *)
(***************************************************************************)
Dev_KeywordAlsoPositional(c, maxpos, maxkw) ==
    \E j \in DOMAIN c.act :
        /\ c.act[j].kind = "pk"
        /\ \E cc \in CallShapes(c, maxpos, maxkw) :
             cc.npos >= j /\ c.act[j].name \in cc.kws /\ RefBinds(c.exp, cc)

(***************************************************************************)
(* The machine                                                             *)
(***************************************************************************)
VARIABLES case, stage, s, br
scvars == <<case, stage, s, br>>

BlankPair == [exp |-> << >>, act |-> << >>, exp_ret |-> AnyTy, act_ret |-> AnyTy]
SCInit == case = BlankPair /\ stage = "exp" /\ s = CompatStart /\ br = ""

AddExp ==
    /\ stage = "exp" /\ Len(case.exp) < MaxExpected
    /\ \E k \in ParamKinds, d \in BOOLEAN, t \in TypeRanks :
         LET sig2 == Append(case.exp, [kind |-> k, name |-> Names[Len(case.exp) + 1], dflt |-> d, ty |-> t])
         IN ValidSig(sig2) /\ case' = [case EXCEPT !.exp = sig2]
    /\ UNCHANGED <<stage, s, br>>
EndExp == stage = "exp" /\ stage' = "act" /\ UNCHANGED <<case, s, br>>

AddAct ==
    /\ stage = "act" /\ Len(case.act) < MaxActual
    /\ \E k \in ParamKinds, d \in BOOLEAN, nm \in ActNames, t \in TypeRanks :
         LET sig2 == Append(case.act, [kind |-> k, name |-> nm, dflt |-> d, ty |-> t])
         IN ValidSig(sig2) /\ case' = [case EXCEPT !.act = sig2]
    /\ UNCHANGED <<stage, s, br>>

NextBranchC(c, t) ==
    IF t.verdict # "run" THEN ""
    ELSE IF t.i > Len(c.exp) THEN ImplFinalBranch(c.act, t) ELSE ImplBranchC(c.exp, c.act, t)

EndAct ==
    /\ stage = "act"
    /\ \E r1 \in RetRanks, r2 \in RetRanks :
         /\ case' = [case EXCEPT !.exp_ret = r1, !.act_ret = r2]
         /\ IF ImplReturnOK(case')
            THEN stage' = "loop" /\ s' = s /\ br' = NextBranchC(case', s)
            ELSE stage' = "done" /\ s' = [s EXCEPT !.verdict = "err", !.why = "Return_Type"] /\ br' = ""

StepC(b) ==
    /\ br = b /\ s.i <= Len(case.exp)
    /\ s' = ImplEffectC(b, case.exp, case.act, s)
    /\ br' = NextBranchC(case, s')
    /\ stage' = IF s'.verdict = "run" THEN "loop" ELSE "done"
    /\ UNCHANGED case

PosOnly_Match == stage = "loop" /\ StepC("PO_Match")
PosOnly_NoDefault == stage = "loop" /\ StepC("PO_NoDefault")
PosOnly_Type == stage = "loop" /\ StepC("PO_Type")
PosOnly_ViaVarArgs == stage = "loop" /\ StepC("PO_ViaVarArgs")
PosOnly_VarArgsType == stage = "loop" /\ StepC("PO_VarArgsType")
PosOnly_NotAccepted == stage = "loop" /\ StepC("PO_NotAccepted")
PosOrKw_Match == stage = "loop" /\ StepC("PK_Match")
PosOrKw_NameMismatch == stage = "loop" /\ StepC("PK_NameMismatch")
PosOrKw_NoDefault == stage = "loop" /\ StepC("PK_NoDefault")
PosOrKw_Type == stage = "loop" /\ StepC("PK_Type")
PosOrKw_TheirPosOnly == stage = "loop" /\ StepC("PK_TheirPosOnly")
PosOrKw_ViaVarArgsAndKwargs == stage = "loop" /\ StepC("PK_ViaVarArgsAndKwargs")
PosOrKw_VarArgsType == stage = "loop" /\ StepC("PK_VarArgsType")
PosOrKw_KwargsType == stage = "loop" /\ StepC("PK_KwargsType")
PosOrKw_NotAccepted == stage = "loop" /\ StepC("PK_NotAccepted")
KwOnly_Match == stage = "loop" /\ StepC("KO_Match")
KwOnly_NoDefault == stage = "loop" /\ StepC("KO_NoDefault")
KwOnly_Type == stage = "loop" /\ StepC("KO_Type")
KwOnly_ViaKwargs == stage = "loop" /\ StepC("KO_ViaKwargs")
KwOnly_KwargsType == stage = "loop" /\ StepC("KO_KwargsType")
KwOnly_NotAccepted == stage = "loop" /\ StepC("KO_NotAccepted")
VarPos_Ok == stage = "loop" /\ StepC("VA_Ok")
VarPos_NotAccepted == stage = "loop" /\ StepC("VA_NotAccepted")
VarPos_Type == stage = "loop" /\ StepC("VA_Type")
VarPos_ExtraPositionalType == stage = "loop" /\ StepC("VA_ExtraPositionalType")
VarKw_Ok == stage = "loop" /\ StepC("VK_Ok")
VarKw_NotAccepted == stage = "loop" /\ StepC("VK_NotAccepted")
VarKw_Type == stage = "loop" /\ StepC("VK_Type")
VarKw_ExtraKeywordType == stage = "loop" /\ StepC("VK_ExtraKeywordType")

FinC(b) ==
    /\ br = b /\ s.i > Len(case.exp)
    /\ s' = ImplFinal(b, s) /\ br' = "" /\ stage' = "done" /\ UNCHANGED case
Final_ExtraPosOnly == stage = "loop" /\ FinC("Final_ExtraPosOnly")
Final_ExtraParam == stage = "loop" /\ FinC("Final_ExtraParam")
Final_ExtraKwOnly == stage = "loop" /\ FinC("Final_ExtraKwOnly")
Final_Ok == stage = "loop" /\ FinC("Final_Ok")

SCLoopNext ==
    \/ PosOnly_Match \/ PosOnly_NoDefault \/ PosOnly_Type \/ PosOnly_ViaVarArgs \/ PosOnly_VarArgsType
    \/ PosOnly_NotAccepted
    \/ PosOrKw_Match \/ PosOrKw_NameMismatch \/ PosOrKw_NoDefault \/ PosOrKw_Type \/ PosOrKw_TheirPosOnly
    \/ PosOrKw_ViaVarArgsAndKwargs \/ PosOrKw_VarArgsType \/ PosOrKw_KwargsType \/ PosOrKw_NotAccepted
    \/ KwOnly_Match \/ KwOnly_NoDefault \/ KwOnly_Type \/ KwOnly_ViaKwargs \/ KwOnly_KwargsType \/ KwOnly_NotAccepted
    \/ VarPos_Ok \/ VarPos_NotAccepted \/ VarPos_Type \/ VarPos_ExtraPositionalType
    \/ VarKw_Ok \/ VarKw_NotAccepted \/ VarKw_Type \/ VarKw_ExtraKeywordType
    \/ Final_ExtraPosOnly \/ Final_ExtraParam \/ Final_ExtraKwOnly \/ Final_Ok
SCNext == AddExp \/ EndExp \/ AddAct \/ EndAct \/ SCLoopNext

(***************************************************************************)
(* Properties                                                              *)
(***************************************************************************)
AcceptedC == s.verdict = "ok"

BehaviourallySound ==
    (stage = "done" /\ AcceptedC) => (RefIncluded(case, MaxCallPos, MaxCallKw) \/ Dev_KeywordAlsoPositional(case, MaxCallPos, MaxCallKw))
BehaviourallySoundStrict == (stage = "done" /\ AcceptedC) => RefIncluded(case, MaxCallPos, MaxCallKw)

TypesSound ==
    (stage = "done" /\ AcceptedC) => (RefContravariant(case, MaxCallPos, MaxCallKw) /\ RefCovariantReturn(case))

\* the deviation predicate is tight: inside the class every accepted pair really is unsound
DevIsTight ==
    (stage = "done" /\ AcceptedC /\ Dev_KeywordAlsoPositional(case, MaxCallPos, MaxCallKw)) => ~RefIncluded(case, MaxCallPos, MaxCallKw)

MachineIsFoldC == stage = "done" => s = ImplCompat(case)
=============================================================================
