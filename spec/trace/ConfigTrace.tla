---------------------------- MODULE ConfigTrace ----------------------------
(* Trace specification for C18: every line of the trace file is one observation of the real      *)
(* options code: {tid, case, real}.  TLC evaluates the documented precedence (RefLookup) and the  *)
(* implementation-shaped model (ImplLookup) of Config.tla on the recorded case and judges the     *)
(* recorded real result.                                                                          *)
EXTENDS Config, Json, IOUtils

Obs == ndJsonDeserialize(IOEnv.TRACE_FILE)
VARIABLE l

Verdict(o) ==
    IF o.real # RefLookup(o.case) THEN "viol:LayeringFollowsDocs"
    ELSE IF o.real # ImplLookup(o.case) THEN "drift:ImplLookup"
    ELSE "ok"

TInit == l = 1 /\ case = Blank /\ stage = "trace" /\ n = 0
TNext ==
    /\ l <= Len(Obs)
    /\ LET v == Verdict(Obs[l]) IN IF v = "ok" THEN TRUE ELSE PrintT(<<"VERDICT", Obs[l].tid, v>>)
    /\ l' = l + 1
    /\ UNCHANGED vars
=============================================================================
