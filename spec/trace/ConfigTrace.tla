---------------------------- MODULE ConfigTrace ----------------------------
(* Trace specification for C18: every line of the trace file is one observation of the real      *)
(* options code: {tid, case, real, cmdinsts}.  `real` is the effective value the real code        *)
(* produced for the case (through the route the case names: Options.from_option_list,            *)
(* prepare_constructor_kwargs, NameCheckVisitor.main() on a real argv, or a `python -m pyanalyze  *)
(* ... --display-options` subprocess); `cmdinsts` are the values of the command-line instances of *)
(* the observed option found on the real Options object.  TLC evaluates the documented precedence *)
(* (RefLookup) and the implementation-shaped model (ImplLookup, ImplCmdValues) of Config.tla on   *)
(* the recorded case and judges the recorded real result.                                         *)
EXTENDS Config, Json, IOUtils

Obs == ndJsonDeserialize(IOEnv.TRACE_FILE)
VARIABLE l

\* which sentence of the property a wrong result breaks
Clause(c) ==
    IF c.bad # "none" THEN "viol:MalformedRejected"
    ELSE IF RefCmdSays(c).said /\ ~IsConcat(c.kind) THEN "viol:CommandLineValueWins"
    ELSE "viol:LayeringFollowsDocs"

\* o.mutated: the stored instances of the looked-up options (or the class defaults) differed after the
\* lookup(s) from what they were before.  Every later lookup reads those stored instances, so a changed
\* configuration is a violation in its own right ("lookups do not change the configuration"), whether or
\* not one of the recorded lookups already shows a wrong value.  o.cmdinsts is recorded BEFORE any lookup.
SingleVerdict(o) ==
    IF o.real # RefLookup(o.case) THEN Clause(o.case)
    ELSE IF o.mutated THEN "viol:LookupsDoNotChangeConfiguration"
    ELSE IF o.real # ImplLookup(o.case) THEN "drift:ImplLookup"
    ELSE IF o.case.bad = "none" /\ o.cmdinsts # ImplCmdValues(o.case) THEN "drift:ImplCmdInsts"
    ELSE "ok"

\* A history: o.real is the sequence of the values of the lookups, in order, on ONE real Options object.
\* o.asset = TRUE (observations through the diagnostics of a real run over several files): the values are
\* only known as sets.
SetOf(s) == {s[i] : i \in 1..Len(s)}
SameValue(o, a, b) == IF o.asset THEN SetOf(a) = SetOf(b) ELSE a = b
HistoryVerdict(o) ==
    LET ref == RefRunValues(o.case)
        impl == ImplRunValues(o.case)
        wrong == {i \in 1..Len(ref) : i > Len(o.real) \/ ~SameValue(o, o.real[i], ref[i])}
    IN IF Len(o.real) # Len(ref) THEN "viol:LayeringFollowsDocs"
       ELSE IF 1 \in wrong THEN "viol:LayeringFollowsDocs"               \* wrong on a fresh object
       ELSE IF wrong # {} THEN "viol:LookupIndependentOfHistory"          \* right at first, wrong after other lookups
       ELSE IF o.mutated THEN "viol:LookupsDoNotChangeConfiguration"
       ELSE IF \E i \in 1..Len(ref) : ~SameValue(o, o.real[i], impl[i]) THEN "drift:ImplRun"
       ELSE "ok"

Verdict(o) == IF o.case.lookups # << >> THEN HistoryVerdict(o) ELSE SingleVerdict(o)

TInit == l = 1 /\ case = Blank /\ stage = "trace" /\ n = 0
TNext ==
    /\ l <= Len(Obs)
    /\ LET v == Verdict(Obs[l]) IN IF v = "ok" THEN TRUE ELSE PrintT(<<"VERDICT", Obs[l].tid, v>>)
    /\ l' = l + 1
    /\ UNCHANGED vars
=============================================================================
