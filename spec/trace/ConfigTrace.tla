---------------------------- MODULE ConfigTrace ----------------------------
(* Trace specification for C18: every line of the trace file is one observation of the real      *)
(* options code: {tid, case, real, cmdinsts}.  `real` is the effective value the real code        *)
(* produced for the case (through the route the case names: Options.from_option_list,            *)
(* prepare_constructor_kwargs, NameCheckVisitor.main() on a real argv, or a `python -m pyanalyze  *)
(* ... --display-options` subprocess); `cmdinsts` are the values of the command-line instances of *)
(* the observed option found on the real Options object.  TLC evaluates the documented precedence *)
(* (RefLookup) and the implementation-shaped model (ImplLookup, ImplCmdValues) of Config.tla on   *)
(* the recorded case and judges the recorded real result.                                         *)
EXTENDS Config, Json, IOUtils

Obs == ndJsonDeserialize(IOEnv.TRACE_FILE)
VARIABLE l

\* which sentence of the property a wrong result breaks
Clause(c) ==
    IF c.bad # "none" THEN "viol:MalformedRejected"
    ELSE IF RefCmdSays(c).said /\ ~IsConcat(c.kind) THEN "viol:CommandLineValueWins"
    ELSE "viol:LayeringFollowsDocs"

Verdict(o) ==
    IF o.real # RefLookup(o.case) THEN Clause(o.case)
    ELSE IF o.real # ImplLookup(o.case) THEN "drift:ImplLookup"
    ELSE IF o.case.bad = "none" /\ o.cmdinsts # ImplCmdValues(o.case) THEN "drift:ImplCmdInsts"
    ELSE "ok"

TInit == l = 1 /\ case = Blank /\ stage = "trace" /\ n = 0
TNext ==
    /\ l <= Len(Obs)
    /\ LET v == Verdict(Obs[l]) IN IF v = "ok" THEN TRUE ELSE PrintT(<<"VERDICT", Obs[l].tid, v>>)
    /\ l' = l + 1
    /\ UNCHANGED vars
=============================================================================
