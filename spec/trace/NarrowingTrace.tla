---------------------------- MODULE NarrowingTrace ----------------------------
(* Trace specification for C02.  Observation kinds (one ndjson line each):                                     *)
(*  "objs":   {tid, objs}   FIRST line of every trace file: the object universe in the order the driver used  *)
(*            for the vectors below (checked to be exactly the universe NObjects)                              *)
(*  "narrow": {tid, route ("api" | "visitor"), v, c, pos, neg, holds [, decl, diag]}                           *)
(*            pos / neg = the type the real code assigns to x in the taken / not-taken branch of `if c:`        *)
(*            (route api: stacked_scopes.constrain_value with the real Constraint objects and their .invert();  *)
(*             route visitor: inferred value of `x` in the two branches of a generated function),               *)
(*            holds[i] = what real CPython evaluated the condition to on object ObjOrder[i] (0 / 1 / 2 = raised), *)
(*            decl = the value the visitor gave the parameter before the test, diag = always-true diagnostics,  *)
(*            callerr = the visitor rejected a call inside the condition                                        *)
(*  "bool":   {tid, v, b, truth}   b = real get_boolability(v).name, truth[i] = real bool(ObjOrder[i])            *)
(* The oracle model (HoldsCode / Truthy) is first compared with the recorded CPython outcomes ("oracle:");      *)
(* N1 / N2 / N3 are then judged on the REAL results; the Impl model is compared for drift.                      *)
EXTENDS Narrowing, Json, IOUtils

Obs == ndJsonDeserialize(IOEnv.TRACE_FILE)
VARIABLE l
Say(tid, v) == PrintT(<<"VERDICT", tid, v>>)
Chk(cond, tid, v) == IF cond THEN TRUE ELSE Say(tid, v)

ToSet(s) == {s[i] : i \in 1..Len(s)}
ObjOrder == Obs[1].objs
\* OrConstraint.apply passes its alternatives through list(set(...)): the member order of the result is not fixed; and
\* whether two occurrences of one unhashable literal (hashed by id) are merged depends on object identity, which the
\* terms do not carry: results of and / or conditions (and of the one_of behind `case []`) are compared as sets of union members
MemberSet(t) == IF t.k = "union" THEN ToSet(t.ms) ELSE {t}
SameUpToOrder(a, b) == a = b \/ MemberSet(a) = MemberSet(b)

\* where the model makes no prediction (N1 / N2 are still judged on the real result):
\*  - the visitor rejected a call inside the condition (len(x) for x: int, issubclass(x, C) for x: int): it then derives
\*    no constraint from that call
\*  - Iterable against an Enum type: inside the enum-metaclass deviation of can_assign (see Assign!Dev_EnumMetaclassProtocol)
\*    the verdict depends on how the metaclass method's unsolved type variable is matched
\*  - `and` / `or` through the visitor: the operands are visited in nested sub-scopes whose merge (FunctionScope.
\*    combine_subscopes, the subject of C09) feeds already-narrowed definitions back into x, and the OrConstraint groups
\*    by (variable, origin) -- the and/or constraint algebra itself is bound on the api route
NoPrediction(o) ==
    \/ o.route = "visitor" /\ (o.callerr \/ CondHasKind(o.c, {"and", "or"}))
    \/ (Mentions(o.v, "Iterable") \/ CondMentions(o.c, "Iterable")) /\ (Mentions(o.v, "Color") \/ CondMentions(o.c, "Color"))
PolName(pol) == IF pol THEN "pos" ELSE "neg"

JudgePol(o, pol, R) ==
    /\ LET n1 == N1Verdict(o.v, o.c, pol, R)
       IN Chk(n1 = "ok", o.tid, IF n1 = "viol" THEN "viol:N1-" \o PolName(pol) ELSE n1)
    /\ Chk(RefNoWiden(o.v, o.c, R), o.tid, "viol:N2-" \o PolName(pol))
    /\ Chk(IF NoPrediction(o) THEN TRUE
           ELSE LET model == IF o.route = "visitor" THEN ImplNarrowVisitor(o.v, o.c, pol) ELSE ImplNarrow(o.v, o.c, pol)
                IN IF CondHasKind(o.c, {"or", "and", "m_or", "m_seq"}) THEN SameUpToOrder(R, model) ELSE R = model,
           o.tid, "drift:narrow-" \o PolName(pol))

JudgeNarrow(o) ==
    /\ Chk(Len(o.holds) = Len(ObjOrder) /\ \A i \in 1..Len(ObjOrder) : HoldsCode(o.c, ObjOrder[i]) = o.holds[i], o.tid, "oracle:holds")
    /\ JudgePol(o, TRUE, o.pos)
    /\ JudgePol(o, FALSE, o.neg)
    /\ IF o.route = "visitor"
       THEN /\ Chk(o.decl = o.v, o.tid, "drift:declared-type")
            \* `if x:` flagged as always true by the visitor: every object of the type must be truthy
            /\ Chk((o.c.kind = "truthy" /\ o.diag # << >>) => \A x \in NObjects : Member(x, o.v) => Truthy(x), o.tid,
                   IF Dev_AbcAlwaysTrue(o.v) THEN "dev:abc-without-bool-always-true" ELSE "viol:N3-diagnostic")
       ELSE TRUE

JudgeBool(o) ==
    /\ Chk(Len(o.truth) = Len(ObjOrder) /\ \A i \in 1..Len(ObjOrder) : B2C(Truthy(ObjOrder[i])) = o.truth[i], o.tid, "oracle:bool")
    /\ Chk(o.b = ImplBoolability(o.v), o.tid, "drift:boolability")
    /\ Chk(RefVerdictRight(o.v, o.b), o.tid, IF Dev_AbcAlwaysTrue(o.v) THEN "dev:abc-without-bool-always-true" ELSE "viol:N3")

JudgeObjs(o) == Chk(l = 1 /\ ToSet(o.objs) = NObjects /\ Len(o.objs) = Cardinality(NObjects), o.tid, "oracle:object-universe")

TInit == l = 1 /\ stage = "trace" /\ ta = Never /\ tb = Never /\ ob = NONE /\ cnd = CTruthy
TNext ==
    /\ l <= Len(Obs)
    /\ CASE Obs[l].kind = "narrow" -> JudgeNarrow(Obs[l])
         [] Obs[l].kind = "bool" -> JudgeBool(Obs[l])
         [] Obs[l].kind = "objs" -> JudgeObjs(Obs[l])
    /\ l' = l + 1 /\ UNCHANGED nvars
=============================================================================
