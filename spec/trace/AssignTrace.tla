----------------------------- MODULE AssignTrace -----------------------------
(* Trace specification for C03 / C04.  Observation kinds (one per line):                          *)
(*  "pair": {tid, a, b, real, realx}   real = A.can_assign(B) accepted?, realx = same under       *)
(*                                      ctx.set_exclude_any()                                     *)
(*  "obj":  {tid, a, o, real, rt}      real = A.can_assign(KnownValue(o)); rt = runtime.is_assignable(o, A) *)
(* Judged against Member (Values.tla); compared with ImplCA (Assign.tla) for drift.               *)
EXTENDS Assign, Json, IOUtils

Obs == ndJsonDeserialize(IOEnv.TRACE_FILE)
VARIABLE l
Say(tid, v) == PrintT(<<"VERDICT", tid, v>>)
Chk(cond, tid, v) == IF cond THEN TRUE ELSE Say(tid, v)


JudgePair(o) ==
    LET A == o.a  B == o.b
    IN /\ Chk(o.real = ImplCA(A, B, FALSE), o.tid, "drift:can_assign")
       /\ Chk(o.realx = ImplCA(A, B, TRUE), o.tid, "drift:can_assign_exclude_any")
       /\ Chk(o.realx => o.real, o.tid, "viol:ExcludeAnyMonotone")
       /\ Chk((Static(A) /\ Static(B) /\ o.real /\ ~Lenient(A, B)) => \A x \in AObjects : Member(x, B) => Member(x, A),
              \* (a deviation class excuses only where the model of the deviating mechanism reproduces the observed verdict)
              o.tid, IF Dev_EnumMetaclassProtocol(A, B) /\ o.real = ImplCA(A, B, FALSE) THEN "dev:enum-instance-accepted-as-iterable"
                     ELSE IF Dev_TypedDictAsPlainDict(A, B) /\ o.real = ImplCA(A, B, FALSE) THEN "dev:typeddict-as-plain-dict"
                     ELSE "viol:Sound")
       /\ Chk(ImplEq(A, B) /\ A = B => o.real, o.tid, "viol:Reflexive")
       /\ Chk(B = Never => o.real, o.tid, "viol:NeverBottom")
       /\ Chk(A = Typed("object") /\ Static(B) => o.real, o.tid, "viol:ObjectTop")
       /\ Chk((A.k = "any" \/ B.k = "any") => o.real, o.tid, "viol:AnyBoth")

JudgeObj(o) ==
    LET A == o.a
    IN /\ Chk(o.real = ImplCA(A, Known(o.o), FALSE), o.tid, "drift:can_assign_literal")
       /\ Chk(Static(A) => (o.real = Member(o.o, A)), o.tid,
              IF Dev_MergedSiblingLiterals(o.o) THEN "dev:equal-sibling-literals-merged" ELSE "viol:LiteralMembership")
       /\ Chk((Static(A) /\ o.rt # "n/a") => ((o.rt = "yes") = Member(o.o, A)), o.tid,
              IF Dev_MergedSiblingLiterals(o.o) THEN "dev:equal-sibling-literals-merged" ELSE "viol:RuntimeIsAssignable")

\* `x: A = <literal o>` checked by the visitor: diagnosed iff o is not a member of A
JudgeSnip(o) == Chk(C03Domain(o.a) => (o.diagnosed = ~Member(o.o, o.a)), o.tid,
                    IF Dev_MergedSiblingLiterals(o.o) THEN "dev:equal-sibling-literals-merged" ELSE "viol:SnippetVerdict")

TInit == l = 1 /\ stage = "trace" /\ ta = Never /\ tb = Never /\ ob = NONE
TNext ==
    /\ l <= Len(Obs)
    /\ CASE Obs[l].kind = "pair" -> JudgePair(Obs[l])
         [] Obs[l].kind = "obj" -> JudgeObj(Obs[l])
         [] Obs[l].kind = "snip" -> JudgeSnip(Obs[l])
    /\ l' = l + 1 /\ UNCHANGED vars
=============================================================================
