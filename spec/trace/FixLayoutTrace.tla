---------------------------- MODULE FixLayoutTrace ----------------------------
(* Trace specification for the textual-layout slice of C16 (FixLayout.tla).  One observation per realised file:  *)
(*   case      the abstract case the file was rendered from                                                      *)
(*   lines     the lexical facts of every physical line of the REAL text (computed with CPython's tokenizer)     *)
(*   extent    [first, last] physical lines of the fixable statement according to CPython's parser              *)
(*             (min(lineno, decorator linenos) .. end_lineno);  nodeline = its ast lineno;  diagline = lineno   *)
(*             of the reported diagnostic                                                                        *)
(*   del/added the Replacement the real run handed to _apply_changes_to_lines (first change): linenos_to_delete, *)
(*             len(lines_to_add);  proposed = it has lines_to_add at all;  ins_indent (ignore mode)             *)
(*   keep_prefix / keep_suffix / newlen   common prefix / suffix (in lines) of the old and the new text          *)
(*   parses, intended (AST of the new text = AST of the program with the intended change; ignore mode: AST      *)
(*   unchanged), ins_comment (ignore mode: the added ignore text is a COMMENT token), gone, clean, cli_same      *)
(*   (facts that cannot be evaluated because the new text does not parse are recorded as TRUE)                   *)
(* Order of judgement: oracle (the model's file and extent are the real ones), drift (Impl model = real fixer), *)
(* then the post-conditions; a failing post-condition is a known deviation only if the case is in a Dev class   *)
(* that can break this clause AND the real edit is exactly the one the deviating mechanism produces.            *)
EXTENDS FixLayout, Json, IOUtils
Obs == ndJsonDeserialize(IOEnv.TRACE_FILE)
VARIABLE l
ToSet(s) == {s[j] : j \in 1..Len(s)}
Say(tid, v) == PrintT(<<"VERDICT", tid, v>>)

TInit == l = 1 /\ Init

\* ---- oracle: the abstract file / extent are those of the real text
JudgeOracle(o) ==
    /\ (IF o.lines = File(o.case) THEN TRUE ELSE Say(o.tid, "oracle:layout-attrs"))
    /\ (IF /\ o.extent[1] = ExtFirst(o.case) /\ o.extent[2] = ExtLast(o.case)
           /\ o.nodeline = NodeLine(o.case) /\ o.diagline = DiagLine(o.case)
        THEN TRUE ELSE Say(o.tid, "oracle:extent"))

JudgeProposed(o) ==
    LET cc == o.case
        tid == o.tid
        f == o.lines
        n == Len(f)
        del == ToSet(o.del)
        e1 == o.extent[1]
        e2 == o.extent[2]
        fix == Mode(cc.kind) # "ignore"
        known == Known(cc)
        repro == del = ImplDel(cc) /\ o.added = Adds(cc)
        Post(ok, clause) ==
            IF ok THEN TRUE
            ELSE IF repro /\ \E k \in known : clause \in ClausesOf(k)
                 THEN \A k \in {k2 \in known : clause \in ClausesOf(k2)} : Say(tid, "dev:" \o k)
                 ELSE Say(tid, "viol:" \o clause)
        allok == /\ o.parses /\ o.intended /\ o.gone /\ o.clean /\ (fix \/ o.ins_comment)
                 /\ (fix => (del = e1..e2 /\ o.keep_prefix >= e1 - 1 /\ o.keep_suffix >= n - e2))
    IN \* ---- drift: the Impl operators reproduce the real fixer (evaluated on the observed lines)
       /\ (IF del # {} THEN TRUE ELSE Say(tid, "drift:no-change-proposed"))
       /\ (IF fix
           THEN (IF del = ImplRange(f, o.nodeline, e2) THEN TRUE ELSE Say(tid, "drift:range"))
           ELSE (IF del = {o.diagline} /\ o.ins_indent = Indent(f[o.diagline]) THEN TRUE ELSE Say(tid, "drift:insert")))
       /\ (IF o.added = Adds(cc) THEN TRUE ELSE Say(tid, "drift:added-lines"))
       /\ (IF del = {} \/ (/\ o.newlen = n - Cardinality(del) + o.added
                           /\ o.keep_prefix >= SetMin(del) - 1 /\ o.keep_suffix >= n - SetMax(del))
           THEN TRUE ELSE Say(tid, "drift:apply"))
       \* ---- post-conditions of the property
       /\ (IF fix
           THEN /\ Post(del \subseteq e1..e2 /\ o.keep_prefix >= e1 - 1 /\ o.keep_suffix >= n - e2, "RangeExceedsNode")
                /\ Post(e1..e2 \subseteq del, "RangeShortOfNode")
                /\ Post(o.intended, "OnlyIntendedChange")
           ELSE /\ Post(o.intended, "TreeUnchanged")
                /\ Post(o.ins_comment, "InsertedLineIsComment")
                \* the Ref model of "a comment line is a no-op here" agrees with CPython (judged only when the real
                \* edit IS an own-line insertion above the diagnostic's line)
                /\ (IF del = {o.diagline} /\ o.added = 2
                    THEN (IF RefInsertSafe(f, o.diagline) \/ ~(o.parses /\ o.intended /\ o.ins_comment)
                          THEN TRUE ELSE Say(tid, "oracle:insert-safety"))
                    ELSE TRUE))
       /\ Post(o.parses, "StillParses")
       /\ Post(o.gone, "ProposingDiagnosticGone")
       /\ Post(o.clean, "FixLoopTerminatesClean")
       /\ Post(o.cli_same, "CommandLineFixerAgrees")
       \* a deviation class that the real code no longer exhibits is model drift
       /\ (IF known # {} /\ allok THEN Say(tid, "drift:deviation-not-reproduced") ELSE TRUE)

\* the property speaks about replacements that ARE proposed
Judge(o) ==
    /\ JudgeOracle(o)
    /\ (IF o.proposed THEN JudgeProposed(o) ELSE Say(o.tid, "drift:no-replacement-proposed"))

TObs == /\ Judge(Obs[l])
        /\ c' = Obs[l].case /\ stage' = "done"
TNext == l <= Len(Obs) /\ TObs /\ l' = l + 1
=============================================================================
