---------------------------- MODULE FixLoopTrace ----------------------------
(* Trace specification for the add-ignores loop (C16).  Per realised file (tid):                  *)
(*   Begin(case)                                                                                 *)
(*   Iter(first = [code, line] of the first diagnostic the real run reported,                    *)
(*        pos, code = where the real fixer inserted which own-line ignore comment)               *)
(*   End(status = "fixed" | "diverged", ast_same, only_insertions)                               *)
(* Each Iter line is compared with FixLoop!ImplFixStep (drift) and then the REAL edit is applied *)
(* to the tracked file, so that End judges the properties on what the real code produced.        *)
EXTENDS FixLoop, Json, IOUtils

Obs == ndJsonDeserialize(IOEnv.TRACE_FILE)
VARIABLE l

ToSet(s) == {s[j] : j \in 1..Len(s)}
DecodeCase(o) == [lines |-> o.lines, disabled |-> ToSet(o.disabled), unused_on |-> o.unused_on, bare_on |-> o.bare_on]
Say(tid, v) == PrintT(<<"VERDICT", tid, v>>)

TInit == l = 1 /\ FInit

TBegin ==
    /\ Obs[l].event = "Begin"
    /\ case' = DecodeCase(Obs[l].case)
    /\ fl' = [k \in 1..Len(Obs[l].case.lines) |-> Track(Obs[l].case.lines[k], k)]
    /\ orig' = fl' /\ iter' = 0 /\ UNCHANGED <<pc, i, ms>>

TIter ==
    /\ Obs[l].event = "Iter"
    /\ LET o == Obs[l]
           model == ImplFixStep(fl, case)
           tgtline == o.first[2]
           real == SubSeq(fl, 1, o.pos - 1)
                   \o << Inserted(o.code, IF tgtline \in 1..Len(fl) THEN fl[tgtline].id ELSE 0) >>
                   \o SubSeq(fl, o.pos, Len(fl))
       IN /\ fl' = real
          /\ (IF Plain(model) = Plain(real) THEN TRUE ELSE Say(o.tid, "drift:fix-step"))
          /\ (IF o.code = o.first[1] /\ o.pos = tgtline THEN TRUE
              ELSE Say(o.tid, "viol:InsertedCommentIsForFirstDiagnostic"))
    /\ iter' = iter + 1 /\ UNCHANGED <<case, pc, i, ms, orig>>

TEnd ==
    /\ Obs[l].event = "End"
    /\ LET o == Obs[l]
       IN /\ (IF o.ast_same /\ o.only_insertions /\ OnlyCommentsInserted(fl, orig) THEN TRUE
              ELSE Say(o.tid, "viol:TreeUnchanged"))
          /\ (IF o.status = "fixed"
              THEN (IF EachIgnoreTargetsOne(fl, case) THEN TRUE
                    ELSE IF Dev_InsertIntoLeadingBlock(case) THEN Say(o.tid, "dev:insert-into-leading-comment-block")
                    ELSE Say(o.tid, "viol:EachIgnoreTargetsOne"))
              ELSE (IF Dev_MetaStuck(fl, case) THEN Say(o.tid, "dev:meta-diagnostic-never-suppressible")
                    ELSE IF Dev_TwoCodesOneLine(case) THEN Say(o.tid, "dev:two-codes-one-line")
                    ELSE Say(o.tid, "viol:Converges")))
          /\ (IF (o.status = "fixed") = NothingReported(fl, case) THEN TRUE ELSE Say(o.tid, "drift:final-run"))
    /\ UNCHANGED fvars

TNext == l <= Len(Obs) /\ (TBegin \/ TIter \/ TEnd) /\ l' = l + 1
=============================================================================
