------------------------ MODULE CallableKindsTrace ------------------------
(* Trace specification for the callable-kinds slice of C05.  Every line of the trace file is one          *)
(* observation                                                                                             *)
(*   [tid, case |-> [kind, via, sig, call],                                                                *)
(*    vis    |-> "ok" | "err" | <anything else>   incompatible_call reported on the generated call line    *)
(*                 by the real visitor ("err"), nothing reported ("ok"); any other diagnostic on that line *)
(*                 or an exception is recorded verbatim and is a violation (no verdict),                   *)
(*    vispos |-> the positions the Bind hook recorded for the LAST bind_arguments call on that line        *)
(*                 (<<"none">>: no Bind event, <<"rejected">>: bind_arguments returned None),              *)
(*    cpy    |-> "ok" | "err" | "na"   what REALLY evaluating the call expression did under CPython        *)
(*                 (concrete shapes; "err" = TypeError),                                                   *)
(*    exp    |-> [names, maxexp, total, binding]  for unknown-length star arguments: the key names and     *)
(*                 maximal length the call was expanded over, how many expansions were really performed,   *)
(*                 and those <<n, keys>> that CPython bound without TypeError,                             *)
(*    imp    |-> TRUE when the call site was in a module IMPORTING the definitions]                        *)
(* TLC first checks that the oracle model RefKindBinds agrees with what CPython really did ("oracle:..."   *)
(* = machinery error), then judges the REAL verdict by the property, then compares verdict and positions   *)
(* with the implementation model ImplKindRun ("drift:...").  A `dev:` verdict is given only when the real  *)
(* verdict is exactly what the model of the deviating mechanism predicts.                                  *)
EXTENDS CallableKinds, Json, IOUtils

KObs == ndJsonDeserialize(IOEnv.TRACE_FILE)
VARIABLE kl

KSay(tid, v) == PrintT(<<"VERDICT", tid, v>>)

\* ---- the oracle model against real CPython
KOracleConcrete(o) == RefKindBinds(o.case, NoExpansion) = (o.cpy = "ok")

KOracleUniverse(o) ==
    /\ ToSet(o.exp.names) = KExpNames(o.case)
    /\ o.exp.maxexp = KExpBound(o.case, MaxExp)
    /\ o.exp.total = Cardinality(KExpansions(o.case, KExpBound(o.case, MaxExp), FALSE))

KRealBinding(o) == {[n |-> o.exp.binding[j][1], K |-> ToSet(o.exp.binding[j][2])] : j \in 1..Len(o.exp.binding)}
KOracleExpansions(o) ==
    {e \in KExpansions(o.case, KExpBound(o.case, MaxExp), FALSE) : RefKindBinds(o.case, e)} = KRealBinding(o)

KStep1(o) ==
    IF IsConcrete(o.case.call)
    THEN (IF KOracleConcrete(o) THEN TRUE ELSE KSay(o.tid, "oracle:kind-concrete-call"))
    ELSE IF ~KOracleUniverse(o) THEN KSay(o.tid, "oracle:kind-expansion-universe")
    ELSE IF KOracleExpansions(o) THEN TRUE ELSE KSay(o.tid, "oracle:kind-expansions")

\* ---- the property on the real verdict
\* a named deviation excuses an observation only if the real verdict is the one the Impl model (which
\* reproduces the deviating mechanism) predicts
AsModelled(c, acc) == ImplKindAccepted(c) = acc

KJudge(o) ==
    LET c == o.case
        acc == o.vis = "ok"
    IN IF o.vis \notin {"ok", "err"} THEN KSay(o.tid, "viol:KindNoVerdict")
       ELSE IF IsConcrete(c.call)
       THEN (IF KRefConcreteAgrees(c, acc) THEN TRUE
             ELSE IF acc /\ AsModelled(c, acc) /\ Dev_BareClassAcceptsArguments(c)
                  THEN KSay(o.tid, "dev:bare-class-accepts-arguments")
             ELSE IF acc /\ AsModelled(c, acc) /\ Dev_InitIgnoredWhenNewDefined(c)
                  THEN KSay(o.tid, "dev:init-ignored-when-new-defined")
             ELSE IF acc /\ AsModelled(c, acc) /\ Dev_ReceiverNameKeywordAbsorbed(c)
                  THEN KSay(o.tid, "dev:receiver-name-keyword-absorbed")
             ELSE KSay(o.tid, "viol:KindBinding"))
       ELSE /\ (IF KRefAcceptSound(c, acc, MaxExp) THEN TRUE
                ELSE IF AsModelled(c, acc) /\ Dev_BareClassAcceptsArguments(c)
                     THEN KSay(o.tid, "dev:bare-class-accepts-arguments")
                ELSE IF AsModelled(c, acc) /\ Dev_InitIgnoredWhenNewDefined(c)
                     THEN KSay(o.tid, "dev:init-ignored-when-new-defined")
                ELSE IF AsModelled(c, acc) /\ Dev_ReceiverNameKeywordAbsorbed(c)
                     THEN KSay(o.tid, "dev:receiver-name-keyword-absorbed")
                ELSE IF AsModelled(c, acc) /\ Dev_KeywordHiddenByStarKwargs(KNorm(c))
                     THEN KSay(o.tid, "dev:keyword-hidden-by-star-kwargs")
                ELSE KSay(o.tid, "viol:KindAcceptSound"))
            /\ (IF KRefRejectSound(c, acc, MaxExp) THEN TRUE
                ELSE IF AsModelled(c, acc) /\ Dev_StarArgsThenKeyword(KNorm(c))
                     THEN KSay(o.tid, "dev:star-args-then-keyword")
                ELSE KSay(o.tid, "viol:KindRejectSound"))

\* ---- the implementation model against the real visitor
KDrift(o) ==
    LET m == ImplKindRun(o.case)
        k == ImplKind(o.case)
        \* no Bind event without a binder call: ANY_SIGNATURE, or preprocess_args already failed (check_call :1172)
        expect == IF k.mode = "any" \/ m.why \in {"Pre_MultipleValues", "Pre_PositionalAfterKeyword", "Pre_ArgsAfterKwargs"}
                  THEN <<"none">>
                  ELSE IF m.verdict = "ok" THEN m.bound ELSE <<"rejected">>
    IN IF o.vis \notin {"ok", "err"} THEN TRUE
       ELSE IF m.verdict # o.vis THEN KSay(o.tid, "drift:kind-verdict")
       ELSE IF o.vispos = <<"nohook">> \/ o.vispos = expect THEN TRUE
       ELSE KSay(o.tid, "drift:kind-hook-positions")

KTInit == kl = 1 /\ case = KBlank /\ stage = "trace" /\ act = NoActuals /\ st = BindStart /\ br = ""

KTNext ==
    /\ kl <= Len(KObs)
    /\ LET o == KObs[kl]
       IN /\ KStep1(o)
          /\ KJudge(o)
          /\ KDrift(o)
    /\ kl' = kl + 1
    /\ UNCHANGED vars
=============================================================================
