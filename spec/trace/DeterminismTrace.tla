--------------------------- MODULE DeterminismTrace ---------------------------
(* Trace specification for C10.  The trace is the concatenation of real runs: each run is one fresh   *)
(* process with its own PYTHONHASHSEED in which ONE Checker checked a sequence of programs:           *)
(*   Begin(seed)      Check(pid, family, digest)...                                                    *)
(* digest identifies the full rendered diagnostics (codes, positions, message text; module-name tokens *)
(* normalised).  TLC replays the Checker machine (Determinism!Check) and asserts that every program    *)
(* always has the digest it had the first time it was seen, whatever the seed and the history.         *)
EXTENDS Determinism, Json, IOUtils

Obs == ndJsonDeserialize(IOEnv.TRACE_FILE)
VARIABLES l, first           \* first: pid -> digest of its first observed rendering
Say(tid, v) == PrintT(<<"VERDICT", tid, v>>)

TInit == l = 1 /\ Init /\ first = [none |-> "none"]

TBegin ==
    /\ Obs[l].event = "Begin"
    /\ seed' = Obs[l].seed /\ hist' = << >> /\ cache' = {} /\ UNCHANGED <<out, first>>

TCheck ==
    /\ Obs[l].event = "Check"
    /\ LET o == Obs[l]
       IN /\ hist' = Append(hist, o.family) /\ cache' = cache \cup CacheKeys(o.family) /\ out' = Render(o.family, seed)
          /\ IF o.pid \in DOMAIN first
             THEN /\ first' = first
                  /\ (IF first[o.pid] = o.digest THEN TRUE
                      ELSE IF Dev_SetDisplay(o.family) THEN Say(o.tid, "dev:set-display-iteration-order")
                      ELSE Say(o.tid, "viol:Deterministic"))
                  \* drift: the model says whether this family may vary
                  /\ (IF (first[o.pid] = o.digest) \/ (Render(o.family, seed) # Canonical(o.family)) THEN TRUE
                      ELSE Say(o.tid, "drift:model-says-deterministic"))
             ELSE first' = [x \in DOMAIN first \cup {o.pid} |-> IF x = o.pid THEN o.digest ELSE first[x]]
    /\ UNCHANGED seed

TNext == l <= Len(Obs) /\ (TBegin \/ TCheck) /\ l' = l + 1
=============================================================================
