------------------------ MODULE CallableRoutesTrace ------------------------
(* Trace specification for the entry points of C07 (CallableRoutes.tla).  One observation per line:     *)
(*   [tid, case,                                                                                         *)
(*    real  |-> [verdict |-> "ok" | "err" | "raised",                                                    *)
(*               report  |-> 0 or the index of the base class named in the incompatible_override          *)
(*                           diagnostic on C.f (1 for an incompatible_argument on the other routes),     *)
(*               why]      what the REAL VISITOR said about the realised classes / functions             *)
(*                         (incompatible_override enabled; shared Checker, i.e. with history),           *)
(*    fresh |-> "ok" | "err" | "none"     the same snippet alone under a fresh Checker (protocol route), *)
(*    order |-> the real iteration order of get_generic_bases over the base classes (override),          *)
(*    mro   |-> the base classes in type(C).__mro__ order (override),                                    *)
(*    maxpos, maxkw, names, total   the call shapes that were REALLY executed,                           *)
(*    fbs |-> per expected signature, gb |-> for the actual one: the shapes <<n, keys, ptargets,         *)
(*            ktargets>> CPython bound (B_i.f(inst, ..) / inst.f(..) on an instance of C or K; f(..) /   *)
(*            g(..) on the callable route; n counts the receiver),                                       *)
(*    chain |-> <<r1, r2, issubclass>> for the realised type ranks]                                      *)
(* TLC validates the oracle model against the real calls ("oracle:.."), judges the real verdicts         *)
(* (viol:OverrideSound / CallableParamSound / ProtocolSound / TypesSound-<route>, dev:<class>), and      *)
(* compares them with the implementation model (drift:..).                                               *)
EXTENDS CallableRoutes, Json, IOUtils

Obs == ndJsonDeserialize(IOEnv.TRACE_FILE)
VARIABLE l

Say(tid, v) == PrintT(<<"VERDICT", tid, v>>)

Shape(b) == [npos |-> b[1], kws |-> ToSet(b[2]), dup |-> FALSE]
RealBound(bs) == {Shape(bs[j]) : j \in 1..Len(bs)}

Defined(c) == {i \in DOMAIN c.bases : c.bases[i].def}

OracleShapesR(o, sh) ==
    /\ ToSet(o.names) = RouteNames(o.case)
    /\ o.total = Cardinality(sh)
OracleBindsR(sh, sig, bs) == {cc \in sh : RefBinds(sig, cc)} = RealBound(bs)
OracleTargetsR(sig, bs) ==
    \A j \in 1..Len(bs) :
        /\ \A n \in 1..bs[j][1] : RefPositionalTarget(sig, n) = bs[j][3][n]
        /\ \A m \in 1..Len(bs[j][2]) : RefKeywordTarget(sig, bs[j][2][m]) = bs[j][4][m]
OracleChainR(o) ==
    \A j \in 1..Len(o.chain) : TypeContains(o.chain[j][2], o.chain[j][1]) = o.chain[j][3]

StepOracleR(o, sh) ==
    LET c == o.case
    IN IF ~OracleShapesR(o, sh) THEN Say(o.tid, "oracle:call-shape-universe")
       ELSE IF ~(\A i \in Defined(c) : OracleBindsR(sh, c.bases[i].sig, o.fbs[i])) THEN Say(o.tid, "oracle:expected-binds")
       ELSE IF ~OracleBindsR(sh, c.child.sig, o.gb) THEN Say(o.tid, "oracle:actual-binds")
       ELSE IF ~(/\ \A i \in Defined(c) : OracleTargetsR(c.bases[i].sig, o.fbs[i])
                 /\ OracleTargetsR(c.child.sig, o.gb)) THEN Say(o.tid, "oracle:targets")
       ELSE IF ~OracleChainR(o) THEN Say(o.tid, "oracle:type-chain")
       ELSE IF c.route = "override" /\ ToSet(o.mro) # RefAncestors(c) THEN Say(o.tid, "oracle:ancestors")
       ELSE TRUE

Clause(c) ==
    CASE c.route = "override" -> "OverrideSound" [] c.route = "callable" -> "CallableParamSound"
      [] c.route = "protocol" -> "ProtocolSound"

\* v = a real verdict ("ok" = no diagnostic)
JudgeR(o, sh, v, tag) ==
    LET c == o.case
        bad == {i \in RefExpected(c) : ~RefBehaviourOn(c, i, sh)}
    IN IF v \notin {"ok", "err"} THEN Say(o.tid, "viol:NoVerdict" \o tag)
       ELSE IF v = "err" \/ RefExempt(c) THEN TRUE
       ELSE /\ (IF bad = {} THEN TRUE
                ELSE IF \A i \in bad : Dev_KAPAt(c, i, o.maxpos, o.maxkw) /\ ImplAcceptsAt(c, i)
                     THEN Say(o.tid, "dev:keyword-also-positional")
                ELSE Say(o.tid, "viol:" \o Clause(c) \o tag))
            /\ (IF \A i \in RefExpected(c) : RefTypesOn(c, i, sh)
                THEN TRUE
                ELSE Say(o.tid, "viol:TypesSound-" \o c.route \o tag))

WhyClass(why) ==
    CASE why \in {"PO_VarArgsType", "PK_VarArgsType"} -> "VarArgsType"
      [] why \in {"PK_Type", "KO_Type"} -> "ParamType"
      [] why \in {"PK_KwargsType", "KO_KwargsType"} -> "KwargsType"
      [] why \in {"PK_NotAccepted", "KO_NotAccepted"} -> "NotAccepted"
      [] why \in {"Final_ExtraParam", "Final_ExtraKwOnly"} -> "Final_Extra"
      [] OTHER -> why

DriftR(o) ==
    LET c == o.case
        m == ImplRoute(c)
    IN /\ (IF (m.report = 0) # (o.real.report = 0) THEN Say(o.tid, "drift:verdict")
           ELSE IF m.report # o.real.report THEN Say(o.tid, "drift:reported-base")
           ELSE IF m.report = 0 \/ WhyClass(m.why) = o.real.why THEN TRUE
           ELSE Say(o.tid, "drift:branch"))
       /\ (IF c.route # "override" \/ o.order = ImplIterOrder(c) THEN TRUE ELSE Say(o.tid, "drift:iteration-order"))

RTInit == l = 1 /\ case = BlankCase /\ stage = "trace" /\ s = CompatStart /\ br = "" /\ rs = RouteStart

RTNext ==
    /\ l <= Len(Obs)
    /\ LET o == Obs[l]
           sh == RouteShapes(o.case, o.maxpos, o.maxkw)
       IN /\ StepOracleR(o, sh)
          /\ JudgeR(o, sh, o.real.verdict, "")
          /\ (IF o.fresh = "none" THEN TRUE ELSE JudgeR(o, sh, o.fresh, "-fresh"))
          /\ (IF o.real.verdict \in {"ok", "err"} THEN DriftR(o) ELSE TRUE)
          /\ (IF o.fresh = "none" \/ o.fresh = o.real.verdict THEN TRUE ELSE Say(o.tid, "drift:history"))
    /\ l' = l + 1
    /\ UNCHANGED rvars
=============================================================================
