--------------------------- MODULE ProtocolsTrace ---------------------------
(* Trace specification for the protocol sub-universe of C04.  Observation kinds (one per line):                      *)
(*  "phist":    {tid, steps: <<[a, b, real, parts, (fresh)]..>>}  a sequence of A.can_assign(B) through ONE new       *)
(*              Checker (new Value objects per step); parts = the real verdicts of the union's members (the steps     *)
(*              just before); fresh = the verdict of the same pair through a new Checker (history slices only)        *)
(*  "psnip":    {tid, a, b, diagnosed}   `def use(p: A)` called with an expression of type B through the visitor      *)
(*  "pmembers": {tid, proto, isproto, real}   TypeObject.protocol_members of the run-time protocol                    *)
(*  "prt":      {tid, o, pt, present, valok, isinst}   CPython: members present on o / values of the declared types / *)
(*              isinstance(o, P)  -- validates the oracle (PTab, RefConf, RtIsInstance), verdicts "oracle:..."        *)
(* The model is replayed over every history with its own cache (Accept threads it), so a verdict that differs from    *)
(* the model is drift, an acceptance that is not sound for membership is a violation unless the model of a named      *)
(* deviation reproduces exactly this verdict.                                                                         *)
EXTENDS Protocols, Json, IOUtils

Obs == ndJsonDeserialize(IOEnv.TRACE_FILE)
VARIABLE l
Say(tid, v) == PrintT(<<"VERDICT", tid, v>>)
Chk(cond, tid, v) == IF cond THEN TRUE ELSE Say(tid, v)

RepF == [RealF EXCEPT !.cacheassumed = FALSE]
DevSet(A, B) == {f \in DevFlags : Dev_Of(f, A, B)}
DevVerdict(f) == CASE f = "propany" -> "dev:protocol-property-member-untyped"
                   [] f = "noneany" -> "dev:none-valued-attribute-satisfies-protocol-member"
                   [] f = "artretry" -> "dev:int-accepted-for-protocol-via-float-promotion"
                   [] f = "rescue" -> "dev:runtime-protocol-literal-accepted-by-isinstance"
                   [] f = "callany" -> "dev:literal-callable-object-signature-unknown"
Poisoned == "dev:protocol-cache-poisoned-by-recursion-guard"
Unsound(A, B, real) == real /\ ~PHasBare(A) /\ ~PHasBare(B) /\ ~RefSound(A, B)
\* the verdict for an unsound acceptance that the fresh model reproduces: the class of the mechanism whose repair flips it
FreshClass(A, B) == IF DevSet(A, B) # {} THEN DevVerdict(CHOOSE f \in DevSet(A, B) : TRUE) ELSE "viol:Sound"
AllTrue(s) == \A i \in 1..Len(s) : s[i]
SomeTrue(s) == \E i \in 1..Len(s) : s[i]

\* (verdicts of a history carry the index of the step: "viol:Sound@3")
ChkS(cond, tid, i, v) == IF cond THEN TRUE ELSE Say(tid, v \o "@" \o ToString(i))
RECURSIVE JudgeSteps(_, _, _, _, _, _, _)
\* mvs / pfs: the model's verdicts of the steps so far and whether each was in the poisoned-cache class (the parts of a
\* union are the steps just before it)
JudgeSteps(steps, i, cache, cacheR, tid, mvs, pfs) ==
    IF i > Len(steps) THEN TRUE
    ELSE LET s == steps[i]  A == s.a  B == s.b
             m == Accept(A, B, cache, RealF)            \* the code as it is, with the cache this history built
             mr == Accept(A, B, cacheR, RepF)           \* the same history through the repaired caching rule
             mf == AcceptF(A, B, RealF)                 \* a new Checker
             poisoned == m.r /\ ~mf /\ mr.r = mf        \* what the deviating caching rule predicts here
             np == Len(s.parts)
             pidx == (i - np)..(i - 1)
             \* a union law that fails although the model reproduces every verdict involved, one of them being a
             \* poisoned-cache verdict, is that deviation showing through the law
             lawDev == /\ s.real = m.r /\ \A j \in pidx : steps[j].real = mvs[j]
                       /\ (poisoned \/ \E j \in pidx : pfs[j])
         IN /\ ChkS(s.real = m.r, tid, i, "drift:protocol_can_assign")
            /\ ChkS(~Unsound(A, B, s.real), tid, i,
                   IF s.real = m.r /\ poisoned THEN Poisoned
                   ELSE IF s.real = m.r /\ s.real = mf THEN FreshClass(A, B)
                   ELSE "viol:Sound")
            /\ ChkS((A = B /\ (IsPT(A) \/ A.k = "callable")) => s.real, tid, i, "viol:Reflexive")
            /\ ChkS(B = Never => s.real, tid, i, "viol:NeverBottom")
            /\ ChkS(A = TObj => s.real, tid, i, "viol:ObjectTop")
            /\ ChkS((B.k = "union" /\ np > 0) => (s.real <=> AllTrue(s.parts)), tid, i, IF lawDev THEN Poisoned ELSE "viol:UnionLeft")
            /\ ChkS((A.k = "union" /\ B.k # "union" /\ np > 0) => (SomeTrue(s.parts) => s.real), tid, i,
                    IF lawDev THEN Poisoned ELSE "viol:UnionRight")
            /\ IF "fresh" \in DOMAIN s
               THEN /\ ChkS(s.fresh = mf, tid, i, "drift:protocol_can_assign_fresh")
                    /\ ChkS(s.real = s.fresh, tid, i, IF s.real = m.r /\ s.fresh = mf /\ poisoned THEN Poisoned ELSE "viol:HistoryIndependent")
               ELSE TRUE
            /\ JudgeSteps(steps, i + 1, m.c, mr.c, tid, Append(mvs, m.r), Append(pfs, poisoned))

\* through the visitor the attribute context reads a property with its declared return type, so the property deviation
\* does not occur on this route (all other switches as in RealF)
SnipF == [RealF EXCEPT !.propany = FALSE]
JudgeSnip(o) ==
    LET real == ~o.diagnosed  mf == AcceptF(o.a, o.b, SnipF)
        devs == {f \in DevFlags : Dev_OfF(f, o.a, o.b, SnipF)}
    IN /\ Chk(real = mf, o.tid, "drift:protocol_snippet")
       /\ Chk(~Unsound(o.a, o.b, real), o.tid,
              IF real = mf /\ devs # {} THEN DevVerdict(CHOOSE f \in devs : TRUE) ELSE "viol:Sound")

JudgeMembers(o) == Chk(o.isproto /\ RangeOf(o.real) = ImplProtoMembers(o.proto, RealF), o.tid, "drift:protocol_members")

JudgeRt(o) ==
    LET p == o.pt.c
    IN /\ Chk(o.present = RefPresent(o.o, p), o.tid, "oracle:presence")
       /\ Chk(PMember(o.o, o.pt) => (o.present /\ o.valok), o.tid, "oracle:member-values")
       /\ Chk(o.isinst = (IF ~PTab[p].rt THEN "typeerror" ELSE IF RtIsInstance(o.o, p) THEN "yes" ELSE "no"), o.tid, "oracle:isinstance")

PTInit == l = 1 /\ PInit
PTNext ==
    /\ l <= Len(Obs)
    /\ CASE Obs[l].kind = "phist" -> JudgeSteps(Obs[l].steps, 1, {}, {}, Obs[l].tid, << >>, << >>)
         [] Obs[l].kind = "psnip" -> JudgeSnip(Obs[l])
         [] Obs[l].kind = "pmembers" -> JudgeMembers(Obs[l])
         [] Obs[l].kind = "prt" -> JudgeRt(Obs[l])
    /\ l' = l + 1 /\ UNCHANGED pvars /\ UNCHANGED vars
=============================================================================
