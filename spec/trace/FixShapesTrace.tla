---------------------------- MODULE FixShapesTrace ----------------------------
(* Trace specification for the producer slice of C16 (FixShapes.tla).  One observation per realised case:          *)
(*   case     the abstract case                                                                                    *)
(*   offers   for every diagnostic the real run reported, in emission order: did it carry a replacement            *)
(*   applied  the fixer rewrote the text;  parses / gone / nonew: every rewritten text parses, the proposing       *)
(*            diagnostic's count went down, no new KIND of diagnostic appeared (each step of the loop)             *)
(*   same     fn, really executed on the sample inputs, returns / raises exactly what the intended program does    *)
(*   reaching every name read in fn still has a definition;  clean: the loop reached a fixpoint                    *)
(*   (facts that cannot be evaluated because a text does not parse are recorded as TRUE)                           *)
(* drift: the Impl model of the producers' decisions = the real decisions.  A failing post-condition is a known     *)
(* deviation only if the case is in a Dev class that can break this clause and the real decisions are the modelled *)
(* ones; everything else is a violation.                                                                           *)
EXTENDS FixShapes, Json, IOUtils
Obs == ndJsonDeserialize(IOEnv.TRACE_FILE)
VARIABLE l
Say(tid, v) == PrintT(<<"VERDICT", tid, v>>)
TInit == l = 1 /\ Init

Judge(o) ==
    LET cc == o.case
        tid == o.tid
        model == [i \in 1..Len(Reports(cc)) |-> Reports(cc)[i].offer]
        repro == o.offers = model
        known == Known(cc)
        Post(ok, clause) ==
            IF ok THEN TRUE
            ELSE IF repro /\ \E k \in known : clause \in ClausesOf(k)
                 THEN \A k \in {k2 \in known : clause \in ClausesOf(k2)} : Say(tid, "dev:" \o k)
                 ELSE Say(tid, "viol:" \o clause)
        allok == o.parses /\ o.gone /\ o.nonew /\ o.same /\ o.reaching /\ o.clean
    IN /\ (IF repro THEN TRUE ELSE Say(tid, "drift:reports-and-offers"))
       /\ (IF o.applied = (o.offers # << >> /\ o.offers[1]) THEN TRUE ELSE Say(tid, "drift:first-change-only"))
       /\ (IF o.applied
           THEN /\ Post(o.parses, "StillParses")
                /\ Post(o.gone, "ProposingDiagnosticGone")
                /\ Post(o.nonew, "NoNewDiagnosticKind")
                /\ Post(o.same /\ o.reaching, "OnlyIntendedChange")
                /\ Post(o.clean, "FixLoopTerminatesClean")
                /\ (IF known # {} /\ allok THEN Say(tid, "drift:deviation-not-reproduced") ELSE TRUE)
           ELSE TRUE)      \* the property speaks about replacements that ARE applied

TObs == /\ Judge(Obs[l])
        /\ c' = Obs[l].case /\ stage' = "done"
TNext == l <= Len(Obs) /\ TObs /\ l' = l + 1
=============================================================================
