---------------------------- MODULE TypeEvalTrace ----------------------------
(* Trace specification for C20.  Every line of the trace file is one observation of the real      *)
(* checker on a realised case of TypeEval.tla:                                                    *)
(*   {tid, case, env: {ver (tuple(sys.version_info) as typed elements), plat},                    *)
(*    real: {status ("ok" | "exception": an internal_error at the definition or the call, or the  *)
(*           checker raised), rej (the diagnostics reported inside the evaluator's definition),   *)
(*           twin ("none" | "ok" | "exception": the probe's condition in an ordinary function),   *)
(*           types (members of the inferred value of the call node), etypes (members of   *)
(*           the value Evaluator.evaluate returned), errs (messages of every UserRaisedError, in  *)
(*           order), diag (messages the visitor reported at the call), pos: {a, b} (the positions *)
(*           bind_arguments fed to the evaluator)},                                               *)
(*    cpy: [{a: version/platform atom, v: what real CPython evaluates it to: "T" | "F" | "err"}]} *)
(* TLC evaluates the documented semantics (RefObs, RefKind) and the implementation-shaped model   *)
(* (ImplObs, ImplPos, ImplDiag) on the recorded case and judges the recorded real result.         *)
EXTENDS TypeEval, Json, IOUtils

Obs == ndJsonDeserialize(IOEnv.TRACE_FILE)
VARIABLE l

Say(tid, v) == PrintT(<<"VERDICT", tid, v>>)
AnyMem == [v \in Vars |-> "Any"]

\* the oracle's model of the PEP 484 checks agrees with real CPython on every recorded check
OracleOK(o) == \A i \in 1..Len(o.cpy) : PyEnvEval(o.env, o.cpy[i].a) = o.cpy[i].v

Judgement(o) ==
    LET c == o.case
        env == o.env
        real == [types |-> ToSet(o.real.types), errs |-> ToSet(o.real.errs)]
        R == RefObs(c, env)
        run == ImplRun(c, env, NoFix)           \* one evaluation of the model per observation
        M == ObsOfRun(c, run)
        cls == IF real = R THEN {} ELSE Class(c, env)
        plain == UnionVars(c) = {} /\ ~UsesEll(c) /\ "Any" \notin ToSet(c.ta) \cup ToSet(c.tb)
    IN  \* the result type and the fired errors are the documented ones (or a named known deviation)
        /\ IF real = R THEN (IF real = M THEN TRUE ELSE Say(o.tid, "drift:ImplInterp"))
           ELSE IF real = M /\ cls # {} /\ "viol" \notin cls
                THEN \A k \in cls : Say(o.tid, "dev:" \o k)
                ELSE Say(o.tid, "viol:EvalFollowsSpec")
        /\ IF plain /\ real # R /\ real = M THEN Say(o.tid, "viol:ExactOnSingletons") ELSE TRUE
        /\ IF real # R /\ real = M /\ ~Sub(R, real) /\ cls \cap MayUnderApproximate = {}
           THEN Say(o.tid, "viol:OverApproximates") ELSE TRUE
        \* the three argument-kind predicates, as computed from the recorded positions
        /\ IF KindsAgree(c, o.real.pos) THEN TRUE ELSE Say(o.tid, "viol:ArgumentKindsFollowSpec")
        /\ IF \A v \in Vars : o.real.pos[v] = ImplPos(c, v) THEN TRUE ELSE Say(o.tid, "drift:ImplPos")
        \* what the visitor shows is what the evaluator returned / raised
        /\ IF ToSet(o.real.types) = ToSet(o.real.etypes) THEN TRUE ELSE Say(o.tid, "viol:CallTypeIsEvaluatorResult")
        /\ IF ToSet(o.real.diag) \subseteq ToSet(o.real.errs) /\ ((o.real.diag = << >>) = (o.real.errs = << >>))
           THEN TRUE ELSE Say(o.tid, "viol:DiagnosticsAreEvaluatorErrors")
        /\ IF o.real.diag = DiagOf(run.errs) /\ o.real.errs = run.errs THEN TRUE
           ELSE IF real = M THEN Say(o.tid, "drift:ImplDiag") ELSE TRUE

\* Conditions are accepted / rejected as the specification says and the check does not raise; a
\* named class only when the real code did exactly what the model of the unchanged code predicts.
StatusJudgement(o) ==
    LET c == o.case
        env == o.env
        must == RefMustReject(c, env)
        rr == o.real.rej # << >>
        rx == o.real.status # "ok"
        mrej == ImplRejected(c, env, NoFix)
        mcr == ImplCrashes(c, env, NoFix)
        real == [types |-> ToSet(o.real.types), errs |-> ToSet(o.real.errs)]
        realOK == ~rx /\ (IF must THEN rr ELSE (rr => RefMayReject(c, env)))
    IN IF realOK
       THEN /\ IF rr = mrej /\ ~mcr THEN TRUE ELSE Say(o.tid, "drift:ImplStatus")
            \* the result of calling a rejected evaluator is not specified: only compared with the model
            /\ IF rr /\ mrej /\ ~mcr /\ real # ObsOfRun(c, ImplRun(c, env, NoFix))
               THEN Say(o.tid, "drift:ImplInvalid") ELSE TRUE
       ELSE LET sc == StatusClass(c, env)
                same == rr = mrej /\ rx = mcr /\ (rx \/ real = ObsOfRun(c, ImplRun(c, env, NoFix)))
            IN IF same /\ sc # {} /\ "viol" \notin sc
               THEN \A k \in sc : Say(o.tid, "dev:" \o k)
               ELSE Say(o.tid, IF rx THEN "viol:CheckerRaised"
                               ELSE IF must THEN "viol:InvalidConditionNotRejected"
                               ELSE "viol:ValidConditionRejected")
\* the probe's condition in ordinary code must not make the checker raise
TwinAtom(c) == LET x == c.lines[1].c IN IF x.k = "not" THEN x.c ELSE x
TwinJudgement(o) ==
    IF o.real.twin = "none" THEN TRUE
    ELSE LET m == ImplTwinRaises(o.env, TwinAtom(o.case)) IN
         IF o.real.twin = "exception" THEN Say(o.tid, "viol:OrdinaryCheckRaised")
         ELSE (IF m THEN Say(o.tid, "drift:ImplTwin") ELSE TRUE)

TInit == l = 1 /\ case = Blank /\ stage = "trace"
TNext ==
    /\ l <= Len(Obs)
    /\ LET o == Obs[l] IN
       IF ~OracleOK(o) THEN Say(o.tid, "oracle:sys-check")
       ELSE /\ StatusJudgement(o)
            /\ TwinJudgement(o)
            /\ IF o.real.status = "ok" /\ o.real.rej = << >> /\ ~RefMustReject(o.case, o.env)
               THEN Judgement(o) ELSE TRUE
    /\ l' = l + 1
    /\ UNCHANGED gvars
=============================================================================
