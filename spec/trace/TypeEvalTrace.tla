---------------------------- MODULE TypeEvalTrace ----------------------------
(* Trace specification for C20.  Every line of the trace file is one observation of the real      *)
(* checker on a realised case of TypeEval.tla:                                                    *)
(*   {tid, case, env: {ver, plat},                                                                *)
(*    real: {status, types (members of the inferred value of the call node), etypes (members of   *)
(*           the value Evaluator.evaluate returned), errs (messages of every UserRaisedError, in  *)
(*           order), diag (messages the visitor reported at the call), pos: {a, b} (the positions *)
(*           bind_arguments fed to the evaluator)},                                               *)
(*    cpy: [{a: version/platform atom, v: what real CPython evaluates it to}]}                    *)
(* TLC evaluates the documented semantics (RefObs, RefKind) and the implementation-shaped model   *)
(* (ImplObs, ImplPos, ImplDiag) on the recorded case and judges the recorded real result.         *)
EXTENDS TypeEval, Json, IOUtils

Obs == ndJsonDeserialize(IOEnv.TRACE_FILE)
VARIABLE l

Say(tid, v) == PrintT(<<"VERDICT", tid, v>>)
AnyMem == [v \in Vars |-> "Any"]

\* the oracle's model of the PEP 484 checks agrees with real CPython on every recorded check
OracleOK(o) == \A i \in 1..Len(o.cpy) : RefCond(o.case, o.env, AnyMem, o.cpy[i].a) = o.cpy[i].v

Judgement(o) ==
    LET c == o.case
        env == o.env
        real == [types |-> ToSet(o.real.types), errs |-> ToSet(o.real.errs)]
        R == RefObs(c, env)
        run == ImplRun(c, env, NoFix)           \* one evaluation of the model per observation
        M == ObsOfRun(c, run)
        cls == IF real = R THEN {} ELSE Class(c, env)
        plain == UnionVars(c) = {} /\ ~UsesEll(c) /\ "Any" \notin ToSet(c.ta) \cup ToSet(c.tb)
    IN  \* the result type and the fired errors are the documented ones (or a named known deviation)
        /\ IF real = R THEN (IF real = M THEN TRUE ELSE Say(o.tid, "drift:ImplInterp"))
           ELSE IF real = M /\ cls # {} /\ "viol" \notin cls
                THEN \A k \in cls : Say(o.tid, "dev:" \o k)
                ELSE Say(o.tid, "viol:EvalFollowsSpec")
        /\ IF plain /\ real # R /\ real = M THEN Say(o.tid, "viol:ExactOnSingletons") ELSE TRUE
        /\ IF real # R /\ real = M /\ ~Sub(R, real) /\ cls \cap MayUnderApproximate = {}
           THEN Say(o.tid, "viol:OverApproximates") ELSE TRUE
        \* the three argument-kind predicates, as computed from the recorded positions
        /\ IF KindsAgree(c, o.real.pos) THEN TRUE ELSE Say(o.tid, "viol:ArgumentKindsFollowSpec")
        /\ IF \A v \in Vars : o.real.pos[v] = ImplPos(c, v) THEN TRUE ELSE Say(o.tid, "drift:ImplPos")
        \* what the visitor shows is what the evaluator returned / raised
        /\ IF ToSet(o.real.types) = ToSet(o.real.etypes) THEN TRUE ELSE Say(o.tid, "viol:CallTypeIsEvaluatorResult")
        /\ IF ToSet(o.real.diag) \subseteq ToSet(o.real.errs) /\ ((o.real.diag = << >>) = (o.real.errs = << >>))
           THEN TRUE ELSE Say(o.tid, "viol:DiagnosticsAreEvaluatorErrors")
        /\ IF o.real.diag = DiagOf(run.errs) /\ o.real.errs = run.errs THEN TRUE
           ELSE IF real = M THEN Say(o.tid, "drift:ImplDiag") ELSE TRUE

TInit == l = 1 /\ case = Blank /\ stage = "trace"
TNext ==
    /\ l <= Len(Obs)
    /\ LET o == Obs[l] IN
       IF ~OracleOK(o) THEN Say(o.tid, "oracle:sys-check")
       ELSE IF o.real.status # "ok" THEN Say(o.tid, "viol:CheckerRaised")
       ELSE Judgement(o)
    /\ l' = l + 1
    /\ UNCHANGED gvars
=============================================================================
