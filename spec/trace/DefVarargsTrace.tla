--------------------------- MODULE DefVarargsTrace ---------------------------
(* Trace specification for C13 ( *args and **kwargs slice, DefVarargs.tla).  Lines as in DefHeadersTrace:           *)
(*   {tid, h, inspect, sigdef, sigrt, calls}  with calls = DefVarargs!VCalls(h), each judged next to the nested  *)
(*   twin def, at module level of the defining module and in an importing module.                                *)
EXTENDS DefVarargs, Json, IOUtils

Obs == ndJsonDeserialize(IOEnv.TRACE_FILE)
VARIABLE l

Say(tid, v) == PrintT(<<"VERDICT", tid, v>>)
ToSet(s) == {s[j] : j \in 1..Len(s)}
CallSame(h, c) ==
    /\ c.nested.codes = c.defmod.codes /\ c.defmod.codes = c.importer.codes
    /\ (h.ret # NoAnn => (RefSame(c.nested.ret, c.defmod.ret) /\ RefSame(c.defmod.ret, c.importer.ret)))

JudgeVararg(o) ==
    LET h == o.h
        asModel == o.sigdef = ImplSigDef(h) /\ o.sigrt = ImplSigRt(h)
        \* the class a disagreement belongs to: the crash class where a view of the model really is the crash
        crashed == Dev_FixedTupleAfterKeywordable(h) /\ (ImplSigDef(h).t # "Sig" \/ ImplSigRt(h).t # "Sig")
        devClass == IF crashed THEN "fixed-tuple-vararg-after-keywordable-parameter"
                    ELSE IF Dev_StarredVararg(h) THEN "starred-vararg-annotation" ELSE "none"
    IN /\ (IF RefInspect(h) = o.inspect THEN TRUE ELSE Say(o.tid, "oracle:RefInspect"))
       /\ (IF {[npos |-> o.calls[k].npos, kws |-> ToSet(o.calls[k].kws), bad |-> o.calls[k].bad] : k \in 1..Len(o.calls)} = VCalls(h)
           THEN TRUE ELSE Say(o.tid, "oracle:calls-recorded"))
       /\ (IF o.sigdef = ImplSigDef(h) THEN TRUE ELSE Say(o.tid, "drift:sigdef"))
       /\ (IF o.sigrt = ImplSigRt(h) THEN TRUE ELSE Say(o.tid, "drift:sigrt"))
       /\ (IF RefVarargViews(h, o.sigdef, o.sigrt) THEN TRUE
           \* the deviation class excuses exactly what the model of the current code shows
           ELSE IF devClass # "none" /\ asModel THEN Say(o.tid, "dev:" \o devClass)
           ELSE Say(o.tid, "viol:VarargViewsAgree"))
       /\ \A k \in 1..Len(o.calls) :
             IF CallSame(h, o.calls[k]) THEN TRUE
             ELSE IF devClass # "none" /\ asModel THEN Say(o.tid, "dev:" \o devClass)
             ELSE Say(o.tid, "viol:CallJudgedIdentically#" \o ToString(k))

TInit == l = 1 /\ HInit
TNext ==
    /\ l <= Len(Obs)
    /\ JudgeVararg(Obs[l])
    /\ l' = l + 1
    /\ UNCHANGED vars
=============================================================================
