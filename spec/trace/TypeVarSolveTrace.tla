-------------------------- MODULE TypeVarSolveTrace --------------------------
(* Trace specification for C15.  Every line of the trace file is one observation of the real      *)
(* code on one multiset, in several orders:                                                       *)
(*                                                                                                *)
(*  mode "raw":  {tid, bounds, perms: [{ord, verdict, sol, steps}]}                               *)
(*     pyanalyze.typevar.resolve_bounds_map({T: PermSeq(bounds, ord)}) returned no error          *)
(*     (verdict "ok", sol = the value chosen for T) or an error (verdict "error").  steps is      *)
(*     empty, or (SolveStep hook present) the (bottom, top) after every bound.                    *)
(*                                                                                                *)
(*  mode "call": {tid, decl, ps, perms: [{ord, verdict, phase, sols, tb, ub}]}                    *)
(*     the real visitor checked `f(a_ord1, a_ord2, ...)` for f declared with the parameters in    *)
(*     that order: verdict "ok" (no diagnostic on the call) / "diag", sols = the two components   *)
(*     of the inferred value of the call (return annotation tuple[T, U]), tb/ub = the bounds      *)
(*     handed to resolve_bounds_map for T and U, phase = where the call was diagnosed.            *)
(*                                                                                                *)
(* The oracle (Ref* operators of TypeVarSolve.tla) is evaluated on the REAL result; the Impl       *)
(* model is only compared for drift.                                                              *)
EXTENDS TypeVarSolve, Json, IOUtils

Obs == ndJsonDeserialize(IOEnv.TRACE_FILE)
VARIABLE l

Say(tid, v) == PrintT(<<"VERDICT", tid, v>>)

(* ------------------------------------------------------------------ raw *)
StateMatches(s, m) ==        \* s = [bset, bot, tset, top] recorded by the hook, m = model state
    /\ s.bset = m.bset /\ s.tset = m.tset
    /\ (m.bset => s.bot = m.bot) /\ (m.tset => s.top = m.top)

RawPerm(o, p, exists) ==
    LET seq == Dedup(PermSeq(o.bounds, p.ord))
        model == ImplSolveSeq(seq)
        violated == {i \in DOMAIN seq : ~RefSatBound(p.sol, seq[i])}
    IN /\ (IF p.verdict \in {"ok", "error"} THEN TRUE ELSE Say(o.tid, "viol:SolverRaised"))
       /\ (IF p.verdict # "ok" THEN TRUE
           ELSE \A i \in violated :
                  IF DevClass(seq, i, p.sol) # "" THEN Say(o.tid, "dev:" \o DevClass(seq, i, p.sol))
                  ELSE Say(o.tid, "viol:SolutionSatisfiesBounds"))
       /\ (IF p.verdict # "ok" \/ exists \/ GradualInput(o.bounds) \/ violated # {} THEN TRUE
           ELSE IF Dev_AnyDespiteUpperBound(o.bounds, p.sol) THEN Say(o.tid, "dev:constraint-choice-ignores-upper-bound")
           ELSE Say(o.tid, "viol:UnsatIsDiagnosed"))
       /\ (IF p.verdict = model.verdict /\ (p.verdict = "ok" => p.sol = model.sol) THEN TRUE
           ELSE Say(o.tid, "drift:solve"))
       /\ (IF p.steps = << >> THEN TRUE
           ELSE LET ms == ImplFoldStates(St0, seq)
                IN IF Len(ms) = Len(p.steps) /\ \A k \in DOMAIN ms : StateMatches(p.steps[k], ms[k]) THEN TRUE
                   ELSE Say(o.tid, "drift:fold-step"))

RawObs(o) ==
    LET exists == RefExists(o.bounds)
    IN /\ \A k \in DOMAIN o.perms : RawPerm(o, o.perms[k], exists)
       /\ (IF \A j, k \in DOMAIN o.perms : o.perms[j].verdict = o.perms[k].verdict THEN TRUE
           ELSE IF DevOrderClass(o.bounds) # "" THEN Say(o.tid, "dev:" \o DevOrderClass(o.bounds))
           ELSE Say(o.tid, "viol:OrderIndependent"))

(* ----------------------------------------------------------------- call *)
\* which raw deviation classes does the bound list that a real call produced fall into (information
\* only: "reach:<class>"; the call itself is judged by the call-level oracle)
Reach(tid, bounds) ==
    /\ (IF \E i \in DOMAIN bounds : bounds[i].k \in {"RL", "RU"} THEN Say(tid, "reach:orbound-ignored") ELSE TRUE)
    /\ (IF Dev_OrderAnyUpper(bounds) THEN Say(tid, "reach:any-upper-bound-resets-top") ELSE TRUE)
    /\ (IF Dev_OrderUppersUnited(bounds) THEN Say(tid, "reach:unrelated-upper-bounds-united") ELSE TRUE)
    /\ (IF \E i, j \in DOMAIN bounds : bounds[i].k = "U" /\ bounds[j].k = "O"
        THEN Say(tid, "reach:constraint-choice-ignores-upper-bound") ELSE TRUE)

CallPerm(o, p, exists) ==
    LET seq == PermSeq(o.ps, p.ord)
        model == ImplCall(o.decl, seq)
    IN /\ (IF p.verdict = "ok" => RefCallSat(o.decl, seq, p.sols) THEN TRUE
           ELSE Say(o.tid, "viol:CallSolutionSatisfies"))
       /\ (IF exists \/ p.verdict = "diag" THEN TRUE ELSE Say(o.tid, "viol:CallUnsatIsDiagnosed"))
       /\ (IF p.verdict = model.verdict /\ p.phase = model.phase THEN TRUE ELSE Say(o.tid, "drift:call-verdict"))
       /\ (IF p.phase \in {"", "p2"} => p.sols = model.sols THEN TRUE ELSE Say(o.tid, "drift:call-solution"))
       /\ (IF p.phase = "p1" \/ (p.tb = ImplCallBounds(o.decl, seq, "T") /\ p.ub = ImplCallBounds(o.decl, seq, "U"))
           THEN TRUE ELSE Say(o.tid, "drift:call-bounds"))
       \* the solver result of the real call is the solver model applied to the REAL bound lists
       /\ (IF p.phase \in {"", "p2"} =>
                (ImplSolveSeq(p.tb) = Ok(p.sols[1]) /\ ImplSolveSeq(p.ub) = Ok(p.sols[2]))
           THEN TRUE ELSE Say(o.tid, "drift:call-solve"))
       /\ (IF p.phase = "p1" THEN TRUE ELSE Reach(o.tid, p.tb) /\ Reach(o.tid, p.ub))

CallObs(o) ==
    LET exists == RefCallExists(o.decl, o.ps)
    IN /\ \A k \in DOMAIN o.perms : CallPerm(o, o.perms[k], exists)
       /\ (IF \A j, k \in DOMAIN o.perms : o.perms[j].verdict = o.perms[k].verdict THEN TRUE
           ELSE Say(o.tid, "viol:CallOrderIndependent"))

TInit == l = 1 /\ case = Blank /\ pc = "trace" /\ idx = << >> /\ left = {} /\ order = << >> /\ st = St0 /\ res = Ok(AnyV)
\* The judgement is evaluated as the right-hand side of the assignment to l', i.e. by TLC's state-level
\* evaluator: as a conjunct of the action, TLC would expand the quantifiers over the orders into nested
\* continuations (24 orders x 7 checks overflow the Java stack).
Judge(o) == IF o.mode = "raw" THEN RawObs(o) ELSE CallObs(o)
TNext ==
    /\ l <= Len(Obs)
    /\ l' = (IF Judge(Obs[l]) THEN l + 1 ELSE l + 1)
    /\ UNCHANGED vars
=============================================================================
