---------------------------- MODULE DispatchTrace ----------------------------
(* Trace specification for C19.  Every line of the trace file is one observation of ONE operation:  *)
(*   tid                                                                                           *)
(*   case   the abstract facts (Dispatch.tla), for synthetic classes the TLC-generated case itself,  *)
(*          for the literal universe extracted from the real objects                                *)
(*   cpy    what real CPython did when the expression was evaluated: [out, val]                     *)
(*          out = "val" | "TypeError" | "AttributeError" | "IndexError" | "exc"                     *)
(*   pyz    what the real pyanalyze did: [codes = diagnostics on the line, lit, val = the inferred   *)
(*          literal in the same canonical encoding as cpy.val]                                      *)
(* TLC (1) validates the model of CPython against real CPython ("oracle:"), (2) judges the real     *)
(* pyanalyze result by the property against real CPython ("viol:" / "dev:<class>"), (3) compares it  *)
(* with the implementation-shaped model ("drift:").                                                 *)
EXTENDS Dispatch, Json, IOUtils

Obs == ndJsonDeserialize(IOEnv.TRACE_FILE)
VARIABLE l

Say(tid, v) == PrintT(<<"VERDICT", tid, v>>)

\* diagnostics that are not about the operation being impossible (lint-only codes) do not count
LintOnly == {"use_fstrings", "use_floor_div", "implicit_any", "suggested_return_type", "suggested_parameter_type",
             "unused_variable", "unused_assignment", "missing_f", "implicit_reexport", "deprecated"}
RealCodes(o) == {o.pyz.codes[k] : k \in 1..Len(o.pyz.codes)} \ LintOnly
Diagnosed(o) == RealCodes(o) # {}

SameOutcome(r, cpy) == r.out = cpy.out /\ (r.out = "val" => r.val = cpy.val)

Judge(o) ==
    LET c == o.case
        ref == RefOp(c)
        impl == ImplOp(c)
        d == Diagnosed(o)
        ret == [lit |-> o.pyz.lit, any |-> FALSE, val |-> o.pyz.val]
        dev == DevKey(c)
    IN /\ (IF SameOutcome(ref, o.cpy) THEN TRUE ELSE Say(o.tid, "oracle:RefOp-differs-from-real-CPython"))
       /\ (IF "internal_error" \notin RealCodes(o) THEN TRUE ELSE Say(o.tid, "viol:internal_error"))
       /\ (IF DiagOKOn(c, d, o.cpy) \/ ~InUniverse(c) THEN TRUE
           ELSE IF dev # "none" THEN Say(o.tid, "dev:" \o dev)
           ELSE Say(o.tid, "viol:DiagnosedIffRaises"))
       /\ (IF LitOKOn(ret, o.cpy) \/ ~InUniverse(c) THEN TRUE
           ELSE IF dev # "none" THEN Say(o.tid, "dev:" \o dev)
           ELSE Say(o.tid, "viol:LiteralEqualsResult"))
       /\ (IF impl.diag = d THEN TRUE ELSE Say(o.tid, "drift:diag:" \o impl.why))
       /\ (IF impl.ret.lit = o.pyz.lit /\ (o.pyz.lit => impl.ret.val = o.pyz.val) THEN TRUE
           ELSE Say(o.tid, "drift:literal:" \o impl.why))

TInit == l = 1 /\ case = Blank /\ stage = "trace"
TNext ==
    /\ l <= Len(Obs)
    /\ Judge(Obs[l])
    /\ l' = l + 1
    /\ UNCHANGED vars
=============================================================================
