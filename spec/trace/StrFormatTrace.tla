---------------------------- MODULE StrFormatTrace ----------------------------
(* Trace specification for C17 (str.format).  One observation per line:                            *)
(*   tid, case,                                                                                    *)
(*   cpy = [exc, rtype]   real CPython: exception class name or "ok", type name of the result      *)
(*   pz  = [first, crash, rtype, parse]  real pyanalyze: kind of the first incompatible_call the    *)
(*          visitor reported ("none"), internal error seen, revealed type of the call, and the      *)
(*          complete error list [index, kind] of format_strings.parse_format_string(template)       *)
(* TLC first validates the CPython model (RefOutcome = cpy.exc), then judges the real report        *)
(* against the real CPython outcome, then compares the real report with the Impl model (drift).     *)
EXTENDS StrFormat, Json, IOUtils

Obs == ndJsonDeserialize(IOEnv.TRACE_FILE)
VARIABLE l

Say(tid, v) == PrintT(<<"VERDICT", tid, v>>)

\* A named deviation class excuses an observation only if the deviating mechanism, as transcribed in the
\* Impl model, reproduces what the real code reported for this very case; a report (or silence) the model
\* does not predict is judged as a violation even when the case belongs to a known class.
ModelReproduces(o) == o.pz.first = ImplFirst(o.case)

Judge(o) ==
    LET c == o.case
        k == o.pz.first
        raises == o.cpy.exc # "ok"
    IN /\ (IF RefOutcome(c) = o.cpy.exc /\ (raises \/ o.cpy.rtype = RefType(c)) THEN TRUE
           ELSE Say(o.tid, "oracle:RefOutcome=" \o RefOutcome(c) \o " real=" \o o.cpy.exc))
       /\ (IF raises /\ k = "none"
           THEN (IF DevMissed(c, k) # "no" /\ ModelReproduces(o) THEN Say(o.tid, "dev:" \o DevMissed(c, k))
                 ELSE Say(o.tid, "viol:ReportsWhenRaises"))
           ELSE TRUE)
       /\ (IF ~raises /\ k # "none" /\ ~Excused(c, k)
           THEN (IF DevFalse(c, k) # "no" /\ ModelReproduces(o) THEN Say(o.tid, "dev:" \o DevFalse(c, k))
                 ELSE Say(o.tid, "viol:SilentWhenOk"))
           ELSE TRUE)
       /\ (IF o.pz.crash THEN Say(o.tid, "viol:Exception")
           ELSE IF ~raises /\ o.pz.rtype # o.cpy.rtype THEN Say(o.tid, "viol:TypeIsResultType")
           ELSE TRUE)
       /\ (IF k = ImplFirst(c) THEN TRUE ELSE Say(o.tid, "drift:first"))
       /\ (IF o.pz.parse = ImplParseErrs(c.t) THEN TRUE ELSE Say(o.tid, "drift:parse"))
       /\ (IF o.pz.rtype = ImplType(c) /\ o.pz.crash = ImplCrashes(c) THEN TRUE ELSE Say(o.tid, "drift:type"))

TInit == l = 1 /\ case = Blank /\ stage = "trace" /\ ntok = 0
TNext == l <= Len(Obs) /\ Judge(Obs[l]) /\ l' = l + 1 /\ UNCHANGED vars
=============================================================================
