----------------------- MODULE SuppressionRoutesTrace -----------------------
(* Trace specification for the routes of C11 (SuppressionRoutes.tla).  Per checked file (tid):              *)
(*   Begin(case, hooked)                 -- the abstract file (lines with shapes) and the settings request  *)
(*                                          (command line + configuration-file sections) that were realised *)
(*   ShowError(code, lineno, decision)   -- one per real show_error call that entered the decision chain    *)
(*   Caught(code, lineno)                -- one per real show_error call inside a catch_errors block        *)
(*   Meta(code, lineno, decision)        -- show_error calls of the unused_ignore / bare_ignore passes      *)
(*   End(out)                            -- the failures the run reported for this file                     *)
(* ShowError lines are replayed through the decision chain ImplShow under the settings ImplEnabled yields   *)
(* (drift if the real decision differs).  At End the real output is judged by the property: OutputOKFor on  *)
(* the reference view of the case (settings by RefEnabled, errors of assert_error blocks do not exist) --   *)
(* there is no deviation class: every failure of the judgement is a violation.  Mechanism conformance       *)
(* (numbers of chain entries, the caught path actually taken, the meta passes) is reported as drift.        *)
EXTENDS SuppressionRoutes, Json, IOUtils

Obs == ndJsonDeserialize(IOEnv.TRACE_FILE)
VARIABLES l, hooked

ToSet(s) == {s[j] : j \in 1..Len(s)}
RDecodeCfg(o) == [all |-> o.all, en |-> ToSet(o.en), dis |-> ToSet(o.dis), top |-> o.top, ov |-> o.ov, oth |-> o.oth]
RDecodeCase0(o) == [lines |-> o.lines, ctx |-> "top", cfg |-> RDecodeCfg(o.cfg), draft |-> NoDraft, impl |-> NoImpl]
RDecodeCase(o) == [RDecodeCase0(o) EXCEPT !.impl = ImplCase(RDecodeCase0(o))]
DecodeOut(s) == {[code |-> s[j][1], line |-> s[j][2]] : j \in 1..Len(s)}

TInit == /\ l = 1 /\ hooked = TRUE /\ case = RBlank(<< >>) /\ pc = "trace" /\ i = 0 /\ ms = RBlankMS
         /\ stack = << >> /\ pend = << >> /\ ops = << >>

Say(tid, v) == PrintT(<<"VERDICT", tid, v>>)

TBegin ==
    /\ Obs[l].event = "Begin"
    /\ case' = RDecodeCase(Obs[l].case) /\ hooked' = Obs[l].hooked /\ ms' = RBlankMS
    /\ UNCHANGED <<pc, i, stack, pend, ops>>

\* a diagnostic the realised file does not have by construction ("cx"): nothing to replay; if it is reported, the
\* output is judged at End (its code is outside every universe: "changes no other diagnostic")
TUnexpected ==
    /\ Obs[l].event = "ShowError" /\ Obs[l].code = "cx"
    /\ Say(Obs[l].tid, "drift:unexpected-diagnostic:" \o Obs[l].real \o ":" \o Obs[l].decision)
    /\ UNCHANGED <<case, pc, i, ms, stack, pend, ops, hooked>>

TShow ==
    /\ Obs[l].event = "ShowError" /\ Obs[l].code # "cx"
    /\ LET o == Obs[l]
           r == ImplShow(case.impl, ms, o.code, o.lineno, FALSE)
       IN /\ ms' = Log(r.ms, o.code, o.lineno, r.decision)
          /\ (IF r.decision = o.decision THEN TRUE
              ELSE Say(o.tid, "drift:decision:" \o o.code \o ":" \o o.decision \o "/" \o r.decision))
    /\ UNCHANGED <<case, pc, i, stack, pend, ops, hooked>>

\* first return path of show_error (node_visitor.py:591-612): recorded for the caller, the visitor state is untouched
TCaught ==
    /\ Obs[l].event = "Caught"
    /\ ms' = Log(ms, Obs[l].code, Obs[l].lineno, "caught")
    /\ UNCHANGED <<case, pc, i, stack, pend, ops, hooked>>

\* show_error(obey_ignore=False) of the two passes (node_visitor.py:268-293): enabled? file-level ignore? emitted
ImplMetaDecision(c, code) ==
    IF ~(IF code = "unused_ignore" THEN c.unused_on ELSE c.bare_on) THEN "disabled"
    ELSE IF ImplFileLevel(c, code) # 0 THEN "file_ignore"
    ELSE "emitted"
TMeta ==
    /\ Obs[l].event = "Meta"
    /\ LET o == Obs[l]
           d == ImplMetaDecision(case.impl, o.code)
       IN /\ ms' = Log(ms, o.code, o.lineno, d)
          /\ (IF d = o.decision THEN TRUE ELSE Say(o.tid, "drift:meta-decision:" \o o.code \o ":" \o o.decision \o "/" \o d))
    /\ UNCHANGED <<case, pc, i, stack, pend, ops, hooked>>

HistHas(m, code, line, decision) == \E j \in 1..Len(m.hist) : m.hist[j] = <<code, line, decision>>
MetaCalls(m, code) == {m.hist[j][2] : j \in {n \in 1..Len(m.hist) : m.hist[n][1] = code}}
\* the model's meta passes: unused_ignore for every comment line that is not in used_ignores (get_unused_ignores :260),
\* bare_ignore for every bare comment unless the file has a blanket file-level ignore (:287)
ModelUnusedCalls(c, m) == {k \in 1..Len(c.lines) : HasIgnore(c.lines[k]) /\ k \notin m.used}
ModelBareCalls(c) == IF ImplFileLevel(c, "bare_ignore") # 0 THEN {} ELSE {k \in 1..Len(c.lines) : c.lines[k].ign = "bare"}

ChainCountsOK(c, m) ==
    \A k \in 1..Len(c.lines) : \A code \in RCodes \cup {"c3"} :
        HistCount(m, code, k) = IF InSeq(code, c.lines[k].diags) THEN ChainEntries(c.lines[k], code) ELSE 0
CaughtPathOK(c, m) ==
    \A k \in 1..Len(c.lines) : \A j \in 1..Len(c.lines[k].diags) :
        LET code == c.lines[k].diags[j]
        IN (Dropped(c.lines[k]) \/ code = "c4") => HistHas(m, code, k, "caught")

TEnd ==
    /\ Obs[l].event = "End"
    /\ LET o == Obs[l]
           real == DecodeOut(o.out)
           ic == case.impl
           model == OutSet([ms EXCEPT !.out = @ \o ImplUnusedFrom(ic, ms.used, 1) \o ImplBare(ic)])
       IN /\ (IF OutputOKFor(RefCase(case), real, RCodes) THEN TRUE ELSE Say(o.tid, "viol:ProjectionOK"))
          /\ (IF hooked
              THEN /\ (IF real = model THEN TRUE ELSE Say(o.tid, "drift:output"))
                   /\ (IF ChainCountsOK(case, ms) THEN TRUE ELSE Say(o.tid, "drift:chain-entries"))
                   /\ (IF CaughtPathOK(case, ms) THEN TRUE ELSE Say(o.tid, "drift:caught-path-not-taken"))
                   /\ (IF MetaCalls(ms, "unused_ignore") = ModelUnusedCalls(case, ms) /\ MetaCalls(ms, "bare_ignore") = ModelBareCalls(case)
                       THEN TRUE ELSE Say(o.tid, "drift:meta-calls"))
              ELSE TRUE)
    /\ UNCHANGED <<case, pc, i, ms, stack, pend, ops, hooked>>

TNext == l <= Len(Obs) /\ (TBegin \/ TUnexpected \/ TShow \/ TCaught \/ TMeta \/ TEnd) /\ l' = l + 1
=============================================================================
