-------------------------- MODULE SigCompatTrace --------------------------
(* Trace specification for C07.  One observation per line:                                          *)
(*   [tid, case |-> [exp, act, exp_ret, act_ret],                                                  *)
(*    real |-> [verdict |-> "ok" | "err" | "raised", why]   KnownValue(f).can_assign(KnownValue(g)) *)
(*                                                          of the real code, f = exp, g = act,    *)
(*    vis  |-> "ok" | "err" | "none"     the real visitor on `use(g)` with `def use(cb: Literal[f])`,*)
(*    maxpos, maxkw, names, total        the call shapes that were REALLY executed,                 *)
(*    fb, gb |-> those shapes <<n, keys, ptargets, ktargets>> that CPython bound for f / g, with    *)
(*                the index of the parameter each positional / keyword argument really landed in,   *)
(*    chain |-> <<r1, r2, issubclass(cls(r1), cls(r2))>> for the realised type ranks,               *)
(*    tc |-> (typed cases) for every shape bound by both: <<n, keys, ok>> -- g was REALLY CALLED with  *)
(*           instances of the types f declares for the landing parameters, and every annotated       *)
(*           parameter of g isinstance-checked what it received]                                     *)
(* TLC validates the oracle model (RefBinds, Ref*Target, TypeContains) against those real outcomes  *)
(* ("oracle:..."), judges the real verdicts, and compares them with ImplCompat (drift).             *)
EXTENDS SigCompat, Json, IOUtils

Obs == ndJsonDeserialize(IOEnv.TRACE_FILE)
VARIABLE l

Say(tid, v) == PrintT(<<"VERDICT", tid, v>>)

Shape(b) == [npos |-> b[1], kws |-> ToSet(b[2]), dup |-> FALSE]
RealBound(bs) == {Shape(bs[j]) : j \in 1..Len(bs)}

OracleShapes(o) ==
    /\ ToSet(o.names) = CallNames(o.case)
    /\ o.total = Cardinality(CallShapes(o.case, o.maxpos, o.maxkw))
OracleBinds(o, sig, bs) ==
    {cc \in CallShapes(o.case, o.maxpos, o.maxkw) : RefBinds(sig, cc)} = RealBound(bs)
\* the parameter each argument landed in: b[3] for the positionals in order, b[4] for the keywords b[2] in order
OracleTargets(sig, bs) ==
    \A j \in 1..Len(bs) :
        /\ \A n \in 1..bs[j][1] : RefPositionalTarget(sig, n) = bs[j][3][n]
        /\ \A m \in 1..Len(bs[j][2]) : RefKeywordTarget(sig, bs[j][2][m]) = bs[j][4][m]
OracleChain(o) ==
    \A j \in 1..Len(o.chain) : TypeContains(o.chain[j][2], o.chain[j][1]) = o.chain[j][3]
\* the typed reference clause, shape by shape, against the isinstance checks of the real typed calls
OracleTypedCalls(o) ==
    \A j \in 1..Len(o.tc) : RefContravariantAtShape(o.case, Shape(o.tc[j])) = o.tc[j][3]
OracleTypedCover(o) ==      \* ... and they cover exactly the shapes both functions bind
    Len(o.tc) = 0 \/ {Shape(o.tc[j]) : j \in 1..Len(o.tc)} = RealBound(o.fb) \cap RealBound(o.gb)

StepOracle(o) ==
    IF ~OracleShapes(o) THEN Say(o.tid, "oracle:call-shape-universe")
    ELSE IF ~OracleBinds(o, o.case.exp, o.fb) THEN Say(o.tid, "oracle:expected-binds")
    ELSE IF ~OracleBinds(o, o.case.act, o.gb) THEN Say(o.tid, "oracle:actual-binds")
    ELSE IF ~(OracleTargets(o.case.exp, o.fb) /\ OracleTargets(o.case.act, o.gb)) THEN Say(o.tid, "oracle:targets")
    ELSE IF ~OracleChain(o) THEN Say(o.tid, "oracle:type-chain")
    ELSE IF ~(OracleTypedCalls(o) /\ OracleTypedCover(o)) THEN Say(o.tid, "oracle:typed-calls")
    ELSE TRUE

Judge(o, v, tag) ==
    LET c == o.case
    IN IF v \notin {"ok", "err"} THEN Say(o.tid, "viol:NoVerdict" \o tag)
       ELSE IF v = "err" THEN TRUE
       ELSE /\ (IF RefIncluded(c, o.maxpos, o.maxkw) THEN TRUE
                ELSE IF Dev_KeywordAlsoPositional(c, o.maxpos, o.maxkw) THEN Say(o.tid, "dev:keyword-also-positional")
                ELSE Say(o.tid, "viol:BehaviourallySound" \o tag))
            /\ (IF RefContravariant(c, o.maxpos, o.maxkw) /\ RefCovariantReturn(c) THEN TRUE
                ELSE Say(o.tid, "viol:TypesSound" \o tag))

\* error messages that two branches share are one class
WhyClass(why) ==
    CASE why \in {"PO_VarArgsType", "PK_VarArgsType"} -> "VarArgsType"
      [] why \in {"PK_Type", "KO_Type"} -> "ParamType"
      [] why \in {"PK_KwargsType", "KO_KwargsType"} -> "KwargsType"
      [] why \in {"PK_NotAccepted", "KO_NotAccepted"} -> "NotAccepted"
      [] why \in {"Final_ExtraParam", "Final_ExtraKwOnly"} -> "Final_Extra"
      [] OTHER -> why

DriftC(o) ==
    LET m == ImplCompat(o.case)
    IN IF m.verdict # o.real.verdict THEN Say(o.tid, "drift:verdict")
       ELSE IF WhyClass(m.why) = o.real.why THEN TRUE ELSE Say(o.tid, "drift:branch")

TInit == l = 1 /\ case = BlankPair /\ stage = "trace" /\ s = CompatStart /\ br = ""

TNext ==
    /\ l <= Len(Obs)
    /\ LET o == Obs[l]
       IN /\ StepOracle(o)
          /\ Judge(o, o.real.verdict, "")
          /\ (IF o.vis = "none" THEN TRUE ELSE Judge(o, o.vis, "-visitor"))
          /\ (IF o.real.verdict \in {"ok", "err"} THEN DriftC(o) ELSE TRUE)
          /\ (IF o.vis = "none" \/ o.vis = o.real.verdict THEN TRUE ELSE Say(o.tid, "drift:visitor-vs-can_assign"))
    /\ l' = l + 1
    /\ UNCHANGED scvars
=============================================================================
