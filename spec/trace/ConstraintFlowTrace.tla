------------------------- MODULE ConstraintFlowTrace -------------------------
(* Trace specification for the flow-level slice of C02.  One ndjson line per generated function:                *)
(*  {tid, kind: "flow", decl, toks, args, runs, inf}                                                           *)
(*    args   the argument objects the driver called the function with (must be ArgObjs(case))                   *)
(*    runs   [{arg, evs: [{u, o}..]}..]  the distinct executions of the REAL function under CPython, one per     *)
(*           argument object and choice of the flag() results: the U(u, x) calls in order                       *)
(*    inf    [{u, t}..]  the type the REAL visitor inferred for x at the recorded read of token u               *)
(* First the concrete execution model (RefExec) is compared with the CPython runs ("oracle:runs"); then FlowN1 /  *)
(* FlowN2 are judged on the REAL inferred types; the Impl model is compared for drift.                           *)
EXTENDS ConstraintFlow, Json, IOUtils

Obs == ndJsonDeserialize(IOEnv.TRACE_FILE)
VARIABLE l
Say(tid, v) == PrintT(<<"VERDICT", tid, v>>)
Chk(cond, tid, v) == IF cond THEN TRUE ELSE Say(tid, v)
ToSet(s) == {s[i] : i \in 1..Len(s)}

MemberSet(t) == IF t.k = "union" THEN ToSet(t.ms) ELSE {t}
\* the order of the definition nodes behind a use (and of the one_of alternatives) decides the member order of the union
SameUpToOrder(a, b) == a = b \/ MemberSet(a) = MemberSet(b)

StripD(r) == [i \in 1..Len(r) |-> [u |-> r[i].u, o |-> r[i].o]]

JudgeUse(o, case, st, seen, reach, rec) ==
    /\ LET v == FlowN1Verdict(case, seen, rec.u, rec.t)
       IN Chk(v = "ok", o.tid, IF v = "viol" THEN "viol:FlowN1" ELSE v)
    /\ Chk(RefFlowNoWiden(case, reach, rec.u, rec.t), o.tid, "viol:FlowN2")
    /\ Chk(SameUpToOrder(rec.t, ImplInferredAt(case, st, rec.u)), o.tid, "drift:flow-inferred")

JudgeFlow(o) ==
    LET case == [decl |-> o.decl, toks |-> o.toks]
        st == ImplRun(case)
        runs == UNION {{<<a, r>> : r \in RefRuns(case, a)} : a \in ArgObjs(case)}
        seen == EventsOf({ar[2] : ar \in runs})
        reach == RefReach(case)
    IN /\ Chk(ToSet(o.args) = ArgObjs(case) /\ ToSet(o.runs) = {[arg |-> ar[1], evs |-> StripD(ar[2])] : ar \in runs}, o.tid, "oracle:runs")
       /\ Chk({o.inf[i].u : i \in 1..Len(o.inf)} = UseIds(case), o.tid, "oracle:uses")
       /\ \A i \in 1..Len(o.inf) : JudgeUse(o, case, st, seen, reach, o.inf[i])

TInit == l = 1 /\ FInit
TNext == /\ l <= Len(Obs)
         /\ JudgeFlow(Obs[l])
         /\ l' = l + 1 /\ UNCHANGED fvars /\ UNCHANGED nvars
=============================================================================
