--------------------------- MODULE MatchCasesTrace ---------------------------
(* Trace specification for the multi-case / guard slice of C02.  One ndjson line per generated function:          *)
(*  {tid, kind: "match", subj, cases, args, runs, inf}                                                            *)
(*    args   the objects the driver called the function with (must be MObjPool)                                   *)
(*    runs   [{arg, y, evs: [{u, o}..]}..]  the distinct executions of the REAL function under CPython: one per     *)
(*           object, value of y and outcome of the opaque guards; the recorded reads U / G in order                *)
(*    inf    [{u, t}..]  the type the REAL visitor inferred for x at the read u                                    *)
(* First the execution model (RefMatch: CPython's pattern and guard semantics) is compared with the recorded runs  *)
(* ("oracle:runs"); then N1 / N2 are judged on the REAL inferred types; the Impl model is compared for drift.      *)
EXTENDS MatchCases, Json, IOUtils

Obs == ndJsonDeserialize(IOEnv.TRACE_FILE)
VARIABLE l
Say(tid, v) == PrintT(<<"VERDICT", tid, v>>)
Chk(cond, tid, v) == IF cond THEN TRUE ELSE Say(tid, v)
ToSet(s) == {s[i] : i \in 1..Len(s)}
MemberSet(t) == IF t.k = "union" THEN ToSet(t.ms) ELSE {t}
SameUpToOrder(a, b) == a = b \/ MemberSet(a) = MemberSet(b)

JudgeRead(o, case, runs, rec) ==
    /\ LET v == MN1Verdict(case, runs, rec.u, rec.t)
       IN Chk(v = "ok", o.tid, IF v = "viol" THEN "viol:MatchN1" ELSE v)
    /\ Chk(MNoWiden(case, rec.t), o.tid, "viol:MatchN2")
    /\ Chk(SameUpToOrder(rec.t, MImplAt(case, rec.u)), o.tid, "drift:match-inferred")

JudgeMatch(o) ==
    LET case == [subj |-> o.subj, cases |-> o.cases]
        runs == MRuns(case)
    IN /\ Chk(ToSet(o.args) = MObjPool /\ ToSet(o.runs) = runs, o.tid, "oracle:runs")
       /\ Chk({o.inf[i].u : i \in 1..Len(o.inf)} = MReads(case), o.tid, "oracle:reads")
       /\ \A i \in 1..Len(o.inf) : JudgeRead(o, case, runs, o.inf[i])

TInit == l = 1 /\ MInit
TNext == /\ l <= Len(Obs)
         /\ JudgeMatch(Obs[l])
         /\ l' = l + 1 /\ UNCHANGED mvars /\ UNCHANGED nvars
=============================================================================
