--------------------------- MODULE OverloadsTrace ---------------------------
(* Trace specification for C08.  Every line of the trace file is one overload set checked by the   *)
(* real visitor with every call made on it:                                                        *)
(*   {tid, sigs, calls : [{call, real : {st, ty, anyk, code}, steps : [{i, c}], pybind : [bool]}]} *)
(*     real   = what the real checker did on `reveal_type(f(args))`: diagnosed or not, the         *)
(*              revealed type, the diagnostic's code                                               *)
(*     steps  = the classification of every CallReturn in the second pass of                       *)
(*              OverloadedSignature.check_call, in order (i = index of the overload)               *)
(*     pybind = for every overload, whether real CPython could bind the call's argument shape to   *)
(*              the overload's def (the function was really called)                                *)
(* For every call TLC (1) validates the oracle's binder model against CPython ("oracle:binder"),   *)
(* (2) judges the real result with the property RefClause ("viol:<clause>", or "dev:<class>" for a *)
(* named known deviation), (3) compares the real result and the real steps with the               *)
(* implementation-shaped machine ("drift:result", "drift:steps"; the steps are compared for every  *)
(* call, also next to a viol:/dev: verdict).  "@k" = index of the call.                            *)
EXTENDS Overloads, Json, IOUtils

Obs == ndJsonDeserialize(IOEnv.TRACE_FILE)
VARIABLE l

Say(tid, v, k) == PrintT(<<"VERDICT", tid, v \o "@" \o ToString(k)>>)

\* the verdict on the real result.  A named known deviation excuses a violated clause only when the
\* real result is exactly what the model of the deviating mechanism predicts: anything else inside a
\* deviating region is a violation of its own.
\* (model = ImplResolve of the case, computed once per call by TNext)
CallVerdict(sigs, oc, model) ==
    LET c == [sigs |-> sigs, call |-> oc.call]
        real == Result(oc.real.st, oc.real.ty, oc.real.anyk, oc.real.code)
        clause == RefClause(c, real)
    IN IF \E i \in 1..Len(sigs) : RefBinds(sigs[i], oc.call) # oc.pybind[i] THEN "oracle:binder"
       ELSE IF ~InProperty(c) THEN (IF real # model.res THEN "drift:result" ELSE "ok")
       ELSE IF clause # "ok" THEN (IF Excused(c, clause) /\ real = model.res THEN "dev:" \o DevClass(c)
                                  ELSE "viol:" \o clause)
       ELSE IF real # model.res THEN "drift:result"
       ELSE "ok"

\* the classification of every CallReturn of the real second pass (OverloadStep events: error / clean /
\* any / union / union_any per overload tried) against the machine's steps -- judged whatever the
\* verdict on the result is, so that a mis-filed step shows even where the final type is the same
StepsVerdict(sigs, oc, model) ==
    IF \E i \in 1..Len(sigs) : RefBinds(sigs[i], oc.call) # oc.pybind[i] THEN "ok"      \* reported above
    ELSE IF oc.real.st \notin {"ok", "err"} THEN "ok"                                     \* raised: reported above
    ELSE IF oc.steps # model.steps THEN "drift:steps" ELSE "ok"

TInit == l = 1 /\ Init
TNext ==
    /\ l <= Len(Obs)
    /\ LET o == Obs[l]
       IN \A k \in 1..Len(o.calls) :
            LET model == ImplResolve([sigs |-> o.sigs, call |-> o.calls[k].call])
                v == CallVerdict(o.sigs, o.calls[k], model)
                w == StepsVerdict(o.sigs, o.calls[k], model)
            IN /\ IF v = "ok" THEN TRUE ELSE Say(o.tid, v, k)
               /\ IF w = "ok" THEN TRUE ELSE Say(o.tid, w, k)
    /\ l' = l + 1
    /\ UNCHANGED vars
=============================================================================
