-------------------------- MODULE AnnotationsTrace --------------------------
(* Trace specification for C13 (annotations).  One line per annotation expression:               *)
(*   {tid, e, py, [rt], str, [ast], [sigrt], [ast563], [sig563]}                                 *)
(*   e      the expression term (TLC-generated, or parsed from a real annotation)                *)
(*   py     what REAL CPython built for eval(e), described structurally ({k:"raise"} if it raised)*)
(*   rt     type_from_runtime(eval(e))                        -- only if CPython could evaluate e *)
(*   str    type_from_runtime("e")                                                               *)
(*   ast    reveal_type(x) inside `def f(x: e)` in a checked module          -- only if evaluable *)
(*   sigrt  Checker.get_signature(f).parameters["x"].annotation of that module's f -- ditto       *)
(*   ast563 / sig563  the same two in a module with `from __future__ import annotations`         *)
(*          (the function object then carries the annotation as a string)                        *)
(* TLC first validates the CPython model (PyEval(e) = py, else "oracle:"), then judges the REAL  *)
(* results: they must all mean the same type (RefSame); a disagreement is "dev:<class>" only if  *)
(* the expression is in a named deviation class AND the real results are exactly what the model  *)
(* of the current code predicts, otherwise "viol:".  Real results that satisfy the property but  *)
(* differ from the Impl model are "drift:".                                                      *)
EXTENDS Annotations, Json, IOUtils

Obs == ndJsonDeserialize(IOEnv.TRACE_FILE)
VARIABLE l

Say(tid, v) == PrintT(<<"VERDICT", tid, v>>)

Routes == {"rt", "str", "ast", "sigrt", "ast563", "sig563"}
Present(o) == Routes \cap DOMAIN o

Model(e, r) ==
    CASE r = "rt" -> ImplRuntimeRoute(e)
      [] r = "sigrt" -> ImplSigRuntimeRoute(e)
      [] r = "str" -> ImplStringRoute(e)
      [] r = "sig563" -> ImplSigStringRoute(e)
      [] r \in {"ast", "ast563"} -> ImplAstRoute(e)

RealAgree(o) ==
    /\ \A r \in Present(o) : o[r].t # "Raised"
    /\ Cardinality({RefCanon(o[r]) : r \in Present(o)}) = 1

DevClass(e) ==
    CASE Dev_StarInSubscript(e) -> "star-in-subscript"
      [] Dev_FinalInString(e) -> "final-classvar-in-string"
      [] Dev_NestedLiteralInString(e) -> "nested-literal-in-string"
      [] OTHER -> "none"

Judge(o) ==
    LET e == o.e
        evaluable == o.py.k # "raise"
    IN /\ (IF PyEval(e) = o.py THEN TRUE ELSE Say(o.tid, "oracle:PyEval"))
       /\ (IF evaluable = ({"rt", "ast", "sigrt"} \subseteq DOMAIN o) THEN TRUE ELSE Say(o.tid, "oracle:routes-recorded"))
       /\ \A r \in Present(o) : (IF o[r] = Model(e, r) THEN TRUE ELSE Say(o.tid, "drift:" \o r))
       /\ (IF RealAgree(o) THEN TRUE
           ELSE IF DevClass(e) # "none" /\ \A r \in Present(o) : o[r] = Model(e, r)
                THEN Say(o.tid, "dev:" \o DevClass(e))
                ELSE Say(o.tid, "viol:RoutesAgree"))

TInit == l = 1 /\ Init
TNext ==
    /\ l <= Len(Obs)
    /\ Judge(Obs[l])
    /\ l' = l + 1
    /\ UNCHANGED vars
=============================================================================
