--------------------------- MODULE StarPrepTrace ---------------------------
(* Trace specification for the inferred-star-argument slice of C05.  One observation per line:            *)
(*   [tid, case |-> [sig, call],                                                                          *)
(*    vis    |-> "ok" | "err" | <anything else>  incompatible_call on the call line (real visitor),        *)
(*    vispos |-> positions the Bind hook recorded (<<"none">> no bind_arguments call, <<"rejected">>,      *)
(*               <<"nohook">>),                                                                           *)
(*    seen   |-> [stars, dstars]  the abstract values pyanalyze INFERRED for the star arguments of the     *)
(*               generated source, read back from the annotated tree,                                     *)
(*    exp    |-> [total, binding]  the distinct expansions really executed (every combination of the       *)
(*               opaque inputs) and those <<lens, keys>> CPython bound without TypeError]                  *)
(* Order: the realisation produced the intended abstract values and the oracle model agrees with CPython   *)
(* ("oracle:" = machinery error); the real verdict against the property; the real verdict and positions    *)
(* against the Impl model (drift).  dev: only if the real verdict is the one the Impl model predicts.      *)
EXTENDS StarPrep, Json, IOUtils

PObs == ndJsonDeserialize(IOEnv.TRACE_FILE)
VARIABLE pl

PSay(tid, v) == PrintT(<<"VERDICT", tid, v>>)

RealisedAsIntended(o) == o.seen.stars = o.case.call.stars /\ o.seen.dstars = o.case.call.dstars

PRealBinding(o) ==
    {[lens |-> o.exp.binding[j][1],
      keys |-> [i \in DOMAIN o.exp.binding[j][2] |-> ToSet(o.exp.binding[j][2][i])]] : j \in 1..Len(o.exp.binding)}

PStep1(o) ==
    IF ~RealisedAsIntended(o) THEN PSay(o.tid, "oracle:prep-realisation")
    ELSE IF o.exp.total # Cardinality(PExpansions(o.case, MaxExp)) THEN PSay(o.tid, "oracle:prep-expansion-universe")
    ELSE IF {e \in PExpansions(o.case, MaxExp) : PBinds(o.case, e)} = PRealBinding(o) THEN TRUE
    ELSE PSay(o.tid, "oracle:prep-expansions")

PJudge(o) ==
    LET c == o.case
        acc == o.vis = "ok"
        m == ImplPrepRun(c)
        modelled == (m.verdict = "ok") = acc
        shadow == ~acc /\ modelled /\ ShadowRejection(c, m)
    IN IF o.vis \notin {"ok", "err"} THEN PSay(o.tid, "viol:PrepNoVerdict")
       ELSE IF PDefinite(c, MaxExp)
       THEN (IF PRefConcrete(c, acc, MaxExp) THEN TRUE
             ELSE IF shadow THEN PSay(o.tid, "dev:required-key-shadowed-by-earlier-optional-pair")
             ELSE PSay(o.tid, "viol:PrepConcrete"))
       ELSE /\ (IF PRefAcceptSound(c, acc, MaxExp) THEN TRUE
                ELSE IF modelled /\ Dev_StarLengthBoundsLost(c) THEN PSay(o.tid, "dev:star-length-bounds-lost")
                ELSE IF modelled /\ Dev_UnionKeysMerged(c) THEN PSay(o.tid, "dev:union-member-key-counted-as-provided")
                ELSE IF modelled /\ Dev_PKeywordHidden(c) THEN PSay(o.tid, "dev:keyword-hidden-by-star-kwargs")
                ELSE PSay(o.tid, "viol:PrepAcceptSound"))
            /\ (IF PRefRejectSound(c, acc, MaxExp) THEN TRUE
                ELSE IF shadow THEN PSay(o.tid, "dev:required-key-shadowed-by-earlier-optional-pair")
                ELSE IF modelled /\ Dev_PossibleKeyPessimism(c, MaxExp)
                     THEN PSay(o.tid, "dev:possibly-present-key-treated-pessimistically")
                ELSE IF modelled /\ Dev_PStarArgsThenKeyword(c) THEN PSay(o.tid, "dev:star-args-then-keyword")
                ELSE PSay(o.tid, "viol:PrepRejectSound"))

PDrift(o) ==
    LET m == ImplPrepRun(o.case)
        expect == IF m.why = "Pre_MultipleValues" THEN <<"none">>
                  ELSE IF m.verdict = "ok" THEN m.bound ELSE <<"rejected">>
    IN IF o.vis \notin {"ok", "err"} THEN TRUE
       ELSE IF m.verdict # o.vis THEN PSay(o.tid, "drift:prep-verdict")
       ELSE IF o.vispos = <<"nohook">> \/ o.vispos = expect THEN TRUE
       ELSE PSay(o.tid, "drift:prep-hook-positions")

PTInit == pl = 1 /\ case = PBlank /\ stage = "trace" /\ act = NoActuals /\ st = BindStart /\ br = ""

PTNext ==
    /\ pl <= Len(PObs)
    /\ LET o == PObs[pl]
       IN /\ PStep1(o)
          /\ (IF RealisedAsIntended(o) THEN PJudge(o) /\ PDrift(o) ELSE TRUE)
    /\ pl' = pl + 1
    /\ UNCHANGED vars
=============================================================================
