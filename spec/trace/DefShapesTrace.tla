---------------------------- MODULE DefShapesTrace ----------------------------
(* Trace specification for C13 (shapes of definition, DefShapes.tla).  One line per realised case          *)
(*   {tid, c: [h, shape], ...}  with, by shape,                                                            *)
(*   methods    inspC / inspI   REAL inspect.signature of the object reached through the class / an        *)
(*              instance; sigC / sigI  Checker.get_signature of the same two objects; body = the value of  *)
(*              every parameter (the implicit first one included) revealed INSIDE the method body;         *)
(*              calls = Calls(h), each judged through an instance and through the class, in the defining   *)
(*              module and in an importing module: definst defcls impinst impcls = {codes, ret}            *)
(*   wraps      insp = inspect.signature(w, follow_wrapped=False); sigdef = the value of the nested        *)
(*              decorated def; sigrt; calls with nested / defmod / importer                                *)
(*   retyped    insp, sigdef, sigrt of the decorated function; calls = Calls(InnerHeader)                  *)
(*   generator  insp, sigdef, sigrt, calls as in DefHeadersTrace                                           *)
EXTENDS DefShapes, Json, IOUtils

Obs == ndJsonDeserialize(IOEnv.TRACE_FILE)
VARIABLE l

Say(tid, v) == PrintT(<<"VERDICT", tid, v>>)
ToSet(s) == {s[j] : j \in 1..Len(s)}
CallsRecorded(o, h) ==
    {[npos |-> o.calls[k].npos, kws |-> ToSet(o.calls[k].kws), bad |-> o.calls[k].bad] : k \in 1..Len(o.calls)} = Calls(h)

Call3Same(h, c) ==
    /\ c.nested.codes = c.defmod.codes /\ c.defmod.codes = c.importer.codes
    /\ (h.ret # NoAnn => (RefSame(c.nested.ret, c.defmod.ret) /\ RefSame(c.defmod.ret, c.importer.ret)))
Call4Same(h, c) ==
    /\ c.definst.codes = c.defcls.codes /\ c.defcls.codes = c.impinst.codes /\ c.impinst.codes = c.impcls.codes
    /\ (h.ret # NoAnn => (RefSame(c.definst.ret, c.defcls.ret) /\ RefSame(c.defcls.ret, c.impinst.ret) /\ RefSame(c.impinst.ret, c.impcls.ret)))

JudgeMethod(o) ==
    LET h == o.c.h s == o.c.shape
    IN /\ (IF RefInspectClassAccess(h, s) = o.inspC /\ RefInspectInstanceAccess(h, s) = o.inspI THEN TRUE ELSE Say(o.tid, "oracle:RefInspectMethod"))
       /\ (IF CallsRecorded(o, h) THEN TRUE ELSE Say(o.tid, "oracle:calls-recorded"))
       /\ (IF o.sigC = ImplSigClassAccess(h, s) THEN TRUE ELSE Say(o.tid, "drift:sigC"))
       /\ (IF o.sigI = ImplSigInstanceAccess(h, s) THEN TRUE ELSE Say(o.tid, "drift:sigI"))
       /\ (IF o.body = ImplBody(h, s) THEN TRUE ELSE Say(o.tid, "drift:body"))
       /\ (IF RefBindingDropsFirst(h, s, o.sigC, o.sigI) THEN TRUE ELSE Say(o.tid, "viol:BindingDropsFirst"))
       /\ (IF RefBodyAgrees(h, s, o.body, o.sigI, o.sigC) THEN TRUE ELSE Say(o.tid, "viol:BodyViewAgrees"))
       /\ (IF RefMatchesInspect(o.sigC, o.inspC) /\ RefMatchesInspect(o.sigI, o.inspI) THEN TRUE ELSE Say(o.tid, "viol:ViewsMatchInspect"))
       /\ \A k \in 1..Len(o.calls) :
             IF Call4Same(h, o.calls[k]) THEN TRUE ELSE Say(o.tid, "viol:CallJudgedIdentically#" \o ToString(k))

JudgeWraps(o) ==
    LET h == o.c.h
    IN /\ (IF RefInspectWrapper = o.insp THEN TRUE ELSE Say(o.tid, "oracle:RefInspectWrapper"))
       /\ (IF CallsRecorded(o, h) THEN TRUE ELSE Say(o.tid, "oracle:calls-recorded"))
       /\ (IF o.sigrt = ImplSigRtWraps THEN TRUE ELSE Say(o.tid, "drift:sigrt"))
       /\ (IF o.sigdef = ImplValDefWraps THEN TRUE ELSE Say(o.tid, "drift:sigdef"))
       /\ (IF RefKnowsNothing(o.sigrt) /\ RefMatchesInspect(o.sigrt, o.insp) THEN TRUE ELSE Say(o.tid, "viol:WrapperView"))
       /\ \A k \in 1..Len(o.calls) :
             IF Call3Same(h, o.calls[k]) THEN TRUE ELSE Say(o.tid, "viol:CallJudgedIdentically#" \o ToString(k))

JudgeRetyped(o) ==
    LET c == o.c
        asModel == o.sigdef = ImplSigDefRetyped /\ o.sigrt = ImplSigRtRetyped
    IN /\ (IF RefInspect(InnerHeader) = o.insp THEN TRUE ELSE Say(o.tid, "oracle:RefInspect"))
       /\ (IF CallsRecorded(o, InnerHeader) THEN TRUE ELSE Say(o.tid, "oracle:calls-recorded"))
       /\ (IF o.sigrt = ImplSigRtRetyped THEN TRUE ELSE Say(o.tid, "drift:sigrt"))
       /\ (IF o.sigdef = ImplSigDefRetyped THEN TRUE ELSE Say(o.tid, "drift:sigdef"))
       /\ (IF RefMatchesInspect(o.sigrt, o.insp) THEN TRUE ELSE Say(o.tid, "viol:ViewsMatchInspect"))
       /\ (IF RefSameSig(InnerHeader, o.sigdef, o.sigrt) THEN TRUE
           ELSE IF Dev_DeclaredReturnErasesNames(c) /\ asModel THEN Say(o.tid, "dev:decorator-declared-callable-erases-names")
           ELSE Say(o.tid, "viol:HeaderViewsAgree"))
       /\ \A k \in 1..Len(o.calls) :
             IF Call3Same(InnerHeader, o.calls[k]) THEN TRUE
             ELSE IF Dev_DeclaredReturnCall(c, ToSet(o.calls[k].kws)) /\ asModel
                     /\ o.calls[k].defmod.codes = o.calls[k].importer.codes
                  THEN Say(o.tid, "dev:decorator-declared-callable-erases-names")
             ELSE Say(o.tid, "viol:CallJudgedIdentically#" \o ToString(k))

\* the footprint of the defect repaired by repo b243661 on one call (only consulted when FixedAsyncGenInferred = FALSE,
\* i.e. when a tree older than that commit is being checked): the defining module adds "missing_await" to what the
\* importer reports and says Coroutine where the importer says Any
AsyncGenFootprint(c) ==
    /\ c.nested.codes = c.defmod.codes
    /\ "missing_await" \notin ToSet(c.importer.codes)
    /\ ToSet(c.defmod.codes) = ToSet(c.importer.codes) \cup {"missing_await"}
    /\ c.defmod.ret.t = "Generic" /\ c.defmod.ret.n = "Coroutine" /\ c.nested.ret = c.defmod.ret

JudgeGenerator(o) ==
    LET h == o.c.h s == o.c.shape
    IN /\ (IF RefInspect(h) = o.insp THEN TRUE ELSE Say(o.tid, "oracle:RefInspect"))
       /\ (IF CallsRecorded(o, h) THEN TRUE ELSE Say(o.tid, "oracle:calls-recorded"))
       /\ (IF o.sigdef = ImplShapeSigDef(h, s) THEN TRUE ELSE Say(o.tid, "drift:sigdef"))
       /\ (IF o.sigrt = ImplShapeSigRt(h, s) THEN TRUE ELSE Say(o.tid, "drift:sigrt"))
       /\ (IF RefSameSig(h, o.sigdef, o.sigrt) THEN TRUE ELSE Say(o.tid, "viol:HeaderViewsAgree"))
       /\ (IF RefMatchesInspect(o.sigrt, o.insp) THEN TRUE ELSE Say(o.tid, "viol:ViewsMatchInspect"))
       \* "missing_await" is reported on a call exactly if the call is awaitable by CPython's rule, in every context
       /\ \A k \in 1..Len(o.calls) :
             IF \A ctx \in {"nested", "defmod", "importer"} :
                    ("missing_await" \in ToSet(o.calls[k][ctx].codes)) = RefCallAwaitable(o.c)
             THEN TRUE
             ELSE IF Dev_AsyncGenInferredCoroutine(o.c) /\ AsyncGenFootprint(o.calls[k]) THEN TRUE   \* reported below
             ELSE Say(o.tid, "viol:AwaitableIffCoroutine#" \o ToString(k))
       /\ \A k \in 1..Len(o.calls) :
             IF Call3Same(h, o.calls[k]) THEN TRUE
             ELSE IF Dev_AsyncGenInferredCoroutine(o.c) /\ AsyncGenFootprint(o.calls[k])
                  THEN Say(o.tid, "dev:async-generator-inferred-coroutine")
             ELSE Say(o.tid, "viol:CallJudgedIdentically#" \o ToString(k))

JudgeShape(o) ==
    CASE o.c.shape \in MethodShapes -> JudgeMethod(o)
      [] o.c.shape = "wraps" -> JudgeWraps(o)
      [] o.c.shape = "retyped" -> JudgeRetyped(o)
      [] o.c.shape = "generator" -> JudgeGenerator(o)

TInit == l = 1 /\ SInit
TNext ==
    /\ l <= Len(Obs)
    /\ JudgeShape(Obs[l])
    /\ l' = l + 1
    /\ UNCHANGED vars
=============================================================================
