-------------------------- MODULE SuppressionTrace --------------------------
(* Trace specification for C11.  The trace file interleaves, per checked file (tid):              *)
(*   Begin(case)                       -- the abstract file and settings that were realised       *)
(*   ShowError(code, lineno, decision) -- one per real BaseNodeVisitor.show_error call (hook)     *)
(*   End(out)                          -- the failures NameCheckVisitor.check() returned          *)
(* Each ShowError line is replayed through ImplShow of Suppression.tla (the visitor state `ms` is *)
(* carried from line to line); at End the real output is judged by OutputOK (the property) and    *)
(* compared with the model's output (drift).                                                      *)
EXTENDS Suppression, Json, IOUtils

Obs == ndJsonDeserialize(IOEnv.TRACE_FILE)
VARIABLE l

ToSet(s) == {s[j] : j \in 1..Len(s)}
DecodeCase(o) == [lines |-> o.lines, disabled |-> ToSet(o.disabled), unused_on |-> o.unused_on, bare_on |-> o.bare_on]
DecodeOut(s) == {[code |-> s[j][1], line |-> s[j][2]] : j \in 1..Len(s)}

TInit == l = 1 /\ case = Blank /\ pc = "trace" /\ i = 0 /\ ms = BlankMS

Say(tid, v) == PrintT(<<"VERDICT", tid, v>>)

TBegin ==
    /\ Obs[l].event = "Begin"
    /\ case' = DecodeCase(Obs[l].case) /\ ms' = BlankMS /\ i' = 0 /\ UNCHANGED pc

TShow ==
    /\ Obs[l].event = "ShowError"
    /\ LET o == Obs[l]
           r == ImplShow(case, ms, o.code, o.lineno, Pinned)
       IN /\ ms' = r.ms
          /\ (IF r.decision = o.decision THEN TRUE
              ELSE Say(o.tid, "drift:decision:" \o o.decision \o "/" \o r.decision))
    /\ i' = i + 1 /\ UNCHANGED <<case, pc>>

\* show_error inside a catch_errors() block: the error is only recorded for the caller (first return
\* path, node_visitor.py:590); the visitor state does not change.
TCaught == Obs[l].event = "Caught" /\ UNCHANGED vars

TEnd ==
    /\ Obs[l].event = "End"
    /\ LET o == Obs[l]
           real == DecodeOut(o.out)
           model == OutSet([ms EXCEPT !.out = @ \o ImplUnusedFrom(case, ms.used, 1) \o ImplBare(case)])
       IN /\ (IF OutputOK(case, real) THEN TRUE ELSE Say(o.tid, "viol:ProjectionOK"))
          /\ (IF real = model THEN TRUE ELSE Say(o.tid, "drift:output"))
          /\ (IF i = Len(Raw(case)) THEN TRUE ELSE Say(o.tid, "drift:number-of-show_error-calls"))
    /\ UNCHANGED <<case, pc, i, ms>>

TNext == l <= Len(Obs) /\ (TBegin \/ TShow \/ TCaught \/ TEnd) /\ l' = l + 1
=============================================================================
