---------------------------- MODULE BinderTrace ----------------------------
(* Trace specification for C05.  Every line of the trace file is one observation                    *)
(*   [tid, case,                                                                                   *)
(*    real |-> [verdict |-> "ok" | "err" | "raised", positions, errclass]                           *)
(*                 what the real preprocess_args + Signature.bind_arguments did for the case,      *)
(*    vis  |-> "ok" | "err" | "none"   incompatible_call on the generated call line (real visitor; *)
(*                 "none" = this case was not sent through the visitor),                           *)
(*    vispos |-> the positions the Bind hook recorded inside the visitor (<<"none">> without hook), *)
(*    cpy  |-> "ok" | "err" | "na"     what really executing the call did under CPython (concrete  *)
(*                 shapes; "err" = TypeError),                                                      *)
(*    exp  |-> [names, maxexp, total, binding]  for unknown-length star arguments: the key names   *)
(*                 and maximal length the call was expanded over, how many expansions were really  *)
(*                 executed, and those <<n, keys>> that CPython bound without TypeError]           *)
(* TLC first checks that the oracle model CPythonBind!RefBinds agrees with what CPython really did  *)
(* ("oracle:..." = machinery error), then judges the REAL verdicts by the property, then compares   *)
(* them with the implementation model ImplRun of Binder.tla ("drift:...").                          *)
EXTENDS Binder, Json, IOUtils

Obs == ndJsonDeserialize(IOEnv.TRACE_FILE)
VARIABLE l

Say(tid, v) == PrintT(<<"VERDICT", tid, v>>)

\* ---- the oracle model against real CPython
OracleConcrete(o) == RefBinds(o.case.sig, Expand(o.case.call, NoExpansion)) = (o.cpy = "ok")

OracleUniverse(o) ==
    /\ ToSet(o.exp.names) = ExpNames(o.case)
    /\ o.exp.maxexp = ExpBound(o.case, MaxExp)
    /\ o.exp.total = Cardinality(Expansions(o.case, ExpBound(o.case, MaxExp), FALSE))

RealBinding(o) == {[n |-> o.exp.binding[j][1], K |-> ToSet(o.exp.binding[j][2])] : j \in 1..Len(o.exp.binding)}
OracleExpansions(o) ==
    {e \in Expansions(o.case, ExpBound(o.case, MaxExp), FALSE) : RefBinds(o.case.sig, Expand(o.case.call, e))}
        = RealBinding(o)

\* ---- the property on a real verdict v ("ok" | "err"); tag distinguishes binder / visitor
JudgeVerdict(o, v, tag) ==
    LET c == o.case
        acc == v = "ok"
    IN IF v \notin {"ok", "err"} THEN Say(o.tid, "viol:NoVerdict" \o tag)
       ELSE IF IsConcrete(c.call)
       THEN (IF RefConcreteAgrees(c, acc) THEN TRUE ELSE Say(o.tid, "viol:ConcreteAgrees" \o tag))
       \* a named deviation excuses an observation only if the real verdict is exactly the one the Impl model
       \* (which reproduces the deviating mechanism) predicts for the case; any other disagreement with the
       \* property inside a deviating region is a violation of its own
       ELSE /\ (IF RefAcceptSound(c, acc, MaxExp) THEN TRUE
                ELSE IF Dev_KeywordHiddenByStarKwargs(c) /\ ImplAccepted(c) = acc
                     THEN Say(o.tid, "dev:keyword-hidden-by-star-kwargs")
                ELSE Say(o.tid, "viol:AcceptSound" \o tag))
            /\ (IF RefRejectSound(c, acc, MaxExp) THEN TRUE
                ELSE IF Dev_StarArgsThenKeyword(c) /\ ImplAccepted(c) = acc
                     THEN Say(o.tid, "dev:star-args-then-keyword")
                ELSE Say(o.tid, "viol:RejectSound" \o tag))

\* ---- the implementation model against the real binder
ErrClass(why) == IF why \in {"PK_Missing", "KO_Missing"} THEN "Missing" ELSE why

Drift(o) ==
    LET m == ImplRun(o.case)
    IN IF m.verdict # o.real.verdict THEN Say(o.tid, "drift:verdict")
       ELSE IF m.verdict = "ok"
       THEN (IF m.bound = o.real.positions THEN TRUE ELSE Say(o.tid, "drift:positions"))
       ELSE (IF ErrClass(m.why) = o.real.errclass THEN TRUE ELSE Say(o.tid, "drift:error-branch"))

\* the positions recorded by the Bind hook inside the visitor's own call (when the hook is in the tree)
DriftHook(o) ==
    LET m == ImplRun(o.case)
    IN IF (IF m.verdict = "ok" THEN m.bound ELSE <<"rejected">>) = o.vispos THEN TRUE
       ELSE Say(o.tid, "drift:visitor-hook-positions")

Step1(o) ==
    IF IsConcrete(o.case.call)
    THEN (IF OracleConcrete(o) THEN TRUE ELSE Say(o.tid, "oracle:concrete-call"))
    ELSE IF ~OracleUniverse(o) THEN Say(o.tid, "oracle:expansion-universe")
    ELSE IF OracleExpansions(o) THEN TRUE ELSE Say(o.tid, "oracle:expansions")

TInit == l = 1 /\ case = Blank /\ stage = "trace" /\ act = NoActuals /\ st = BindStart /\ br = ""

TNext ==
    /\ l <= Len(Obs)
    /\ LET o == Obs[l]
       IN /\ Step1(o)
          /\ JudgeVerdict(o, o.real.verdict, "")
          /\ (IF o.vis = "none" THEN TRUE ELSE JudgeVerdict(o, o.vis, "-visitor"))
          /\ (IF o.real.verdict \in {"ok", "err"} THEN Drift(o) ELSE TRUE)
          /\ (IF o.vis = "none" \/ o.vis = o.real.verdict THEN TRUE ELSE Say(o.tid, "drift:visitor-vs-binder"))
          /\ (IF o.vispos = <<"none">> THEN TRUE ELSE DriftHook(o))
    /\ l' = l + 1
    /\ UNCHANGED vars
=============================================================================
