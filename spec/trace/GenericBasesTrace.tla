-------------------------- MODULE GenericBasesTrace --------------------------
(* "gpair": {tid, e, o, real}  real = GenericValue(E).can_assign(GenericValue(O)) accepted                        *)
(* "gsnip": {tid, e, o, diagnosed}  `def want(x: E)` called with a parameter of type O through the visitor          *)
(* "gbase": {tid, o, target, found, args}  CPython: o seen as `target` by substitution along __orig_bases__ with    *)
(*          __parameters__ (validates the oracle: "oracle:...")                                                     *)
EXTENDS GenericBases, Json, IOUtils
Obs == ndJsonDeserialize(IOEnv.TRACE_FILE)
VARIABLE l
Say(tid, v) == PrintT(<<"VERDICT", tid, v>>)
Chk(cond, tid, v) == IF cond THEN TRUE ELSE Say(tid, v)
JudgePair(o, real, what) ==
    /\ Chk(real = Accept(o.e, o.o, "sorted"), o.tid, what)
    /\ Chk(real => RefSound(o.e, o.o), o.tid, "viol:Sound")
    /\ Chk(o.e = o.o => real, o.tid, "viol:Reflexive")
JudgeBase(o) ==
    LET r == BaseArgs(o.o.c, o.o.args, o.target, "ref")
    IN Chk(r.found = o.found /\ (r.found => r.args = o.args), o.tid, "oracle:base-args")
GTInit == l = 1 /\ GInit
GTNext == /\ l <= Len(Obs)
          /\ CASE Obs[l].kind = "gpair" -> JudgePair(Obs[l], Obs[l].real, "drift:generic_bases_can_assign")
               [] Obs[l].kind = "gsnip" -> JudgePair(Obs[l], ~Obs[l].diagnosed, "drift:generic_bases_snippet")
               [] Obs[l].kind = "gbase" -> JudgeBase(Obs[l])
          /\ l' = l + 1 /\ UNCHANGED gvars
=============================================================================
