----------------------- MODULE AnnotationContextTrace -----------------------
(* Trace specification for C13 (evaluation context and sharing).  One line per realised case:        *)
(*   {tid, w, hist, py, truth, cells, obs, base}                                                     *)
(*   w      the world  [a |-> [f, n, fut], b |-> [f, n, fut], shared]   (AnnotationContext.tla)      *)
(*   hist   the agent steps really performed before the observation (gthA gthB pyzA pyzB)            *)
(*   py     per module: the REAL object on the function / behind the alias, described structurally   *)
(*          (validates DeclObj, the CPython model of the declaration)                                *)
(*   truth  per module: what eval(<name>, module.__dict__) really is ("A.K", "undefined", ...)       *)
(*          (validates RefResolve against real CPython name resolution)                              *)
(*   cells  per module: [obj, cache] -- the state of the real ForwardRef on the module's own object  *)
(*          and on the memo's entry after the history: "none" | "A" | "B" | "nocell"                 *)
(*          (validates StepCells, the model of typing's sharing and caching)                         *)
(*   obs    per module: the routes' real results after the history                                   *)
(*          [rt, str, sig, ast, callown, callother]   (calls: error codes in an importing module)    *)
(*   base   per module: [rt, str, sig, ast] in a twin world built the same way with NO history       *)
(* TLC judges the REAL results with the Ref operators only; the Impl operators only say "drift".     *)
EXTENDS AnnotationContext, Json, IOUtils

Obs == ndJsonDeserialize(IOEnv.TRACE_FILE)
VARIABLE l

Say(tid, v) == PrintT(<<"VERDICT", tid, v>>)

JudgeModule(o, m) ==
    LET w == o.w
        d == DeclOf(w, m)
        cs == CellsAfter(w, o.hist)
        vals == [r \in CtxRoutes |-> o.obs[m][r]]
        base == [r \in CtxRoutes |-> o.base[m][r]]
        rejected == o.obs[m].callother # << >>
    IN /\ (IF DeclObj(w, m) = o.py[m] THEN TRUE ELSE Say(o.tid, "oracle:PyEval@" \o m))
       /\ (IF RefResolve(m, d.n) = o.truth[m] THEN TRUE ELSE Say(o.tid, "oracle:RefResolve@" \o m))
       /\ (IF ObjCellState(w, m, cs) = o.cells[m].obj /\ CacheCellState(w, m, cs) = o.cells[m].cache
           THEN TRUE ELSE Say(o.tid, "oracle:TypingCells@" \o m))
       \* (the twin world is the case (w, << >>), which is replayed itself: its drift is judged there)
       /\ \A r \in CtxRoutes : (IF o.obs[m][r] = ImplCtx(w, m, r, cs) THEN TRUE ELSE Say(o.tid, "drift:" \o r \o "@" \o m))
       /\ (IF CtxAllIndependent(w, m, vals, base) THEN TRUE ELSE Say(o.tid, "viol:ContextIndependent@" \o m))
       /\ (IF CtxAllDeclaring(w, m, vals) THEN TRUE ELSE Say(o.tid, "viol:DeclaringModule@" \o m))
       /\ (IF CtxAllSame(w, m, vals) THEN TRUE ELSE Say(o.tid, "viol:RoutesAgree@" \o m))
       /\ (IF o.obs[m].callown = << >> /\ (rejected <=> RefCallOtherRejected(m, d.n)) THEN TRUE
           ELSE Say(o.tid, "viol:CallJudgedInContext@" \o m))

JudgeCtx(o) == \A m \in Modules : JudgeModule(o, m)

TInit == l = 1 /\ CInit
TNext ==
    /\ l <= Len(Obs)
    /\ JudgeCtx(Obs[l])
    /\ l' = l + 1
    /\ UNCHANGED ctxvars
=============================================================================
