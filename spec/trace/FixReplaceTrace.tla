---------------------------- MODULE FixReplaceTrace ----------------------------
(* Trace specification for the replacement fixes of C16.  Per realised program (tid):                 *)
(*   Begin(prog)   Step(frag, kind, parses, gone, others_same, delta_ok)*   End(status, remaining)     *)
(* Each Step must satisfy StepOK and repair the first pending fragment (FixFirst); End must report     *)
(* that nothing fixable remains after exactly Len(prog) steps.                                         *)
EXTENDS FixReplace, Json, IOUtils
Obs == ndJsonDeserialize(IOEnv.TRACE_FILE)
VARIABLE l
Say(tid, v) == PrintT(<<"VERDICT", tid, v>>)

TInit == l = 1 /\ Init
TBegin ==
    /\ Obs[l].event = "Begin"
    /\ prog' = Obs[l].prog /\ stage' = "fixing" /\ pending' = EmissionOrder(Obs[l].prog) /\ steps' = 0
TStep ==
    /\ Obs[l].event = "Step"
    /\ LET o == Obs[l]
       IN /\ (IF o.parses THEN TRUE ELSE Say(o.tid, "viol:StillParses"))
          /\ (IF o.gone THEN TRUE ELSE Say(o.tid, "viol:ProposingDiagnosticGone"))
          /\ (IF o.others_same THEN TRUE ELSE Say(o.tid, "viol:OtherDiagnosticsUnchanged"))
          /\ (IF o.delta_ok THEN TRUE ELSE Say(o.tid, "viol:OnlyIntendedChange"))
          /\ (IF pending # << >> /\ o.frag = Head(pending) /\ o.kind = prog[o.frag].kind THEN TRUE ELSE Say(o.tid, "drift:fix-order"))
    /\ pending' = IF pending = << >> THEN pending ELSE Tail(pending)
    /\ steps' = steps + 1 /\ UNCHANGED <<prog, stage>>
TEnd ==
    /\ Obs[l].event = "End"
    /\ (IF Obs[l].status = "fixed" /\ Obs[l].remaining = 0 THEN TRUE ELSE Say(Obs[l].tid, "viol:FixLoopTerminatesClean"))
    /\ (IF steps = Len(prog) THEN TRUE ELSE Say(Obs[l].tid, "drift:number-of-steps"))
    /\ stage' = "done" /\ UNCHANGED <<prog, pending, steps>>
TNext == l <= Len(Obs) /\ (TBegin \/ TStep \/ TEnd) /\ l' = l + 1
=============================================================================
