------------------------------ MODULE MiniPyTrace ------------------------------
(* Trace specification for C01.  One line per execution of a generated function:                                  *)
(*   {tid, nodes: [node facts], stores: [assignment sites], ev: [events]}   (see MiniPy.tla, "Acceptance")        *)
(* recorded by instrumented execution under CPython; the inferred types are read from the tree annotated by the    *)
(* real checker.  Accepted iff every judged evaluation's value is a member of its inferred type (a node inferred   *)
(* as Never therefore must not appear).  An unsound event is filed under a known-deviation class only if the       *)
(* mechanism of that class, replayed over the events of this execution, explains this event:                       *)
(*   taint[var]   classes whose mechanism mis-narrowed / mis-typed the value now held by var (dynamic data flow:   *)
(*                set at the mis-predicted test, copied by assignments, cleared by a clean assignment)             *)
(*   cc / stamp / it   loop-carry bookkeeping of MiniPy!Dev_LoopCarried                                            *)
(*   last / linf  last value / inferred type of every node (operands of the node being judged)                     *)
(*   hot          <<class, node>>: nodes of the statement being executed whose own result is mis-typed by the      *)
(*                mechanism of that class (tuple add; an expression the checker rejected with an error)            *)
(* Lines with a field "pairs" carry distinct (value, inferred type) pairs only: every judged event is first        *)
(* judged through its pair; executions with an unsound pair are then replayed in full.                             *)
EXTENDS MiniPy, Json, IOUtils

Obs == ndJsonDeserialize(IOEnv.TRACE_FILE)
VARIABLE l
Say(tid, v) == PrintT(<<"VERDICT", tid, v>>)

St0(N) == [taint |-> [vn \in VarNames |-> {}], cc |-> [vn \in VarNames |-> 0],
           stamp |-> [vn \in VarNames |-> [L \in LoopIds |-> 0]], it |-> [L \in LoopIds |-> 0],
           last |-> [i \in 1..N |-> NoObj], linf |-> [i \in 1..N |-> NoT], hot |-> {}, stmt |-> 0,
           tact |-> {}, wact |-> {}, pend |-> {}, tmut |-> [T \in LoopIds |-> {}]]

Known2(a, b) == a # NoObj /\ b # NoObj
MaxOf(S) == IF S = {} THEN 0 ELSE CHOOSE m \in S : \A k \in S : k <= m

\* variables whose narrowing the event of node nd (value val) mis-predicts, per class
NumericSource(st, nd, val) ==
    \/ /\ nd.fn = "isinstance" /\ Len(nd.ch) >= 1 /\ st.last[nd.ch[1]] # NoObj
       /\ Dev_NumericMispredict(st.last[nd.ch[1]], SeqToSet(nd.cls))
    \/ \E p \in 1..Len(nd.pats) : \E q \in 1..Len(nd.pats[p].cls) : \E so \in SubObjs(val) :
          Dev_NumericMispredict(so, SeqToSet(nd.pats[p].cls[q]))
CrossEqSource(st, nd, val) ==
    \/ /\ nd.k = "Compare" /\ Len(nd.ch) = Len(nd.op) + 1
       /\ \E i \in 1..Len(nd.op) : /\ Known2(st.last[nd.ch[i]], st.last[nd.ch[i + 1]])
                                   /\ CrossEqTest(nd.op[i], st.last[nd.ch[i]], st.last[nd.ch[i + 1]])
    \/ \E p \in 1..Len(nd.pats) : \E q \in 1..Len(nd.pats[p].lits) : \E so \in SubObjs(val) : CrossEq(so, nd.pats[p].lits[q])
TupleAddSource(st, nd, ev) ==
    /\ nd.k = "BinOp" /\ nd.op = <<"+">> /\ Len(nd.ch) = 2 /\ ev.j
    /\ Known2(st.last[nd.ch[1]], st.last[nd.ch[2]])
    /\ Dev_TupleAddDropsLeft(st.last[nd.ch[1]], st.last[nd.ch[2]], ev.v, ev.i)

\* a call passed a variadic tuple[E, ...] argument through to a result whose type is a shaped tuple
VariadicSource(st, nd, ev) ==
    /\ nd.k = "Call" /\ ev.j /\ HasShapedTuple(ev.i)
    /\ \E a \in SeqToSet(nd.ch) : /\ st.last[a] # NoObj /\ st.last[a].c = "tuple" /\ st.last[a] \in SubObjs(ev.v)
                                   /\ st.linf[a].k = "generic" /\ st.linf[a].c = "tuple" /\ Len(st.linf[a].args) = 1

\* a call passed a plain dict[str, V] argument through to a result typed with a TypedDict (C04's open finding: a plain dict
\* and a TypedDict are accepted for each other, so the type variable is solved to the TypedDict alone)
DictForTDSource(st, nd, ev) ==
    /\ nd.k = "Call" /\ ev.j /\ HasTypedDict(ev.i)
    /\ \E a \in SeqToSet(nd.ch) : /\ st.last[a] # NoObj /\ st.last[a].c = "dict" /\ st.last[a] \in SubObjs(ev.v)
                                   /\ st.linf[a].k = "generic" /\ st.linf[a].c = "dict"

\* state after the evaluation event ev of node nd
AfterEval(st, ev, nd) ==
    LET st1 == IF nd.s # st.stmt THEN [st EXCEPT !.hot = {}, !.stmt = nd.s] ELSE st
        add == (IF NumericSource(st1, nd, ev.v) THEN {KeyNumeric} ELSE {}) \cup (IF CrossEqSource(st1, nd, ev.v) THEN {KeyCrossEq} ELSE {})
               \cup (IF nd.k \in {"Name", "NamedExpr"} /\ ev.i.k = "any" THEN {KeyAny} ELSE {})
        \* a falsy object whose static type is assumed always truthy was evaluated: the checker considers the path the
        \* execution takes from here (loop not entered, else branch) impossible, its state describes the other path
        absT == Dev_AbstractTruthy(ev.v, ev.i)
        rd == SeqToSet(nd.r)
    IN [st1 EXCEPT !.last[ev.n] = ev.v, !.linf[ev.n] = ev.i,
                   !.taint = [vn \in VarNames |-> (IF vn \in rd THEN @[vn] \cup add ELSE @[vn]) \cup (IF absT THEN {KeyAbsTruthy} ELSE {})],
                   !.hot = @ \cup (IF TupleAddSource(st1, nd, ev) THEN {<<KeyTupleAdd, ev.n>>} ELSE {})
                             \cup (IF nd.err THEN {<<KeyRejected, ev.n>>} ELSE {})
                             \cup (IF VariadicSource(st1, nd, ev) THEN {<<KeyVariadic, ev.n>>} ELSE {})
                             \cup (IF DictForTDSource(st1, nd, ev) THEN {<<KeyDictTD, ev.n>>} ELSE {})
                             \cup (IF absT THEN {<<KeyAbsTruthy, ev.n>>} ELSE {})
                             \cup (IF ev.i.k = "any" THEN {<<KeyAny, ev.n>>} ELSE {})]

HotKeys(st, S) == {h[1] : h \in {hh \in st.hot : hh[2] \in S}}
NodeTaint(st, nd, ni) == UNION {st.taint[r] : r \in SeqToSet(nd.r)} \cup HotKeys(st, SeqToSet(nd.d) \cup {ni})

\* state after the assignment site s completed
AfterStore(st, s) ==
    LET rd == SeqToSet(s.r)
        cls == IF s.via # "" /\ s.recv > 0 THEN st.last[s.recv].c ELSE "?"
        tn == UNION {st.taint[r] : r \in rd} \cup (IF s.n > 0 THEN HotKeys(st, {s.n} \cup SeqToSet(s.d)) ELSE {})
              \cup (IF Dev_UnmodelledMutator(cls, s.via) THEN {KeyUnmodelled} ELSE {})
              \* t += u on tuples goes through tuple.__add__ (class (c)); the statement has no node of its own
              \cup (IF s.via = "aug+" /\ cls = "tuple" /\ s.arg > 0 /\ st.last[s.arg].c = "tuple" /\ st.last[s.recv].items # << >>
                    THEN {KeyTupleAdd} ELSE {})
              \* the same leniency when a list of shaped tuples is extended with a variadic tuple (list.__iadd__ / extend / append
              \* check the element type with can_assign and leave the list type unchanged)
              \cup (IF s.arg > 0 /\ cls = "list" /\ s.via \in {"aug+", ".extend", ".append"} /\ HasVariadicTuple(st.linf[s.arg])
                    THEN {KeyVariadic} ELSE {})
              \cup (IF s.recv > 0 /\ Dev_DictUnionMutation(cls, s.via, st.linf[s.recv]) THEN {KeyDictUnion} ELSE {})
              \cup (IF s.arg > 0 /\ Dev_ListExtendKnown(cls, s.via, st.last[s.arg], st.linf[s.arg]) THEN {KeyExtendKnown} ELSE {})
        c == MaxOf({Carry(st, r) : r \in rd})
        names == SeqToSet(s.names)
    IN [st EXCEPT !.taint = [vn \in VarNames |-> IF vn \in names THEN tn ELSE @[vn]],
                  !.cc = [vn \in VarNames |-> IF vn \in names THEN c ELSE @[vn]],
                  !.stamp = [vn \in VarNames |-> IF vn \in names THEN st.it ELSE @[vn]],
                  \* containers mutated in place inside a try / with block that is still running
                  !.tmut = [T \in LoopIds |-> IF s.via # "" /\ T \in st.tact THEN @[T] \cup names ELSE @[T]]]

\* An exception left the block T (try body / with body) and was caught (handler entered, finally entered while the
\* exception is in flight, suppressed by the context manager): the mutations the block performed before the exception
\* through impl functions (list.append, dict.__setitem__, ...) are applied as constraints on the normal flow only and
\* are not part of the state the checker continues with.
Caught(st, T) == IF T \in st.tact
                 THEN [st EXCEPT !.taint = [vn \in VarNames |-> IF vn \in st.tmut[T] THEN @[vn] \cup {KeyMutLost} ELSE @[vn]]]
                 ELSE st


\* A case pattern with a guard matched and bound its capture names (store with via = "guard"); the body of the case was
\* not entered (no cb event followed): the guard failed, the names stay bound (CPython), but the checker bound them in the
\* scope of that case only.
Finalize(st) == [st EXCEPT !.pend = {},
                           !.taint = [vn \in VarNames |-> IF vn \in st.pend THEN @[vn] \cup {KeyGuardCapture} ELSE @[vn]]]
StoreEv(st, s) == LET st1 == AfterStore(st, s) IN IF s.via = "guard" THEN [st1 EXCEPT !.pend = SeqToSet(s.names)] ELSE st1

Step(st0, ev, o) ==
    LET st == IF ev.k \notin {"e", "cb"} THEN Finalize(st0) ELSE st0 IN
    CASE ev.k = "e" -> AfterEval(st, ev, o.nodes[ev.n])
      [] ev.k = "s" -> StoreEv(st, o.stores[ev.site])
      [] ev.k = "cb" -> [st EXCEPT !.pend = {}]
      [] ev.k = "mx" -> st
      \* observed: the variables ev.names hold (or contain) the very container object that the preceding store updated in
      \* place: the program mutates a container through an alias, which the property excludes
      [] ev.k = "al" -> [st EXCEPT !.taint = [vn \in VarNames |-> IF vn \in SeqToSet(ev.names) THEN @[vn] \cup {KeyAlias} ELSE @[vn]]]
      [] ev.k = "le" -> [st EXCEPT !.it[ev.loop] = 0]
      [] ev.k = "it" -> [st EXCEPT !.it[ev.loop] = @ + 1]
      [] ev.k = "lx" -> [st EXCEPT !.it[ev.loop] = 0]
      [] ev.k = "te" -> [st EXCEPT !.tact = @ \cup {ev.loop}, !.tmut[ev.loop] = {}]
      [] ev.k = "tn" -> [st EXCEPT !.tact = @ \ {ev.loop}]
      [] ev.k = "xh" -> [Caught(st, ev.loop) EXCEPT !.tact = @ \ {ev.loop}]
      [] ev.k = "xf" -> Caught(st, ev.loop)
      \* with statement ev.loop: entered (we) / its body completed (wn) / the statement was left normally (wq; without a
      \* preceding wn: the context manager suppressed an exception).  The body of a with statement whose context manager
      \* may suppress exceptions is analysed in a scope of its own that is thrown away (stacked_scopes.suppressing_subscope):
      \* only the definition nodes created inside are re-applied after the block, in-place mutations (constraints) are not.
      \* (Two mechanisms that used to be replayed here were repaired in the code and excuse nothing any more: an exhaustive
      \* match statement marking the enclosing block as leaving, 38601f1; a break / continue inside such a with block
      \* dropping all assignments of the block, 440760d.  c01.py keeps their old behaviour as corrupted observations that
      \* must come back as violations.)
      [] ev.k = "we" -> [st EXCEPT !.tact = @ \cup {ev.loop}, !.wact = @ \cup {ev.loop}, !.tmut[ev.loop] = {}]
      [] ev.k \in {"wn", "wq"} -> IF ev.loop \in st.wact
                                  THEN [Caught(st, ev.loop) EXCEPT !.tact = @ \ {ev.loop}, !.wact = @ \ {ev.loop}]
                                  ELSE st

\* verdict for the unsound judged event ev (index i); st = state after the event's own sources were applied
Classify(o, i, st, ev, nd) ==
    LET tn == NodeTaint(st, nd, ev.n)
        tid == o.tid
    IN IF KeyRejected \in tn THEN Say(tid, "dom:" \o KeyRejected \o ":" \o ToString(i))
       ELSE IF KeyAlias \in tn THEN Say(tid, "dom:" \o KeyAlias \o ":" \o ToString(i))
       ELSE IF KeyVariadic \in tn THEN Say(tid, "dom:" \o KeyVariadic \o ":" \o ToString(i))
       ELSE IF KeyAny \in tn /\ ev.i.k # "any" THEN Say(tid, "dom:" \o KeyAny \o ":" \o ToString(i))
       ELSE IF KeyCrossEq \in tn /\ ContainsNumeric(ev.v) THEN Say(tid, "dom:" \o KeyCrossEq \o ":" \o ToString(i))
       ELSE IF KeyNumeric \in tn /\ ContainsNumeric(ev.v) THEN Say(tid, "dev:" \o KeyNumeric \o ":" \o ToString(i))
       ELSE IF Dev_LoopCarried(st, SeqToSet(nd.r)) THEN Say(tid, "dev:" \o KeyLoop \o ":" \o ToString(i))
       ELSE IF KeyTupleAdd \in tn THEN Say(tid, "dev:" \o KeyTupleAdd \o ":" \o ToString(i))
       ELSE IF KeyUnmodelled \in tn THEN Say(tid, "dev:" \o KeyUnmodelled \o ":" \o ToString(i))
       ELSE IF KeyDictUnion \in tn THEN Say(tid, "dev:" \o KeyDictUnion \o ":" \o ToString(i))
       ELSE IF KeyDictTD \in tn THEN Say(tid, "dev:" \o KeyDictTD \o ":" \o ToString(i))
       ELSE IF KeyExtendKnown \in tn THEN Say(tid, "dev:" \o KeyExtendKnown \o ":" \o ToString(i))
       ELSE IF KeyMutLost \in tn THEN Say(tid, "dev:" \o KeyMutLost \o ":" \o ToString(i))
       ELSE IF KeyGuardCapture \in tn THEN Say(tid, "dev:" \o KeyGuardCapture \o ":" \o ToString(i))
       ELSE IF nd.wt THEN Say(tid, "dev:" \o KeyWhileElse \o ":" \o ToString(i))
       ELSE IF nd.lc THEN Say(tid, "dev:" \o KeyLoopComposite \o ":" \o ToString(i))
       ELSE IF Dev_KnownListMutated(o.stores, SeqToSet(nd.r), ev.i) THEN Say(tid, "dev:" \o KeyKnownList \o ":" \o ToString(i))
       ELSE IF KeyAbsTruthy \in tn THEN Say(tid, "dev:" \o KeyAbsTruthy \o ":" \o ToString(i))
       ELSE IF ev.i = Never THEN Say(tid, "viol:NeverIsNeverReached:" \o ToString(i))
       ELSE Say(tid, "viol:Sound:" \o ToString(i))

RECURSIVE Fold(_, _, _)
Fold(o, i, st) ==
    IF i > Len(o.ev) THEN TRUE
    ELSE LET ev == o.ev[i]
             st2 == Step(st, ev, o)
         IN /\ IF ev.k = "e" /\ ev.j /\ ~Sound(ev) THEN Classify(o, i, st2, ev, o.nodes[ev.n]) ELSE TRUE
            /\ Fold(o, i + 1, st2)

AllSound(o) == \A i \in 1..Len(o.ev) : o.ev[i].k = "e" /\ o.ev[i].j => Sound(o.ev[i])
JudgePairs(o) == \A i \in 1..Len(o.pairs) :
                    IF Member(o.pairs[i][2], o.pairs[i][3]) THEN TRUE ELSE Say(o.tid, "unsound:" \o ToString(o.pairs[i][1]))
\* the mechanism replay is only needed for executions with an unsound event
Judge(o) == IF "pairs" \in DOMAIN o THEN JudgePairs(o)
            ELSE IF AllSound(o) THEN Say(o.tid, "allsound") ELSE Fold(o, 1, St0(Len(o.nodes)))

TInit == l = 1 /\ MInit
TNext == l <= Len(Obs) /\ Judge(Obs[l]) /\ l' = l + 1 /\ UNCHANGED mvars
=============================================================================
