------------------------------ MODULE MiniPyTrace ------------------------------
(* Trace specification for C01.  One line per execution of a generated function:                     *)
(*   {tid, tx, ty, prog, evals: [[node index, runtime value (object term), inferred type (type term)], ...]} *)
(* recorded by instrumented execution under CPython; the inferred types are read from the tree       *)
(* annotated by the real checker.  Accepted iff every evaluated node's value is a member of its      *)
(* inferred type (a node inferred as Never therefore must not appear).                               *)
EXTENDS MiniPy, Json, IOUtils

Obs == ndJsonDeserialize(IOEnv.TRACE_FILE)
VARIABLE l
Say(tid, v) == PrintT(<<"VERDICT", tid, v>>)

Judge(o) ==
    \A i \in 1..Len(o.evals) :
        LET e == [node |-> o.evals[i][1], val |-> o.evals[i][2], inferred |-> o.evals[i][3]]
            cls == DevClass(o)
        IN IF Sound(e) THEN TRUE
           ELSE IF cls # "none" THEN Say(o.tid, "dev:" \o cls)
           ELSE IF e.inferred = Never THEN Say(o.tid, "viol:NeverIsNeverReached:" \o ToString(i))
           ELSE Say(o.tid, "viol:Sound:" \o ToString(i))

TInit == l = 1 /\ MInit
TNext == l <= Len(Obs) /\ Judge(Obs[l]) /\ l' = l + 1 /\ UNCHANGED mvars
=============================================================================
