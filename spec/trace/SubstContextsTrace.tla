-------------------------- MODULE SubstContextsTrace --------------------------
(* Trace specification for the context slice of C14 (SubstContexts.tla).  Observations:                      *)
(*  kind "ctx":  a (term), m (map name), bs (companions), and what the real code returned:                    *)
(*     s_a = a.substitute_typevars(m) as a term; eq_id / hash_id: s_a == a, hash(s_a) == hash(a);             *)
(*     eq_ss / hash_ss: two separately computed substitution results; eq_fresh / hash_fresh: two separately   *)
(*     decoded copies of a; tv_a / tv_s: extract_typevars(a) / extract_typevars(s_a);                         *)
(*     comm[i] = [s_uab, u_sab, eq]: unite(a, b_i).subst(m), unite(a.subst(m), b_i.subst(m)), their ==        *)
(*  kind "pair": a, b (terms), eq_ab, eq_ba, hash_ab                                                          *)
(* TLC judges the laws on the REAL results with the Ref operators (FreeVars, RefSubst, Norm, RefSame) and     *)
(* compares them with the Impl model (drift).  A dev: verdict is only given when the real result is exactly   *)
(* what the deviating mechanism of the model predicts.                                                        *)
EXTENDS SubstContexts, Json, IOUtils

Obs == ndJsonDeserialize(IOEnv.TRACE_FILE)
VARIABLE l
Say(tid, v) == PrintT(<<"VERDICT", tid, v>>)
Chk(cond, tid, v) == IF cond THEN TRUE ELSE Say(tid, v)
Set(s) == {s[i] : i \in 1..Len(s)}

JudgeCtx(o) ==
    LET a == o.a
        m == CtxMapOf(o.m)
        pred == ImplSubst(a, m)
        ref == RefSubst(a, m)
        asPredicted == o.s_a = pred
    IN /\ Chk(asPredicted, o.tid, "drift:ctx-subst")
       /\ Chk(o.eq_id = ImplEq(pred, a) /\ o.hash_id = ImplSameHash(pred, a), o.tid, "drift:ctx-eq")
       /\ Chk(\A i \in 1..Len(o.bs) : /\ o.comm[i].s_uab = ImplSubst(U2(a, o.bs[i]), m)
                                      /\ o.comm[i].u_sab = U2(pred, ImplSubst(o.bs[i], m)), o.tid, "drift:ctx-unite")
       /\ Chk(Set(o.tv_a) = ImplWalkVars(a), o.tid, "drift:ctx-walk")
       \* ---- the laws on the real results
       /\ Chk(FreeVars(o.s_a) \subseteq RefResultVars(a, m), o.tid,
              IF Dev_UnpackedNotSubstituted(a, m) /\ asPredicted THEN "dev:unpacked-value-not-substituted" ELSE "viol:ReplacesEveryOccurrence")
       /\ Chk(WellFormed(ref) => NormEq(o.s_a, ref), o.tid,
              IF Dev_UnpackedNotSubstituted(a, m) /\ asPredicted THEN "dev:unpacked-value-not-substituted" ELSE "viol:SubstStructure")
       /\ Chk(Closed(a) => (o.eq_id /\ o.hash_id), o.tid,
              IF Dev_CallableLiteralRehashed(a) /\ asPredicted /\ o.eq_id = ImplEq(pred, a) /\ o.hash_id = ImplSameHash(pred, a)
              THEN "dev:callable-literal-rehashed-by-substitution" ELSE "viol:SubstIdentityOnClosed")
       /\ Chk(\A i \in 1..Len(o.bs) : o.comm[i].eq, o.tid, "viol:SubstCommutesWithUnite")
       /\ Chk(o.eq_ss /\ o.eq_fresh, o.tid, "viol:SeparatelyBuiltValuesEqual")
       /\ Chk((o.eq_ss => o.hash_ss) /\ (o.eq_fresh => o.hash_fresh), o.tid, "viol:EqualImpliesHashEqual")
       /\ Chk(Set(o.tv_a) = FreeVars(a) /\ Set(o.tv_s) = FreeVars(o.s_a), o.tid,
              IF /\ Set(o.tv_a) = ImplWalkVars(a) /\ Set(o.tv_s) = ImplWalkVars(o.s_a)
                 /\ (Set(o.tv_a) # FreeVars(a) => Dev_UnpackedNotWalked(a))
                 /\ (Set(o.tv_s) # FreeVars(o.s_a) => Dev_UnpackedNotWalked(o.s_a))
              THEN "dev:unpacked-value-not-walked"
              ELSE "viol:ExtractTypevarsAgrees")

JudgePair(o) ==
    LET a == o.a
        b == o.b
        asPredicted == o.eq_ab = ImplEq(a, b) /\ o.hash_ab = ImplSameHash(a, b)
        dev == Dev_SignatureParameterOrder(a, b) /\ asPredicted
    IN /\ Chk(o.eq_ab = ImplEq(a, b), o.tid, "drift:pair-eq")
       /\ Chk(o.hash_ab = ImplSameHash(a, b), o.tid, "drift:pair-hash")
       /\ Chk(o.eq_ab = o.eq_ba, o.tid, "viol:EqSymmetric")
       /\ Chk(o.eq_ab => o.hash_ab, o.tid,
              IF dev THEN "dev:signature-eq-ignores-parameter-order" ELSE "viol:EqualImpliesHashEqual")
       /\ Chk(o.eq_ab <=> RefSame(a, b), o.tid,
              IF dev THEN "dev:signature-eq-ignores-parameter-order" ELSE "viol:EqDiscriminates")

Judge(o) == IF o.kind = "ctx" THEN JudgeCtx(o) ELSE JudgePair(o)

TInit == /\ l = 1 /\ stage = "trace" /\ ta = Never /\ tb = Never /\ ob = NONE /\ tc = Never /\ tm = "T->int"
         /\ cx = << >> /\ hl = "T" /\ cy = << >> /\ hy = "T"
TNext == l <= Len(Obs) /\ Judge(Obs[l]) /\ l' = l + 1 /\ UNCHANGED cvars
=============================================================================
