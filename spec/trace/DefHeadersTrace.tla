--------------------------- MODULE DefHeadersTrace ---------------------------
(* Trace specification for C13 (def headers).  One line per realised header:                       *)
(*   {tid, h, inspect, sigdef, sigrt, calls}                                                       *)
(*   inspect  what REAL inspect.signature(f) reports: <<name, kind, "default"|"nodefault">> per     *)
(*            parameter (validates RefInspect, the CPython model, in TLC)                          *)
(*   sigdef   the Signature the checker derived from the def statement (value of a nested def)     *)
(*   sigrt    Checker's get_argspec(function object)                                               *)
(*   calls    for every call of the family DefHeaders!Calls(h):                                    *)
(*            {npos, kws, bad, nested, defmod, importer}, each context = {codes, ret}: the error   *)
(*            codes reported on the call and the inferred type of the call expression, when the    *)
(*            call is written next to the (nested) def, at module level of the defining module,    *)
(*            and in a module that imports the function.                                           *)
EXTENDS DefHeaders, Json, IOUtils

Obs == ndJsonDeserialize(IOEnv.TRACE_FILE)
VARIABLE l

Say(tid, v) == PrintT(<<"VERDICT", tid, v>>)
ToSet(s) == {s[j] : j \in 1..Len(s)}

CallSame(h, c) ==
    /\ c.nested.codes = c.defmod.codes /\ c.defmod.codes = c.importer.codes
    /\ (h.ret # NoAnn => (RefSame(c.nested.ret, c.defmod.ret) /\ RefSame(c.defmod.ret, c.importer.ret)))

JudgeHeader(o) ==
    LET h == o.h
        n == Len(h.params)
        shaped == o.sigdef.t = "Sig" /\ o.sigrt.t = "Sig" /\ Len(o.sigdef.a) = n + 1 /\ Len(o.sigrt.a) = n + 1
        clauseAsModel(j) == \A i \in 1..n : /\ o.sigdef.a[i].t = "Param" /\ o.sigrt.a[i].t = "Param"
                                            /\ o.sigdef.a[i].a[j] = ImplSigDef(h).a[i].a[j]
                                            /\ o.sigrt.a[i].a[j] = ImplSigRt(h).a[i].a[j]
        kindsExcused == Dev_DunderPositionalOnly(h) /\ shaped /\ clauseAsModel(1)
        defaultsExcused == Dev_EllipsisDefault(h) /\ shaped /\ clauseAsModel(2)
    IN /\ (IF RefInspect(h) = o.inspect THEN TRUE ELSE Say(o.tid, "oracle:RefInspect"))
       /\ (IF {[npos |-> o.calls[k].npos, kws |-> ToSet(o.calls[k].kws), bad |-> o.calls[k].bad] : k \in 1..Len(o.calls)} = Calls(h)
           THEN TRUE ELSE Say(o.tid, "oracle:calls-recorded"))
       /\ (IF o.sigdef = ImplSigDef(h) THEN TRUE ELSE Say(o.tid, "drift:sigdef"))
       /\ (IF o.sigrt = ImplSigRt(h) THEN TRUE ELSE Say(o.tid, "drift:sigrt"))
       /\ (IF RefSameSig(h, o.sigdef, o.sigrt) THEN TRUE
           \* a disagreement is a known deviation only if switching off the clauses of the applicable classes
           \* removes it, and a clause is switched off only where the real results show exactly what the model
           \* of the current code predicts for that clause
           ELSE IF RefSameSigModulo(h, o.sigdef, o.sigrt, kindsExcused, defaultsExcused)
                THEN /\ (IF KindsDiffer(h, o.sigdef, o.sigrt) THEN Say(o.tid, "dev:dunder-parameter-positional-only") ELSE TRUE)
                     /\ (IF DefaultsDiffer(h, o.sigdef, o.sigrt) THEN Say(o.tid, "dev:ellipsis-default") ELSE TRUE)
           ELSE Say(o.tid, "viol:HeaderViewsAgree"))
       /\ \A k \in 1..Len(o.calls) :
             IF CallSame(h, o.calls[k]) THEN TRUE
             ELSE IF Dev_DunderCall(h, ToSet(o.calls[k].kws)) THEN Say(o.tid, "dev:dunder-parameter-positional-only")
             ELSE IF Dev_EllipsisCall(h, o.calls[k].npos, ToSet(o.calls[k].kws)) THEN Say(o.tid, "dev:ellipsis-default")
             ELSE Say(o.tid, "viol:CallJudgedIdentically#" \o ToString(k))

TInit == l = 1 /\ HInit
TNext ==
    /\ l <= Len(Obs)
    /\ JudgeHeader(Obs[l])
    /\ l' = l + 1
    /\ UNCHANGED vars
=============================================================================
