----------------------------- MODULE TotalityTrace -----------------------------
(* Trace specification for C12.  Per checked module (tid):                                                     *)
(*   Begin(slice, lines, prog | layout + node)   Diag(code, haspos, lineno, col, msglen, ctx, caret, ...)*  End *)
(*   Begin(..)  ...  Raised(exc)                                       -- a check that raised                   *)
(* per pair of Value terms / (object, type) pair:                                                              *)
(*   ValueOp(a, b, fails)   RtOp(o, a, fails)        fails = the public operations that raised                  *)
(* The trace is accepted iff it is a behaviour of the Totality automaton: every Diag is WellFormed on the       *)
(* position model (lines = the physical lines of the file as CPython counts them, with length in code points,  *)
(* UTF-8 length and the pieces str.splitlines() cuts them into), its rendered context consists of lines of the *)
(* file, every Begin is closed by End, nothing raised.  Observations inside the one open deviation class       *)
(* (column-is-utf8-byte-offset) are reported as dev:<class>; observations that satisfy the property but differ from the      *)
(* Impl model (ImplContext / ImplShow) as drift:<what>.                                                        *)
EXTENDS Totality, TotalityValues, Json, IOUtils

Obs == ndJsonDeserialize(IOEnv.TRACE_FILE)
Codes == {Obs[1].codes[i] : i \in 1..Len(Obs[1].codes)}     \* first line: the registered error codes
VARIABLES l, file, slice, cprog, cnode, cdecl, seen
Say(tid, v) == PrintT(<<"VERDICT", tid, v>>)
others == <<gvars, pvars, yvars, vvars, rvars, kvars, dvars>>

TInit == l = 1 /\ GInit /\ LInit /\ PInit /\ YInit /\ VInit /\ RInit /\ KInit /\ DInit
         /\ file = << >> /\ slice = "none" /\ cprog = << >> /\ cnode = NoNode /\ cdecl = [kind |-> "none", v |-> "none"] /\ seen = "no"

IndexExc == "Internal error: IndexError('list index out of range')"

THeader == Obs[l].event = "Codes" /\ UNCHANGED <<lvars, file, slice, cprog, cnode, cdecl, seen>>
TBegin ==
    /\ Obs[l].event = "Begin"
    /\ (IF life \in {"Start", "Done"} THEN TRUE ELSE Say(Obs[l].tid, "viol:PreviousCheckNotEnded"))
    /\ life' = "Start" /\ ndiags' = 0 /\ slice' = Obs[l].slice
    /\ file' = (IF Obs[l].same THEN file ELSE Obs[l].lines)       \* same = the module of the previous Begin, other configuration
    /\ cprog' = (IF Obs[l].slice = "frag" THEN Obs[l].prog ELSE << >>)
    /\ cnode' = (IF Obs[l].slice = "layout" THEN Obs[l].node ELSE NoNode)
    /\ cdecl' = (IF Obs[l].slice = "decl" THEN Obs[l].decl ELSE [kind |-> "none", v |-> "none"])
    /\ seen' = (IF Obs[l].same THEN seen ELSE "no")   \* diagnostics identical to recorded ones of the first configuration are not repeated

Verdict(o) ==
    LET f == IF slice = "frag" /\ o.frag >= 1 /\ o.frag <= Len(cprog) THEN cprog[o.frag] ELSE [kind |-> "none"]
        impl == ImplContext(file, o.lineno, o.col)
        r == ImplShow(file, cnode, TRUE)
    IN IF o.code = "internal_error"
       THEN IF Dev_ParamSpecSubstitution(f, o) THEN "dev:paramspec-substituted-by-non-signature"
            ELSE "viol:InternalError"
       ELSE IF ~(o.code \in Codes) \/ o.msglen <= 0 THEN "viol:IllFormedDiagnostic"
       ELSE IF ~RefWellFormedPos(o, file)
       THEN \* open class: the reported column is the UTF-8 byte offset of a node of the file
            IF o.origin \in {"file", "both"} /\ Dev_ByteColumn(o, file) /\ RefContextOK(o, file) THEN "dev:column-is-utf8-byte-offset"
            ELSE "viol:IllFormedDiagnostic"
       ELSE IF ~RefContextOK(o, file) THEN "viol:ContextNotFromFile"
       ELSE IF o.ctx # impl.ctx \/ o.caret # impl.caret THEN "drift:context"
       ELSE IF slice = "layout" /\ o.marker /\ r.out = "diag" /\ (o.lineno # r.lineno \/ o.col # r.col) THEN "drift:position"
       ELSE "ok"

TDiag ==
    /\ Obs[l].event = "Diag"
    /\ LET o == Obs[l]
           v == Verdict(o)
       IN /\ (IF v = "ok" THEN TRUE ELSE Say(o.tid, v))
          /\ seen' = (IF o.marker THEN "marker"
                      ELSE IF o.code = "internal_error" /\ o.exc = IndexExc /\ seen = "no" THEN "raise" ELSE seen)
    /\ life' = "Diags" /\ ndiags' = ndiags + 1 /\ UNCHANGED <<file, slice, cprog, cnode, cdecl>>
TEnd ==
    /\ Obs[l].event = "End"
    /\ (IF slice = "layout" /\ ~Obs[l].skipped
        THEN LET r == ImplShow(file, cnode, TRUE)
             IN IF r.out = "raise" /\ seen # "raise" THEN Say(Obs[l].tid, "drift:expected-raise-not-observed")
                ELSE IF r.out = "diag" /\ seen # "marker" THEN Say(Obs[l].tid, "drift:marker-diagnostic-missing")
                ELSE TRUE
        ELSE TRUE)
    /\ life' = "Done" /\ UNCHANGED <<ndiags, file, slice, cprog, cnode, cdecl, seen>>
TRaised == Obs[l].event = "Raised" /\ Say(Obs[l].tid, "viol:CheckRaised") /\ life' = "Done" /\ UNCHANGED <<ndiags, file, slice, cprog, cnode, cdecl, seen>>
TValueOp ==
    /\ Obs[l].event = "ValueOp"
    /\ LET o == Obs[l]
       IN \A i \in 1..Len(o.fails) :
             Say(o.tid, "viol:ValueOperationRaised")
    /\ UNCHANGED <<lvars, file, slice, cprog, cnode, cdecl, seen>>
TRtOp ==
    /\ Obs[l].event = "RtOp"
    /\ LET o == Obs[l]
       IN \A i \in 1..Len(o.fails) :
             Say(o.tid, "viol:RuntimeApiRaised")
    /\ UNCHANGED <<lvars, file, slice, cprog, cnode, cdecl, seen>>

TNext == l <= Len(Obs) /\ (THeader \/ TBegin \/ TDiag \/ TEnd \/ TRaised \/ TValueOp \/ TRtOp) /\ l' = l + 1 /\ UNCHANGED others
=============================================================================
