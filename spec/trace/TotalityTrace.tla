----------------------------- MODULE TotalityTrace -----------------------------
(* Trace specification for C12.  Per checked module / public value operation (tid):                  *)
(*   Begin(nlines, linelens)   Diag(code, lineno, col, msglen)*   End    -- a check that returned     *)
(*   Begin(..)  ...  Raised(exc)                                        -- a check that raised        *)
(*   ValueOp(op, ok)                                                    -- Value API call returned?   *)
(* The trace is accepted iff it is a behaviour of the Totality automaton: every Diag is WellFormed,   *)
(* every Begin is closed by End, no Raised / failed ValueOp.                                          *)
EXTENDS Totality, Json, IOUtils

Obs == ndJsonDeserialize(IOEnv.TRACE_FILE)
Codes == {Obs[1].codes[i] : i \in 1..Len(Obs[1].codes)}     \* first line: the registered error codes
VARIABLES l, nlines, linelens
Say(tid, v) == PrintT(<<"VERDICT", tid, v>>)

TInit == l = 1 /\ GInit /\ LInit /\ nlines = 0 /\ linelens = << >>

THeader == Obs[l].event = "Codes" /\ UNCHANGED <<gvars, lvars, nlines, linelens>>
TBegin ==
    /\ Obs[l].event = "Begin"
    /\ (IF life \in {"Start", "Done"} THEN TRUE ELSE Say(Obs[l].tid, "viol:PreviousCheckNotEnded"))
    /\ life' = "Start" /\ ndiags' = 0 /\ nlines' = Obs[l].nlines /\ linelens' = Obs[l].linelens /\ UNCHANGED gvars
TDiag ==
    /\ Obs[l].event = "Diag"
    /\ LET o == Obs[l]
           d == [code |-> o.code, lineno |-> o.lineno, col |-> o.col, msglen |-> o.msglen]
       IN IF o.lineno \in 1..nlines /\ WellFormed(d, nlines, linelens, Codes) THEN TRUE
          ELSE IF o.code = "internal_error" THEN Say(o.tid, "viol:InternalError")
          ELSE Say(o.tid, "viol:IllFormedDiagnostic")
    /\ life' = "Diags" /\ ndiags' = ndiags + 1 /\ UNCHANGED <<gvars, nlines, linelens>>
TEnd == Obs[l].event = "End" /\ life' = "Done" /\ UNCHANGED <<gvars, ndiags, nlines, linelens>>
TRaised == Obs[l].event = "Raised" /\ Say(Obs[l].tid, "viol:CheckRaised") /\ life' = "Done" /\ UNCHANGED <<gvars, ndiags, nlines, linelens>>
TValueOp ==
    /\ Obs[l].event = "ValueOp"
    /\ (IF Obs[l].ok THEN TRUE ELSE Say(Obs[l].tid, "viol:ValueOperationRaised"))
    /\ UNCHANGED <<gvars, lvars, nlines, linelens>>

TNext == l <= Len(Obs) /\ (THeader \/ TBegin \/ TDiag \/ TEnd \/ TRaised \/ TValueOp) /\ l' = l + 1
=============================================================================
