--------------------------- MODULE DeclFieldsTrace ---------------------------
(* Trace specification for C13 (declarations of structured types, DeclFields.tla).  One line per realised case:    *)
(*  td: {tid, c, keys: [required, readonly]  what CPython recorded for key a on the real class,                    *)
(*       entries: [rt, param, imp, impbare]  the entry <<required, readonly, type>> of key a by each route,        *)
(*       ops: [defmod, imp, impbare] -> [set, del, pop, setdefault, missing, toW] -> error codes}                  *)
(*  dc / nt: {tid, c, insp  REAL inspect.signature(K), sig  Checker.get_signature(K),                              *)
(*       calls: [defmod, imp] -> [one, two, kw] -> error codes of K(1) / K(1, 2) / K(b=1, a=2)}                    *)
EXTENDS DeclFields, Json, IOUtils

Obs == ndJsonDeserialize(IOEnv.TRACE_FILE)
VARIABLE l

Say(tid, v) == PrintT(<<"VERDICT", tid, v>>)
V(t, n, a) == [t |-> t, n |-> n, a |-> a]
IntT == V("Typed", "int", << >>)

DevA == "typeddict-field-names-in-importer-scope"
DevB == "annotated-around-typeddict-qualifier"
DevC == "initvar-in-string-annotation"

JudgeTd(o) ==
    LET c == o.c
        named == {"rt", "param", "imp"}
        asModel == \A r \in named : o.entries[r] = ImplEntry(c)
        bareAsModel == o.entries.impbare = ImplEntryBare(c)
        bare == ImplEntryBare(c)
    IN /\ (IF PyRequiredKey(c) = o.keys.required /\ PyReadonlyKey(c) = o.keys.readonly THEN TRUE ELSE Say(o.tid, "oracle:PyKeys"))
       /\ \A r \in TdRoutes : (IF o.entries[r] = ImplRoute(c, r) THEN TRUE ELSE Say(o.tid, "drift:" \o r))
       /\ \A r \in named :
             IF RefDeclaredEntry(o.entries[r], c) THEN TRUE
             ELSE IF Dev_AnnotatedAroundQualifier(c) /\ asModel THEN Say(o.tid, "dev:" \o DevB)
             ELSE Say(o.tid, "viol:DeclaredMeaning@" \o r)
       /\ (IF o.entries.rt = o.entries.param /\ o.entries.param = o.entries.imp THEN TRUE ELSE Say(o.tid, "viol:FieldRoutesAgree"))
       /\ (IF o.entries.impbare = o.entries.imp THEN TRUE
           ELSE IF Dev_FieldNamesInImporterScope(c) /\ bareAsModel THEN Say(o.tid, "dev:" \o DevA)
           ELSE Say(o.tid, "viol:FieldRoutesAgree@impbare"))
       /\ \A m \in {"defmod", "imp"} :
             IF RefOpsFollow(o.ops[m], RefRequired(c), RefReadonly(c), c) THEN TRUE
             ELSE IF Dev_AnnotatedAroundQualifier(c) /\ asModel THEN Say(o.tid, "dev:" \o DevB)
             ELSE Say(o.tid, "viol:OperationsFollowDeclaration@" \o m)
       /\ (IF o.ops.defmod = o.ops.imp THEN TRUE ELSE Say(o.tid, "viol:OperationsJudgedIdentically"))
       /\ (IF RefOpsFollow(o.ops.impbare, RefRequired(c), RefReadonly(c), c) THEN TRUE
           \* the importer-scope class excuses exactly the judgements that follow from the entry its model predicts
           ELSE IF Dev_FieldNamesInImporterScope(c) /\ bareAsModel
                   /\ RefOpsFollow(o.ops.impbare, bare[1] = "required", bare[2] = "readonly", c)
                THEN Say(o.tid, "dev:" \o DevA)
           ELSE IF Dev_AnnotatedAroundQualifier(c) /\ asModel /\ bareAsModel THEN Say(o.tid, "dev:" \o DevB)
           ELSE Say(o.tid, "viol:OperationsFollowDeclaration@impbare"))

JudgeCtor(o) ==
    LET c == o.c
        n == Len(o.insp)
        shaped == o.sig.t = "Sig" /\ Len(o.sig.a) = n + 1 /\ \A i \in 1..n : o.sig.a[i].t = "Param"
        modelType == IF ImplInitParamType(c) = "int" THEN IntT ELSE V("Generic", "InitVar", <<IntT>>)
        asModel == shaped /\ \A i \in 1..n : o.sig.a[i].a[3] = (IF o.sig.a[i].n = "a" THEN modelType ELSE IntT)
    IN /\ (IF PyInitParams(c) = o.insp THEN TRUE ELSE Say(o.tid, "oracle:PyInitParams"))
       /\ (IF asModel THEN TRUE ELSE Say(o.tid, "drift:sig"))
       /\ (IF shaped /\ \A i \in 1..n : /\ o.sig.a[i].n = o.insp[i][1] /\ o.sig.a[i].a[1].n = o.insp[i][2]
                                        /\ (o.sig.a[i].a[2].t = "nodefault") = (o.insp[i][3] = "nodefault")
           THEN TRUE ELSE Say(o.tid, "viol:ConstructorMatchesInspect"))
       /\ (IF shaped /\ \A i \in 1..n : o.sig.a[i].a[3] = IntT THEN TRUE
           ELSE IF Dev_InitVarInString(c) /\ asModel THEN Say(o.tid, "dev:" \o DevC)
           ELSE Say(o.tid, "viol:ConstructorTyped"))
       /\ \A m \in {"defmod", "imp"}, k \in CallNames :
             IF (o.calls[m][k] # << >>) = RefCallRejected(k, c) THEN TRUE
             ELSE IF Dev_InitVarInString(c) /\ asModel THEN Say(o.tid, "dev:" \o DevC)
             ELSE Say(o.tid, "viol:ConstructorCall@" \o m)
       /\ (IF o.calls.defmod = o.calls.imp THEN TRUE ELSE Say(o.tid, "viol:CallJudgedIdentically"))

JudgeDecl(o) == IF o.c.kind = "td" THEN JudgeTd(o) ELSE JudgeCtor(o)

TInit == l = 1 /\ DInit
TNext ==
    /\ l <= Len(Obs)
    /\ JudgeDecl(Obs[l])
    /\ l' = l + 1
    /\ UNCHANGED dvars
=============================================================================
