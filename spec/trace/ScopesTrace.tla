----------------------------- MODULE ScopesTrace -----------------------------
(* Trace specification for C09.  One observation per checked function body:                         *)
(*   {tid, prog, uses: [[useid, [def ids reported by the real checker, 0 = (possibly) undefined]], ...]} *)
(* TLC computes the strict / liberal reaching definitions of the recorded program (CFG.tla) and      *)
(* judges the real report; the model of the scope machinery (Scopes.tla) is compared for drift.      *)
EXTENDS ScopeGen, Json, IOUtils

Obs == ndJsonDeserialize(IOEnv.TRACE_FILE)
VARIABLE l
Say(tid, v) == PrintT(<<"VERDICT", tid, v>>)
Chk(cond, tid, v) == IF cond THEN TRUE ELSE Say(tid, v)

Judge(o) ==
    LET rs == Reaching(o.prog, "strict")
        rl == Reaching(o.prog, "liberal")
        us == ImplUsage(o.prog)
    IN \A i \in 1..Len(o.uses) :
        LET u == o.uses[i][1]
            reported == ToSet(o.uses[i][2])
            v == UseVerdict2(o.prog, rs, rl, u, reported)
        IN /\ Chk(v = "ok", o.tid, IF v = "viol" THEN "viol:ReachingDefinitions" ELSE v)
           /\ Chk(reported = ReportedFrom(us, u), o.tid, "drift:reported")

TInit == l = 1 /\ GInit
TNext == l <= Len(Obs) /\ Judge(Obs[l]) /\ l' = l + 1 /\ UNCHANGED gvars
=============================================================================
