----------------------------- MODULE ScopesTrace -----------------------------
(* Trace specification for C09.  One observation per checked function body:                         *)
(*   {tid, prog, uses: [[useid, [def ids reported by the real checker, 0 = (possibly) undefined]], ...]} *)
(*    unused: [ids of the bindings reported as unused_variable / unused_assignment]                   *)
(*    marks: [[useid, 1 iff usage_to_definition_nodes has no entry for the use or holds the          *)
(*            _UNINITIALIZED marker]] -- only for observations read from the function scope           *)
(* TLC computes the strict / liberal reaching definitions of the recorded program (CFG.tla) and      *)
(* judges the real report; the model of the scope machinery (Scopes.tla) is compared for drift.      *)
EXTENDS ScopeGen, Json, IOUtils

Obs == ndJsonDeserialize(IOEnv.TRACE_FILE)
VARIABLE l
Say(tid, v) == PrintT(<<"VERDICT", tid, v>>)
Chk(cond, tid, v) == IF cond THEN TRUE ELSE Say(tid, v)

Judge(o) ==
    LET rs == Reaching(o.prog, "strict")
        rl == Reaching(o.prog, "liberal")
        F == ImplFinal(o.prog)
        us == F.usage
        unused == ToSet(o.unused)
    IN /\ \A dv \in NameDefs(o.prog) :
        LET rep == dv[1] \in unused
            model == ImplReportedUnused(o.prog, F, dv[1], dv[2])
            w0 == DefVerdict2(o.prog, rs, rl, dv[1], rep)
            \* as below: a known deviation excuses a false "unused" only when the model reproduces it
            w == IF w0 \notin {"ok", "viol", "info"} /\ rep # model THEN "viol" ELSE w0
        IN /\ Chk(w = "ok", o.tid, IF w = "viol" THEN "viol:UsedAssignmentReportedUnused"
                                   ELSE IF w = "info" THEN "info:UnusedAssignmentNotReported" ELSE w)
           /\ Chk(rep = model, o.tid, "drift:unused")
       \* the unbound marker in the scope state and the (possibly) undefined-name diagnostic must go together
       /\ \A i \in 1..Len(o.marks) :
            Chk(\A j \in 1..Len(o.uses) : o.uses[j][1] = o.marks[i][1] => ((0 \in ToSet(o.uses[j][2])) <=> (o.marks[i][2] = 1)),
                o.tid, "drift:uninit-marker-vs-diagnostic")
       /\ \A i \in 1..Len(o.uses) :
        LET u == o.uses[i][1]
            reported == ToSet(o.uses[i][2])
            v0 == UseVerdict2(o.prog, rs, rl, u, reported)
            \* a known deviation excuses a failure only when the model of the deviating mechanism (Scopes.tla)
            \* reproduces the observed report exactly; any other failure in such a program is a violation
            v == IF v0 \notin {"ok", "viol"} /\ reported # ReportedFrom(us, u) THEN "viol" ELSE v0
        IN /\ Chk(v = "ok", o.tid, IF v = "viol" THEN "viol:ReachingDefinitions" ELSE v)
           /\ Chk(reported = ReportedFrom(us, u), o.tid, "drift:reported")

TInit == l = 1 /\ GInit
TNext == l <= Len(Obs) /\ Judge(Obs[l]) /\ l' = l + 1 /\ UNCHANGED gvars
=============================================================================
