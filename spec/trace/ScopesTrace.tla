----------------------------- MODULE ScopesTrace -----------------------------
(* Trace specification for C09.  One observation per checked function body:                         *)
(*   {tid, prog, uses: [[useid, [def ids reported by the real checker, 0 = (possibly) undefined]], ...]} *)
(* TLC computes the strict / liberal reaching definitions of the recorded program (CFG.tla) and      *)
(* judges the real report; the model of the scope machinery (Scopes.tla) is compared for drift.      *)
EXTENDS ScopeGen, Json, IOUtils

Obs == ndJsonDeserialize(IOEnv.TRACE_FILE)
VARIABLE l
Say(tid, v) == PrintT(<<"VERDICT", tid, v>>)
Chk(cond, tid, v) == IF cond THEN TRUE ELSE Say(tid, v)

Judge(o) ==
    LET rs == Reaching(o.prog, "strict")
        rl == Reaching(o.prog, "liberal")
        us == ImplUsage(o.prog)
    IN \A i \in 1..Len(o.uses) :
        LET u == o.uses[i][1]
            reported == ToSet(o.uses[i][2])
            v0 == UseVerdict2(o.prog, rs, rl, u, reported)
            \* a known deviation excuses a failure only when the model of the deviating mechanism (Scopes.tla)
            \* reproduces the observed report exactly; any other failure in such a program is a violation
            v == IF v0 \notin {"ok", "viol"} /\ reported # ReportedFrom(us, u) THEN "viol" ELSE v0
        IN /\ Chk(v = "ok", o.tid, IF v = "viol" THEN "viol:ReachingDefinitions" ELSE v)
           /\ Chk(reported = ReportedFrom(us, u), o.tid, "drift:reported")

TInit == l = 1 /\ GInit
TNext == l <= Len(Obs) /\ Judge(Obs[l]) /\ l' = l + 1 /\ UNCHANGED gvars
=============================================================================
