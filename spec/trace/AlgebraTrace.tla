----------------------------- MODULE AlgebraTrace -----------------------------
(* Trace specification for C14.  One observation per triple (a, b, c) and type-variable map m, carrying  *)
(* what the real pyanalyze.value functions returned:                                                      *)
(*   u_aa, u_ab, u_ba, u_ab_c, u_a_bc, u_an, u_na : results of unite_values as terms                      *)
(*   eq_*  : real `==` between those results;  eq_ab / hash_ab : a == b, hash(a) == hash(b)               *)
(*   acc_a, acc_b : unite(a, b).can_assign(a / b)                                                        *)
(*   s_a : a.substitute_typevars(m);  s_uab : unite(a,b).substitute_typevars(m);  u_sab : unite(subst a, subst b) *)
(*   eq_subst_closed : a.substitute_typevars(m) == a ;  eq_subst_unite : s_uab == u_sab                   *)
(* TLC judges the laws on the REAL results (Members / NoNestedUnion / FreeVars are evaluated on the real  *)
(* result terms) and compares the results with the model (drift).                                         *)
EXTENDS Algebra, Json, IOUtils

Obs == ndJsonDeserialize(IOEnv.TRACE_FILE)
VARIABLE l
Say(tid, v) == PrintT(<<"VERDICT", tid, v>>)
Chk(cond, tid, v) == IF cond THEN TRUE ELSE Say(tid, v)

UnhashAny(o) == Dev_UnhashableLiteral(o.a) \/ Dev_UnhashableLiteral(o.b) \/ Dev_UnhashableLiteral(o.c)

Judge(o) ==
    LET a == o.a  b == o.b  c == o.c  m == MapOf(o.m)
    IN \* drift: model vs real results
       /\ Chk(o.u_ab = U2(a, b) /\ o.u_ba = U2(b, a) /\ o.u_aa = U2(a, a), o.tid, "drift:unite")
       /\ Chk(o.u_ab_c = U2(U2(a, b), c) /\ o.u_a_bc = U2(a, U2(b, c)), o.tid, "drift:unite3")
       /\ Chk(o.eq_ab = ImplEqV(a, b), o.tid, "drift:eq")
       /\ Chk(o.s_a = ImplSubst(a, m) /\ o.s_uab = ImplSubst(U2(a, b), m), o.tid, "drift:subst")
       \* the laws on the real results.  A failure is classified as a known deviation (dev:) only if the operands are in the
       \* deviation class AND the real results are exactly what the model of the deviating mechanism predicts AND the model
       \* itself fails the law there; any other failure is a violation.
       /\ Chk(o.eq_idem, o.tid,
              IF Dev_UnhashableLiteral(a) /\ o.u_aa = U2(a, a) /\ ~ImplEqV(U2(a, a), a)
              THEN "dev:unhashable-literal-not-merged" ELSE "viol:Idempotent")
       /\ Chk(o.eq_comm, o.tid,
              IF (Dev_UnhashableLiteral(a) \/ Dev_UnhashableLiteral(b)) /\ o.u_ab = U2(a, b) /\ o.u_ba = U2(b, a) /\ ~ImplEqV(U2(a, b), U2(b, a))
              THEN "dev:unhashable-literal-not-merged" ELSE "viol:Commutative")
       /\ Chk(o.eq_assoc, o.tid,
              IF UnhashAny(o) /\ o.u_ab_c = U2(U2(a, b), c) /\ o.u_a_bc = U2(a, U2(b, c)) /\ ~ImplEqV(U2(U2(a, b), c), U2(a, U2(b, c)))
              THEN "dev:unhashable-literal-not-merged" ELSE "viol:Associative")
       /\ Chk(NoNestedUnion(o.u_ab) /\ NoNestedUnion(o.u_ab_c), o.tid, "viol:NeverNests")
       /\ Chk(o.eq_never_r /\ o.eq_never_l, o.tid, "viol:NeverIdentity")
       /\ Chk((Closed(a) /\ Closed(b) /\ StaticV(a) /\ StaticV(b)) => (o.acc_a /\ o.acc_b), o.tid, "viol:AcceptsOperands")
       /\ Chk((Closed(a) /\ Closed(b) /\ StaticV(a) /\ StaticV(b) /\ Closed(o.u_ab) /\ ~HasTD(a) /\ ~HasTD(b)) => Members(o.u_ab) = Members(a) \cup Members(b),
              o.tid, "viol:MembersAreUnion")
       /\ Chk(o.eq_ab => o.hash_ab, o.tid,
              IF Dev_UnhashableLiteral(a) /\ ImplEqV(a, b) /\ ~ImplSameHash(a, b)
              THEN "dev:unhashable-literal-hashes-by-identity" ELSE "viol:EqualImpliesHashEqual")
       /\ Chk(Closed(a) => o.eq_subst_closed, o.tid, "viol:SubstIdentityOnClosed")
       /\ Chk(FreeVars(o.s_a) \cap DOMAIN m = {}, o.tid, "viol:SubstReplacesAll")
       /\ Chk(o.eq_subst_unite, o.tid,
              IF /\ (Dev_UnhashableLiteral(a) \/ Dev_UnhashableLiteral(b))
                 /\ o.s_uab = ImplSubst(U2(a, b), m) /\ o.u_sab = U2(ImplSubst(a, m), ImplSubst(b, m))
                 /\ ~ImplEqV(ImplSubst(U2(a, b), m), U2(ImplSubst(a, m), ImplSubst(b, m)))
              THEN "dev:unhashable-literal-not-merged" ELSE "viol:SubstCommutesWithUnite")

TInit == l = 1 /\ stage = "trace" /\ ta = Never /\ tb = Never /\ ob = NONE /\ tc = Never /\ tm = "T->int"
TNext == l <= Len(Obs) /\ Judge(Obs[l]) /\ l' = l + 1 /\ UNCHANGED avars
=============================================================================
