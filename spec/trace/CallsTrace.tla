----------------------------- MODULE CallsTrace -----------------------------
(* Trace specification for C06.  One observation per line:                                        *)
(*   {tid, fn, shape, pos, kw,     the call (function id of Calls!Lib, literal arguments)         *)
(*    nia, nic,                    what the real visitor reported on the call line                 *)
(*                                 (numbers of incompatible_argument / incompatible_call)         *)
(*    inferred,                    the value the real visitor inferred for the call node           *)
(*    solved, sigma,               whether resolve_bounds_map ran and what it returned per type    *)
(*                                 variable (aligned with fn.tvs)                                  *)
(*    real: {raised, o, bindfail}} what REAL CPython did when the call was executed                *)
(* TLC first validates the oracle models against real CPython (RefBinds, RefResult), then judges   *)
(* the property on the recorded real behaviour, then compares with the Impl model (drift).         *)
EXTENDS Calls, Json, IOUtils

Obs == ndJsonDeserialize(IOEnv.TRACE_FILE)
VARIABLE l
Say(tid, v) == PrintT(<<"VERDICT", tid, v>>)
Chk(cond, tid, v) == IF cond THEN TRUE ELSE Say(tid, v)

Judge(o) ==
    LET fn == FnOf(o.fn)
        call == [fn |-> o.fn, shape |-> o.shape, pos |-> o.pos, kw |-> o.kw]
        real == [nia |-> o.nia, nic |-> o.nic, inferred |-> o.inferred, solved |-> o.solved, sigma |-> o.sigma]
        binds == RefBinds(RefParams(fn), call)
    IN IF o.real.bindfail = binds THEN Say(o.tid, "oracle:binding")
       ELSE IF ~binds THEN TRUE          \* the property is about calls that bind
       ELSE LET bad == RefBad(fn, call)
                exp == RefResult(fn, call)
                m == ImplCall(fn, call)
                \* a known deviation excuses only what the model of the deviating mechanism reproduces exactly:
                \* the same diagnostics and the same inferred value
                asmodel == o.nia = m.nia /\ o.nic = m.nic /\ o.inferred = m.inferred
                excused == Excused(fn, call, real) /\ asmodel
            IN /\ Chk(bad \/ (exp.raised = o.real.raised /\ (exp.raised \/ exp.o = o.real.o)), o.tid, "oracle:result")
               /\ Chk(DiagnosisOK(fn, call, real), o.tid,
                      IF excused THEN "dev:" \o DevClass(fn, call) ELSE "viol:Diagnosis")
               /\ Chk(ResultOK(fn, call, real, o.real), o.tid,
                      IF excused THEN "dev:" \o DevClass(fn, call) ELSE "viol:ResultInInferred")
               /\ Chk(SolutionOK(fn, call, real), o.tid, "viol:SolutionFitsArguments")
               /\ Chk(o.nia = m.nia /\ o.nic = m.nic, o.tid, "drift:diagnostics")
               /\ Chk(o.inferred = m.inferred, o.tid, "drift:inferred")
               /\ Chk(o.solved = m.solved /\ o.sigma = m.sigma, o.tid, "drift:solution")

\* kind "sess": {tid, calls: [{fn, arg}], acc: [accepted?], inferred: [...], real: [{raised, o}]} -- several
\* calls checked in one fresh run of the checker (Calls.tla, Sessions)
JudgeSess(o) ==
    \A i \in 1..Len(o.calls) :
        LET bad == RefSessBad(o.calls[i])
        IN /\ Chk(bad \/ (~o.real[i].raised /\ o.real[i].o = o.calls[i].arg), o.tid, "oracle:result")
           /\ Chk(SessDiagnosisOK(o.calls, i, o.acc[i]), o.tid,
                  IF SessExcused(o.calls, i, o.acc[i]) THEN "dev:" \o SessDevClass(o.calls, i) ELSE "viol:Diagnosis")
           /\ Chk(SessResultOK(o.calls, i, o.inferred[i], o.real[i]), o.tid, "viol:ResultInInferred")
           /\ Chk(o.acc[i] = ImplSessAccepted(o.calls, i), o.tid, "drift:diagnostics")
           /\ Chk(o.inferred[i] = IterOf(ProtoFn(o.calls[i].fn).x), o.tid, "drift:inferred")

TInit == l = 1 /\ CInit
TNext ==
    /\ l <= Len(Obs)
    /\ IF Obs[l].kind = "sess" THEN JudgeSess(Obs[l]) ELSE Judge(Obs[l])
    /\ l' = l + 1 /\ UNCHANGED cvars
=============================================================================
