---------------------------- MODULE PercentFields ----------------------------
(***************************************************************************)
(* Specifier-structured generator for property C17, %-formatting.          *)
(*                                                                         *)
(* PercentFormat.tla enumerates templates token by token and spends most   *)
(* of its budget on malformed prefixes.  This module builds the template   *)
(* from ITEMS instead:                                                     *)
(*   item  = literal text | "%%" | conversion specifier                    *)
(*   specifier = "%" [ "(" key ")" ] flags [ width ] [ precision ]         *)
(*               [ length modifier ] conversion                            *)
(* one FIELD per step, each field rendered to characters as soon as it is  *)
(* chosen, so that `case` stays the [kind, t, args] record of              *)
(* PercentFormat.tla and ALL its operators (RefRun, ImplMsgs, the Dev_     *)
(* classes, the invariants Soundness / Precision / ResultType / NoCrash)   *)
(* and its trace specification apply unchanged.  Nothing in this module    *)
(* is an oracle: it only decides WHICH cases are looked at.                *)
(*                                                                         *)
(* Arguments are drawn around the arity the template asks for: the         *)
(* generator keeps a slot plan (one "star" per `*` width, one per `*`      *)
(* precision, one "conv" per conversion other than %) and produces         *)
(*   - scalars,                                                            *)
(*   - tuples of length |plan| - 1, |plan|, |plan| + 1 whose elements fit  *)
(*     the slot (an int for a star slot) or misfit it (at most SMaxMis     *)
(*     misfits per tuple), conversion slots range over SConvVals,          *)
(*   - dicts over SDictKeys x SDictVals (two entries only when the         *)
(*     template has a mapping key).                                        *)
(* The menus are indexed by the item position, so that a configuration     *)
(* can give the second specifier a different (smaller) menu.               *)
(***************************************************************************)
EXTENDS PercentFormat

CONSTANTS
    SKinds,          \* subset of {"str", "bytes"}
    SMaxItems,       \* number of items of a template (1 or 2)
    SLits,           \* <<set of character sequences>> per position: literal text and "%%"
    SKeys,           \* per position: set of key texts, << >> = no mapping key
    SFlags,          \* per position: set of flag-character sequences
    SWidths,         \* per position: subset of {"none", "num", "star"}
    SPrecs,          \* per position: subset of {"none", "dot", "num", "star"}
    SLens,           \* per position: set of length-modifier sequences (<< >> = none)
    SConvs,          \* per position: set of conversion characters ({} = no specifier at this position)
    SShapes,         \* subset of {"scalar", "tuple", "dict"}
    SScalarVals,
    SStarFit, SStarMis, SMaxMis,      \* values for a star slot: fitting / misfitting, misfits per tuple
    SConvVals,       \* values for a conversion slot
    SExtraVals,      \* value of the one element beyond the plan
    SDictKeys, SDictVals, SMaxDict

VARIABLES slots, nmis
svars == <<case, stage, ntok, slots, nmis>>

WidthTxt(w) == CASE w = "none" -> << >> [] w = "num" -> <<"1", "0">> [] w = "star" -> <<"*">>
PrecTxt(p)  == CASE p = "none" -> << >> [] p = "dot" -> <<".">> [] p = "num" -> <<".", "2">> [] p = "star" -> <<".", "*">>
KeyTxt(k)   == IF k = << >> THEN << >> ELSE <<"(">> \o k \o <<")">>

Pos == ntok + 1                          \* position of the item being built
TemplateHasKey(t) == \E j \in 1..Len(t) : t[j] = "%" /\ At(t, j + 1) = "("

SInit == case = Blank /\ stage = "kind" /\ ntok = 0 /\ slots = << >> /\ nmis = 0

SChooseKind ==
    /\ stage = "kind"
    /\ \E kd \in SKinds : case' = [case EXCEPT !.kind = kd]
    /\ stage' = "item" /\ UNCHANGED <<ntok, slots, nmis>>

\* a literal item (text or the "%%" escape); two steps so that a random walk (TLC -simulate picks uniformly
\* among the successor STATES) chooses literal / specifier / end of template with equal weight
SBeginLiteral ==
    /\ stage = "item" /\ ntok < SMaxItems /\ SLits[Pos] # {}
    /\ stage' = "f-lit" /\ UNCHANGED <<case, ntok, slots, nmis>>

SAddLiteral ==
    /\ stage = "f-lit"
    /\ \E txt \in SLits[Pos] : case' = [case EXCEPT !.t = @ \o txt]
    /\ ntok' = ntok + 1 /\ stage' = "item" /\ UNCHANGED <<slots, nmis>>

\* a conversion specifier, field by field
SBeginSpec ==
    /\ stage = "item" /\ ntok < SMaxItems /\ SConvs[Pos] # {}
    /\ case' = [case EXCEPT !.t = Append(@, "%")]
    /\ stage' = "f-key" /\ UNCHANGED <<ntok, slots, nmis>>

SKeyField ==
    /\ stage = "f-key"
    /\ \E k \in SKeys[Pos] : case' = [case EXCEPT !.t = @ \o KeyTxt(k)]
    /\ stage' = "f-flags" /\ UNCHANGED <<ntok, slots, nmis>>

SFlagsField ==
    /\ stage = "f-flags"
    /\ \E f \in SFlags[Pos] : case' = [case EXCEPT !.t = @ \o f]
    /\ stage' = "f-width" /\ UNCHANGED <<ntok, slots, nmis>>

SWidthField ==
    /\ stage = "f-width"
    /\ \E w \in SWidths[Pos] :
         /\ case' = [case EXCEPT !.t = @ \o WidthTxt(w)]
         /\ slots' = IF w = "star" THEN Append(slots, "star") ELSE slots
    /\ stage' = "f-prec" /\ UNCHANGED <<ntok, nmis>>

SPrecField ==
    /\ stage = "f-prec"
    /\ \E p \in SPrecs[Pos] :
         /\ case' = [case EXCEPT !.t = @ \o PrecTxt(p)]
         /\ slots' = IF p = "star" THEN Append(slots, "star") ELSE slots
    /\ stage' = "f-len" /\ UNCHANGED <<ntok, nmis>>

SLenField ==
    /\ stage = "f-len"
    /\ \E lm \in SLens[Pos] : case' = [case EXCEPT !.t = @ \o lm]
    /\ stage' = "f-conv" /\ UNCHANGED <<ntok, slots, nmis>>

SConvField ==
    /\ stage = "f-conv"
    /\ \E ch \in SConvs[Pos] :
         /\ case' = [case EXCEPT !.t = Append(@, ch)]
         /\ slots' = IF ch = "%" THEN slots ELSE Append(slots, "conv")
    /\ ntok' = ntok + 1 /\ stage' = "item" /\ UNCHANGED nmis

SEndTemplate ==
    /\ stage = "item" /\ ntok >= 1
    /\ stage' = "shape" /\ UNCHANGED <<case, ntok, slots, nmis>>

SChooseShape ==
    /\ stage = "shape"
    /\ \E sh \in SShapes : case' = [case EXCEPT !.args.shape = sh]
    /\ stage' = "items" /\ UNCHANGED <<ntok, slots, nmis>>

DictBound == IF TemplateHasKey(case.t) THEN SMaxDict ELSE (IF SMaxDict > 1 THEN 1 ELSE SMaxDict)

SAddArg ==
    /\ stage = "items"
    /\ \/ /\ case.args.shape = "scalar" /\ case.args.items = << >>
          /\ \E v \in SScalarVals : case' = [case EXCEPT !.args.items = <<v>>]
          /\ stage' = "done" /\ UNCHANGED nmis
       \/ /\ case.args.shape = "tuple" /\ Len(case.args.items) < Len(slots) + 1
          /\ LET j == Len(case.args.items) + 1 IN
             IF j > Len(slots) THEN
                 /\ \E v \in SExtraVals : case' = [case EXCEPT !.args.items = Append(@, v)]
                 /\ UNCHANGED nmis
             ELSE IF slots[j] = "conv" THEN
                 /\ \E v \in SConvVals : case' = [case EXCEPT !.args.items = Append(@, v)]
                 /\ UNCHANGED nmis
             ELSE \/ /\ \E v \in SStarFit : case' = [case EXCEPT !.args.items = Append(@, v)]
                     /\ UNCHANGED nmis
                  \/ /\ nmis < SMaxMis
                     /\ \E v \in SStarMis : case' = [case EXCEPT !.args.items = Append(@, v)]
                     /\ nmis' = nmis + 1
          /\ UNCHANGED stage
       \/ /\ case.args.shape = "dict" /\ Len(case.args.items) < DictBound
          /\ \E v \in SDictVals, key \in SDictKeys :
               /\ \A j \in 1..Len(case.args.keys) : case.args.keys[j] # key
               /\ case' = [case EXCEPT !.args.items = Append(@, v), !.args.keys = Append(@, key)]
          /\ UNCHANGED <<stage, nmis>>
    /\ UNCHANGED <<ntok, slots>>

SFinish ==
    /\ stage = "items"
    /\ \/ case.args.shape = "dict"
       \/ /\ case.args.shape = "tuple"
          /\ Len(case.args.items) + 1 >= Len(slots) /\ Len(case.args.items) <= Len(slots) + 1
    /\ stage' = "done" /\ UNCHANGED <<case, ntok, slots, nmis>>

SNext == SChooseKind \/ SBeginLiteral \/ SAddLiteral \/ SBeginSpec \/ SKeyField \/ SFlagsField \/ SWidthField \/ SPrecField
         \/ SLenField \/ SConvField \/ SEndTemplate \/ SChooseShape \/ SAddArg \/ SFinish

(***************************************************************************)
(* Menus (cfg files substitute them for the constants)                     *)
(***************************************************************************)
NoKey == << >>
AllConvs == {"d", "i", "o", "u", "x", "X", "e", "E", "f", "F", "g", "G", "c", "r", "s", "a", "b", "%"}
AllWidths == {"none", "num", "star"}
AllPrecs == {"none", "dot", "num", "star"}
AllLens == { << >>, <<"h">>, <<"l">>, <<"L">> }
\* every subset of the five flag characters with at most two elements (one order each)
AllFlags == { << >>, <<"-">>, <<"+">>, <<" ">>, <<"#">>, <<"0">>,
              <<"-", "+">>, <<"-", " ">>, <<"-", "#">>, <<"-", "0">>, <<"+", " ">>, <<"+", "#">>, <<"+", "0">>,
              <<" ", "#">>, <<" ", "0">>, <<"#", "0">> }
Lits == { <<"z">>, <<"%", "%">> }
SKStr(chars) == [ty |-> "str", chars |-> chars]
SDKeys == { SKStr(<<"k">>), SKStr(<<"k", "2">>), [ty |-> "bytes", chars |-> <<"k">>], [ty |-> "int", chars |-> <<"1">>] }

\* quick, exhaustively replayed: one specifier, every width x precision x key/no key, representative
\* conversions of each argument class, one flag, no length modifier
Q1Lits   == << Lits >>
Q1Keys   == << { NoKey, <<"k">> } >>
Q1Flags  == << { << >>, <<"-">> } >>
Q1Widths == << AllWidths >>
Q1Precs  == << AllPrecs >>
Q1Lens   == << { << >> } >>
Q1Convs  == << {"d", "x", "c", "s", "%"} >>
Q1Scalar == {"i1", "f15", "sa", "ba"}
Q1Conv   == {"i1", "f15", "sa", "ba"}
Q1DKeys  == { SKStr(<<"k">>), [ty |-> "bytes", chars |-> <<"k">>] }
Q1DVals  == {"i1", "ba"}
StarFit1 == {"i1"}
StarMis1 == {"sa"}
Extra1   == {"i1"}

\* quick, exhaustively replayed: keyed specifiers against dicts of up to TWO entries (both spellings of a key,
\* a second key, keyed + unkeyed specifier)
K2Lits   == << {}, {} >>
K2Keys   == << { <<"k">> }, { NoKey, <<"k", "2">> } >>
K2Plain  == << { << >> }, { << >> } >>
K2None   == << {"none"}, {"none"} >>
K2Convs  == << {"d", "s"}, {"s"} >>
K2DKeys  == { SKStr(<<"k">>), SKStr(<<"k", "2">>), [ty |-> "bytes", chars |-> <<"k">>] }
K2DVals  == {"i1", "sa", "ba"}

\* quick, exhaustively replayed: EVERY conversion character (and an unsupported one) x every length modifier,
\* no other field, against every argument class
C1Keys   == << { NoKey } >>
C1Plain  == << { << >> } >>
C1None   == << {"none"} >>
C1Lens   == << AllLens >>
C1Convs  == << AllConvs \cup {"z"} >>
C1Scalar == {"i1", "i300", "f15", "sa", "ba", "none"}

\* all fields: one specifier over the complete field menus (thorough: exhaustive; quick: simulation)
F1Lits   == << Lits >>
F1Keys   == << { NoKey, <<"k">>, <<"k", "2">> } >>
F1Flags  == << AllFlags >>
F1Widths == << AllWidths >>
F1Precs  == << AllPrecs >>
F1Lens   == << AllLens >>
F1Convs  == << AllConvs \cup {"z"} >>
F1Scalar == {"i1", "i300", "f15", "sa", "ba", "none"}
F1Conv   == {"i1", "f15", "sa", "ba"}
F1DVals  == {"i1", "ba"}
StarMisF == {"sa", "f15"}

\* two items over the complete field menus (simulation only)
F2Lits   == << Lits, Lits >>
F2Keys   == << F1Keys[1], F1Keys[1] >>
F2Flags  == << AllFlags, AllFlags >>
F2Widths == << AllWidths, AllWidths >>
F2Precs  == << AllPrecs, AllPrecs >>
F2Lens   == << AllLens, AllLens >>
F2Convs  == << F1Convs[1], F1Convs[1] >>
SimVals  == {"i1", "i255", "i300", "in1", "true", "f15", "none", "sa", "sab", "ba", "bab"}
StarMisS == {"sa", "f15", "none"}

\* two specifiers, exhaustive: arity and key/positional interplay of two specifiers (stars spread over
\* both, `*.*` in either, keyed + unkeyed)
T2Lits   == << Lits, Lits >>
T2Keys   == << { NoKey, <<"k">> }, { NoKey, <<"k">>, <<"k", "2">> } >>
T2Flags  == << { << >> }, { << >> } >>
T2Widths == << AllWidths, {"none", "star"} >>
T2Precs  == << {"none", "num", "star"}, {"none", "star"} >>
T2Lens   == << { << >> }, { << >> } >>
T2Convs  == << {"d", "x", "c", "s", "%"}, {"d", "s", "%"} >>
T2DKeys  == { SKStr(<<"k">>), SKStr(<<"k", "2">>), [ty |-> "bytes", chars |-> <<"k">>] }
T2Conv   == {"i1", "f15", "sa", "ba"}
\* the same in miniature for the quick tier
M2Lits   == << { <<"%", "%">> }, { <<"z">> } >>
M2Keys   == << { NoKey, <<"k">> }, { NoKey, <<"k">> } >>
M2Flags  == << { << >> }, { << >> } >>
M2Widths == << {"none", "star"}, {"none"} >>
M2Precs  == << {"none", "star"}, {"none", "star"} >>
M2Lens   == << { << >> }, { << >> } >>
M2Convs  == << {"d", "s"}, {"s", "%"} >>
M2Conv   == {"i1", "sa"}
M2Scalar == {"i1"}
M2DVals  == {"i1"}
=============================================================================
