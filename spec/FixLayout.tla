------------------------------ MODULE FixLayout ------------------------------
(***************************************************************************)
(* Replacement fixes and ignore insertion as operations on the TEXT of a   *)
(* file (property C16): which physical lines does a fix delete / rewrite,  *)
(* and is that exactly the statement it was proposed for?                  *)
(*                                                                         *)
(* A file is a sequence of physical line records.  A line is described by  *)
(* the lexical facts the fixer's heuristics look at, plus the two facts    *)
(* the property needs to say whether a comment line may be inserted above: *)
(*   ind    indentation in units of four blanks                            *)
(*   head   class of the first non-blank character: "none" (blank line),   *)
(*          "closer" ( one of ) ] } ), "other"                             *)
(*   lone   "dq" / "sq" if the stripped line is exactly three double /     *)
(*          single quotes, else ""                                         *)
(*   dq,sq  the line contains three double / single quotes somewhere       *)
(*   bs     the line ends with a backslash continuation                    *)
(*   instr  the line STARTS inside a string literal opened on an earlier   *)
(*          line                                                           *)
(* A case = one fixable statement (fix kind x layout of the statement over *)
(* physical lines) in a block context, with a menu of lines before / after *)
(* it and the position of the end of the file.  File(c) is the file.       *)
(*                                                                         *)
(* Impl* : analysis_lib.get_line_range_for_node (:51-94) incl. its         *)
(*   is_part_of_same_node heuristics, node_visitor.replace_node /          *)
(*   remove_node (:1135-1166), the add_ignores replacement of show_error   *)
(*   (:737-748) and _apply_changes_to_lines (:521-539).                    *)
(* Ref*  : what the property demands of a line-based fix, from first       *)
(*   principles: exactly the physical lines of the statement (decorators   *)
(*   included; CPython's lineno/end_lineno are the oracle for the extent,  *)
(*   recorded by the driver and compared with the layout table below) are  *)
(*   replaced, those lines hold nothing but that statement, a removal does *)
(*   not empty its block, and a comment line is only inserted where a      *)
(*   comment line is a lexical no-op (not inside a string literal, not     *)
(*   after a backslash continuation).                                      *)
(* The real outcome (parses, AST = AST of the intended program, diagnostic *)
(* gone, loop ends clean) is recorded by harness/drivers/c16c.py and       *)
(* judged by FixLayoutTrace.tla.                                           *)
(***************************************************************************)
EXTENDS Naturals, Sequences, FiniteSets, TLC

CONSTANTS Kinds, Layouts, Blocks, Befores, Afters, Eofs,   \* the menus of this run (subsets of the All* sets)
          AnyLoneDelim                                     \* TRUE only in the sensitivity cfg: a seeded-bug Impl

AllKinds == {"unused_variable", "unused_comp", "use_fstrings", "missing_f", "too_many_positional_args",
             "missing_await", "ignore"}
Mode(k) == IF k = "ignore" THEN "ignore" ELSE IF k = "unused_variable" THEN "remove" ELSE "replace"

(***************************************************************************)
(* Lines                                                                   *)
(***************************************************************************)
Ln(i, h, lo, d, s, b, ins) == [ind |-> i, head |-> h, lone |-> lo, dq |-> d, sq |-> s, bs |-> b, instr |-> ins]
Code(i)    == Ln(i, "other", "", FALSE, FALSE, FALSE, FALSE)    \* code or comment line
CodeDq(i)  == Ln(i, "other", "", TRUE, FALSE, FALSE, FALSE)     \* ... containing """ (a one-line / opening string, or in a comment)
CodeSq(i)  == Ln(i, "other", "", FALSE, TRUE, FALSE, FALSE)
Bs(i)      == Ln(i, "other", "", FALSE, FALSE, TRUE, FALSE)     \* code line ending with a backslash
BsSq(i)    == Ln(i, "other", "", FALSE, TRUE, TRUE, FALSE)
Blank      == Ln(0, "none", "", FALSE, FALSE, FALSE, FALSE)
Closer(i)  == Ln(i, "closer", "", FALSE, FALSE, FALSE, FALSE)
OpenDq(i)  == Ln(i, "other", "dq", TRUE, FALSE, FALSE, FALSE)   \* """ alone, opening a string
CloseDq(i) == Ln(i, "other", "dq", TRUE, FALSE, FALSE, TRUE)    \* """ alone, closing a string
OpenSq(i)  == Ln(i, "other", "sq", FALSE, TRUE, FALSE, FALSE)
CloseSq(i) == Ln(i, "other", "sq", FALSE, TRUE, FALSE, TRUE)
Text(i)    == Ln(i, "other", "", FALSE, FALSE, FALSE, TRUE)     \* content line of a string
TailDq(i)  == Ln(i, "other", "", TRUE, FALSE, FALSE, TRUE)      \* `""")` : closes a string, code follows

(***************************************************************************)
(* Layout of the fixable statement over physical lines (b = its indent)    *)
(***************************************************************************)
AllLayouts == {"single", "trail_comment", "comment_dq", "str_dq", "str_sq", "paren_close", "paren_hang",
               "paren_flush", "backslash", "backslash_flush", "tq_lone", "tq_lone_sq", "tq_closeparen",
               "tq_later_lone", "tq_later_lone_sqfirst", "if_header", "deco_def", "semi_before", "semi_after",
               "oneline_if", "bs_second", "fstr_multi", "tq_then_diag", "deco2_def"}
StmtLines(y, b) ==
    CASE y \in {"single", "trail_comment", "semi_before", "semi_after", "oneline_if"} -> << Code(b) >>
      [] y \in {"comment_dq", "str_dq"}          -> << CodeDq(b) >>
      [] y = "str_sq"                            -> << CodeSq(b) >>
      [] y = "paren_close"                       -> << Code(b), Code(b + 1), Closer(b) >>
      [] y \in {"paren_hang", "if_header"}       -> << Code(b), Code(b + 1) >>
      [] y = "paren_flush"                       -> << Code(b), Code(b) >>
      [] y \in {"backslash", "bs_second"}        -> << Bs(b), Code(b + 1) >>
      [] y = "backslash_flush"                   -> << Bs(b), Code(b) >>
      [] y = "tq_lone"                           -> << CodeDq(b), Text(b), CloseDq(b) >>
      [] y = "tq_lone_sq"                        -> << CodeSq(b), Text(0), CloseSq(0) >>
      [] y \in {"tq_closeparen", "tq_then_diag"} -> << CodeDq(b), Text(0), TailDq(0) >>
      [] y = "tq_later_lone"                     -> << Bs(b), OpenDq(b + 1), Text(0), CloseDq(0) >>
      [] y = "tq_later_lone_sqfirst"             -> << BsSq(b), OpenDq(b + 1), Text(0), CloseDq(0) >>
      [] y = "fstr_multi"                        -> << CodeDq(b), Text(0), CloseDq(0) >>
      [] y = "deco_def"                          -> << Code(b), Code(b), Code(b + 1) >>
      [] y = "deco2_def"                         -> << Code(b), Code(b), Code(b), Code(b + 1) >>
\* line of the layout that CPython reports as the statement's lineno (a def starts at `def`, not at its decorators)
NodeOff(y) == IF y = "deco_def" THEN 2 ELSE IF y = "deco2_def" THEN 3 ELSE 1
\* line of the layout carrying the fixable expression (= the diagnostic's lineno)
DiagOff(y) == CASE y \in {"paren_close", "bs_second", "fstr_multi", "deco2_def"} -> 2 [] y = "tq_then_diag" -> 3 [] OTHER -> 1
\* the statement shares its physical line with other code (`a; b`, `if c: b`)
Shares(y) == y \in {"semi_before", "semi_after", "oneline_if"}
\* number of lines the decompiler prints for the rebuilt statement
Decompiled(y) == CASE y = "if_header" -> 2 [] y = "deco_def" -> 4 [] OTHER -> 1
IgnoreLayouts == {"single", "paren_close", "paren_hang", "backslash", "tq_lone", "tq_closeparen", "semi_before",
                  "bs_second", "fstr_multi", "tq_then_diag", "deco2_def"}
IgnoreOnly == {"bs_second", "fstr_multi", "tq_then_diag", "deco2_def"}
\* layouts whose statement ends with the string / is an expression the kind cannot be embedded in
TupleTail == {"tq_lone", "tq_lone_sq", "tq_closeparen", "tq_later_lone", "tq_later_lone_sqfirst", "backslash",
              "backslash_flush", "if_header", "deco_def"}
LayoutOK(k, y) ==
    /\ (k = "ignore") => y \in IgnoreLayouts
    /\ (k # "ignore") => y \notin IgnoreOnly
    /\ (k = "missing_await") => y \notin TupleTail
    /\ (k = "unused_variable") => y \notin {"if_header", "deco_def"}

(***************************************************************************)
(* Block context, neighbours, end of file                                  *)
(***************************************************************************)
AllBlocks == {"module", "def", "if", "if_else", "try", "for", "with", "class_method", "nested_def"}
Base(bl) == CASE bl = "module" -> 0 [] bl = "def" -> 1 [] OTHER -> 2
BlkHead(bl) == CASE bl = "module" -> << >> [] bl = "def" -> << Code(0) >> [] OTHER -> << Code(0), Code(1) >>
BlkFoot(bl) == CASE bl \in {"if", "for", "with"} -> << Code(1) >>
              [] bl \in {"if_else", "try"}    -> << Code(1), Code(2) >>      \* `else:` / `except ...:` + a statement
              [] OTHER -> << >>
\* (unused variables / missing_f / await only exist inside functions; the helper `deco` is defined after the frame, so
\*  nothing decorated at module level; missing_f is not raised for names of an enclosing function)
BlockOK(k, y, bl) ==
    /\ (bl = "module") => (k \in {"use_fstrings", "ignore"} /\ y \notin {"deco_def", "deco2_def", "oneline_if"})
    /\ (bl = "nested_def") => k # "missing_f"
AfterOK(bl, x) == ~(bl = "module" /\ x = "deco_def")

AllBefores == {"none", "stmt", "comment", "blank", "paren_stmt", "bs_stmt", "dq_block", "doc1"}
BeforeLines(x, b) ==
    CASE x = "none"       -> << >>
      [] x = "stmt"       -> << Code(b) >>
      [] x = "comment"    -> << Code(b) >>
      [] x = "blank"      -> << Code(b), Blank >>
      [] x = "paren_stmt" -> << Code(b), Code(b + 1), Closer(b) >>
      [] x = "bs_stmt"    -> << Bs(b), Code(b + 1) >>
      [] x = "dq_block"   -> << OpenDq(b), Text(b), CloseDq(b) >>
      [] x = "doc1"       -> << CodeDq(b) >>
BeforeHasStmt(x) == x \notin {"none", "comment"}

AllAfters == {"none", "stmt", "blank", "comment", "comment_deep", "dq_block", "sq_block", "dq_block_deep", "doc1",
              "bs_stmt", "deco_def", "two_blocks"}
AfterLines(x, b) ==
    CASE x = "none"          -> << >>
      [] x = "stmt"          -> << Code(b) >>
      [] x = "blank"         -> << Blank, Code(b) >>
      [] x = "comment"       -> << Code(b) >>
      [] x = "comment_deep"  -> << Code(b + 1), Code(b) >>
      [] x = "dq_block"      -> << OpenDq(b), Text(b), CloseDq(b) >>
      [] x = "sq_block"      -> << OpenSq(b), Text(b), CloseSq(b) >>
      [] x = "dq_block_deep" -> << OpenDq(b), Text(b + 1), CloseDq(b) >>
      [] x = "doc1"          -> << CodeDq(b) >>
      [] x = "bs_stmt"       -> << Bs(b), Code(b + 1) >>
      [] x = "deco_def"      -> << Code(b), Code(b), Code(b + 1) >>
      [] x = "two_blocks"    -> << OpenDq(b), Text(b), CloseDq(b), Code(b), OpenDq(b), Text(b), CloseDq(b) >>
AfterHasStmt(x) == x \notin {"none", "comment"}

\* helper definitions (one physical line each): after the frame, or before it when the statement ends the file
Helpers == << Code(0), Code(0), Code(0), Code(0) >>
AllEofs == {"no", "nl", "nonl"}      \* the statement is not / is the last line of the file (with / without newline)
EofOK(bl, a, e) == (e # "no") => (a = "none" /\ BlkFoot(bl) = << >>)

Prefix(c) == (IF c.eof = "no" THEN << >> ELSE Helpers) \o BlkHead(c.block) \o BeforeLines(c.before, Base(c.block))
File(c) == Prefix(c) \o StmtLines(c.layout, Base(c.block)) \o AfterLines(c.after, Base(c.block)) \o BlkFoot(c.block)
           \o (IF c.eof = "no" THEN Helpers ELSE << >>)

\* Ref: the physical extent of the statement (layout table; CPython's parser confirms it per realised file)
ExtFirst(c) == Len(Prefix(c)) + 1
ExtLast(c)  == Len(Prefix(c)) + Len(StmtLines(c.layout, Base(c.block)))
RefDel(c)   == ExtFirst(c) .. ExtLast(c)
NodeLine(c) == ExtFirst(c) + NodeOff(c.layout) - 1
\* (an unused variable is reported at its target, a missing await at the call statement: both on the node's line)
DiagLine(c) == IF c.kind \in {"unused_variable", "missing_await"} THEN NodeLine(c) ELSE ExtFirst(c) + DiagOff(c.layout) - 1

(***************************************************************************)
(* Impl: get_line_range_for_node                                           *)
(***************************************************************************)
Indent(ln) == IF ln.head = "none" THEN 0 ELSE ln.ind                    \* analysis_lib.py:43 get_indentation
ImplSamePart(first, ln) ==                                              \* :69 is_part_of_same_node
    IF Indent(ln) > Indent(first) THEN TRUE                             \* :72
    ELSE IF ln.head = "none" THEN FALSE                                 \* :77 "just a newline"
    ELSE IF Indent(ln) = Indent(first) /\ ln.head = "closer" THEN TRUE  \* :80
    ELSE IF AnyLoneDelim THEN ln.lone # ""                              \* seeded-bug variant (sensitivity cfg only)
    ELSE (first.dq /\ ln.lone = "dq") \/ (first.sq /\ ln.lone = "sq")   \* :83-85
RECURSIVE ImplExtend(_, _, _)
ImplExtend(f, first, last) ==                                           \* :90 while loop; `last` = exclusive end
    IF last - 1 < Len(f) /\ ImplSamePart(f[first], f[last]) THEN ImplExtend(f, first, last + 1) ELSE last
\* :59-67 last_lineno = max(first_lineno + 1, max end_lineno of the child nodes): for a node of two or more lines
\* the loop therefore starts by probing the node's own last line
ImplRange(f, lineno, endl) == lineno .. (ImplExtend(f, lineno, IF endl > lineno + 1 THEN endl ELSE lineno + 1) - 1)

\* replace_node / remove_node (node_visitor.py:1135-1166): range of current_statement, counted from its lineno;
\* lines_to_add = the decompiled statement (replace) / nothing (remove).
\* show_error with add_ignores (:737): Replacement([lineno], [indent + ignore comment, this_line]).
ImplDel(c) == IF Mode(c.kind) = "ignore" THEN {DiagLine(c)} ELSE ImplRange(File(c), NodeLine(c), ExtLast(c))
Adds(c) == CASE Mode(c.kind) = "ignore" -> 2 [] Mode(c.kind) = "remove" -> 0 [] OTHER -> Decompiled(c.layout)

\* _apply_changes_to_lines (:521-539): additions go after the highest deleted line, then the deleted lines are
\* dropped.  Result as a sequence of origins: k = old line k, 0 = added line.
SetMax(S) == CHOOSE x \in S : \A y \in S : y <= x
SetMin(S) == CHOOSE x \in S : \A y \in S : x <= y
ImplApply(n, del, nadds) ==
    LET mx == SetMax(del)
    IN SelectSeq([k \in 1..mx |-> k], LAMBDA k : k \notin del) \o [j \in 1..nadds |-> 0] \o [j \in 1..(n - mx) |-> mx + j]
\* Ref: every line outside the statement survives, in order, around the new text
RefApply(n, first, last, nadds) == [k \in 1..(first - 1) |-> k] \o [j \in 1..nadds |-> 0] \o [j \in 1..(n - last) |-> last + j]

(***************************************************************************)
(* Ref: where may an own-line comment be inserted                          *)
(***************************************************************************)
RefInsertSafe(f, L) == ~f[L].instr /\ (L = 1 \/ ~f[L - 1].bs)

(***************************************************************************)
(* Known deviations of the unchanged implementation (known_findings.jsonl) *)
(* -- each a precise predicate on the case, stated on the lexical facts.   *)
(***************************************************************************)
Fix(c) == Mode(c.kind) # "ignore"
FirstLn(c) == File(c)[NodeLine(c)]
LastLn(c) == File(c)[ExtLast(c)]
HasNext(c) == ExtLast(c) < Len(File(c))
NextLn(c) == File(c)[ExtLast(c) + 1]
\* (a) a statement of two or more lines whose LAST line is not indented deeper than its first line, is not a
\*     closing bracket at the same indentation and is not a lone delimiter that also occurs on the first line:
\*     the range stops short, the tail of the statement stays in the file
Dev_RangeShort(c) ==
    /\ Fix(c) /\ ExtLast(c) > NodeLine(c)
    /\ Indent(LastLn(c)) <= Indent(FirstLn(c))
    /\ ~(Indent(LastLn(c)) = Indent(FirstLn(c)) /\ LastLn(c).head = "closer")
    /\ ~(LastLn(c).lone = "dq" /\ FirstLn(c).dq) /\ ~(LastLn(c).lone = "sq" /\ FirstLn(c).sq)
\* (b) the fix is inside a decorator: the range starts at the `def` line, the decorators are kept AND re-added
Dev_DecoratorOutside(c) == Fix(c) /\ NodeLine(c) > ExtFirst(c)
\* (c) the line after the statement is indented deeper (a comment): it is deleted with the statement
Dev_DeeperFollower(c) ==
    Fix(c) /\ ~Dev_RangeShort(c) /\ HasNext(c) /\ NextLn(c).head # "none" /\ NextLn(c).ind > Indent(FirstLn(c))
\* (d) the first line of the statement contains a triple-quote delimiter and the next line is that delimiter
\*     alone (the opening of a block string): it is deleted with the statement
Dev_DelimFollower(c) ==
    /\ Fix(c) /\ ~Dev_RangeShort(c) /\ HasNext(c) /\ ~Dev_DeeperFollower(c)
    /\ (NextLn(c).lone = "dq" /\ FirstLn(c).dq) \/ (NextLn(c).lone = "sq" /\ FirstLn(c).sq)
\* (e) the statement shares its line with other code: the whole line is replaced by the rebuilt statement alone
Dev_SharedLine(c) == Fix(c) /\ Shares(c.layout)
\* (f) removing the only statement of a block leaves the block empty
Dev_RemovalEmptiesBlock(c) ==
    Mode(c.kind) = "remove" /\ c.block # "module" /\ ~BeforeHasStmt(c.before) /\ ~AfterHasStmt(c.after)
\* (g) add-ignores: the diagnostic is on a continuation line after a backslash / on a line that starts inside a
\*     string literal: the inserted comment breaks the continuation / becomes part of the string
Dev_IgnoreAfterBackslash(c) == ~Fix(c) /\ DiagLine(c) > 1 /\ File(c)[DiagLine(c) - 1].bs
Dev_IgnoreInsideString(c) == ~Fix(c) /\ File(c)[DiagLine(c)].instr

RangeDev(c) == Dev_RangeShort(c) \/ Dev_DecoratorOutside(c) \/ Dev_DeeperFollower(c) \/ Dev_DelimFollower(c)
Known(c) ==
    {k \in {"fix-range-stops-short-of-statement", "fix-range-excludes-decorators", "fix-range-swallows-deeper-line",
            "fix-range-swallows-delimiter-line", "fix-replaces-shared-line", "fix-removal-empties-block",
            "ignore-inserted-after-backslash", "ignore-inserted-inside-string"} :
        CASE k = "fix-range-stops-short-of-statement" -> Dev_RangeShort(c)
          [] k = "fix-range-excludes-decorators"      -> Dev_DecoratorOutside(c)
          [] k = "fix-range-swallows-deeper-line"     -> Dev_DeeperFollower(c)
          [] k = "fix-range-swallows-delimiter-line"  -> Dev_DelimFollower(c)
          [] k = "fix-replaces-shared-line"           -> Dev_SharedLine(c)
          [] k = "fix-removal-empties-block"          -> Dev_RemovalEmptiesBlock(c)
          [] k = "ignore-inserted-after-backslash"    -> Dev_IgnoreAfterBackslash(c)
          [] k = "ignore-inserted-inside-string"      -> Dev_IgnoreInsideString(c)}
\* the post-conditions a deviation class can break (any other failing clause is a violation even inside the class)
ClausesOf(k) ==
    CASE k = "fix-range-stops-short-of-statement" -> {"RangeShortOfNode", "StillParses", "OnlyIntendedChange"}
      [] k = "fix-range-excludes-decorators"      -> {"RangeShortOfNode", "OnlyIntendedChange", "ProposingDiagnosticGone", "FixLoopTerminatesClean"}
      [] k = "fix-range-swallows-deeper-line"     -> {"RangeExceedsNode"}
      [] k = "fix-range-swallows-delimiter-line"  -> {"RangeExceedsNode", "StillParses", "OnlyIntendedChange"}
      [] k = "fix-replaces-shared-line"           -> {"OnlyIntendedChange"}
      [] k = "fix-removal-empties-block"          -> {"StillParses"}
      [] k = "ignore-inserted-after-backslash"    -> {"StillParses"}
      [] k = "ignore-inserted-inside-string"      -> {"TreeUnchanged", "InsertedLineIsComment"}

(***************************************************************************)
(* Staged generator                                                        *)
(***************************************************************************)
VARIABLES c, stage
vars == <<c, stage>>
Empty == [kind |-> "", layout |-> "", block |-> "", before |-> "", after |-> "", eof |-> ""]
Init == c = Empty /\ stage = "kind"
PickKind   == stage = "kind"   /\ \E k \in Kinds : c' = [c EXCEPT !.kind = k] /\ stage' = "layout"
PickLayout == stage = "layout" /\ \E y \in Layouts : LayoutOK(c.kind, y) /\ c' = [c EXCEPT !.layout = y] /\ stage' = "block"
PickBlock  == stage = "block"  /\ \E bl \in Blocks : BlockOK(c.kind, c.layout, bl) /\ c' = [c EXCEPT !.block = bl] /\ stage' = "before"
PickBefore == stage = "before" /\ \E x \in Befores : c' = [c EXCEPT !.before = x] /\ stage' = "after"
PickAfter  == stage = "after"  /\ \E x \in Afters : AfterOK(c.block, x) /\ c' = [c EXCEPT !.after = x] /\ stage' = "eof"
PickEof    == stage = "eof"    /\ \E e \in Eofs : EofOK(c.block, c.after, e) /\ c' = [c EXCEPT !.eof = e] /\ stage' = "done"
Next == PickKind \/ PickLayout \/ PickBlock \/ PickBefore \/ PickAfter \/ PickEof
Done == stage = "done"

(***************************************************************************)
(* Properties: Impl |= Ref on the model, outside the named deviations, and *)
(* the deviations are exact (each case of a class really deviates)         *)
(***************************************************************************)
RangeExact == (Done /\ Fix(c)) => ((ImplDel(c) = RefDel(c)) <=> ~RangeDev(c))
ApplyExact == (Done /\ Fix(c) /\ ~RangeDev(c)) =>
                  ImplApply(Len(File(c)), ImplDel(c), Adds(c)) = RefApply(Len(File(c)), ExtFirst(c), ExtLast(c), Adds(c))
LineOwned  == (Done /\ Fix(c)) => (~Shares(c.layout) \/ Dev_SharedLine(c))
BlockKept  == (Done /\ Mode(c.kind) = "remove") =>
                  (c.block = "module" \/ BeforeHasStmt(c.before) \/ AfterHasStmt(c.after) \/ Dev_RemovalEmptiesBlock(c))
InsertSafe == (Done /\ ~Fix(c)) =>
                  (RefInsertSafe(File(c), DiagLine(c)) <=> ~(Dev_IgnoreAfterBackslash(c) \/ Dev_IgnoreInsideString(c)))
\* strict versions, expected to be violated (the deviations are real on the model)
RangeStrict  == (Done /\ Fix(c)) => ImplDel(c) = RefDel(c)
InsertStrict == (Done /\ ~Fix(c)) => RefInsertSafe(File(c), DiagLine(c))
=============================================================================
