------------------------------ MODULE Dispatch ------------------------------
(***************************************************************************)
(* Operations on known objects agree with performing them (property C19).  *)
(*                                                                         *)
(* A case is ONE operation on statically known operands, described by the  *)
(* abstract facts the two dispatchers (CPython's and pyanalyze's) look at: *)
(*                                                                         *)
(*   kind "bin"  x OP y         m1 = type(x).__op__   called as (x, y)      *)
(*                              m2 = type(y).__rop__  called as (y, x)      *)
(*        "ibin" x OP= y        m3 = type(x).__iop__  called as (x, y)      *)
(*        "un"   OP x           m1 = type(x).__neg__ / __pos__ / __invert__ *)
(*        "sub"  x[i]           m1 = type(x).__getitem__      (x, i)        *)
(*                              m2 = x.__class_getitem__      (i)           *)
(*        "attr" x.name         the facts of record `a` below               *)
(*                                                                         *)
(* A candidate method is a record (a "method table" entry)                 *)
(*   st     "absent" | "ni" (returns NotImplemented) | "val" (returns a    *)
(*          value) | "te" (raises TypeError) | "ie" (raises IndexError) |  *)
(*          "exc" (raises anything else)       -- what REALLY happens when *)
(*          the method is looked up on the type and called (a CPython fact)*)
(*   res    the value it returns (canonical string), "" if none            *)
(*   sigerr pyanalyze's signature/stub check of the call reports an error  *)
(*   sret   what that static check returns: "any" | "typed" | "lit"        *)
(*   sval   the literal it returns when sret = "lit"                       *)
(* (sigerr/sret/sval are facts about pyanalyze's signature layer, which is  *)
(* NOT what this module models; they are inputs of Impl* only and are      *)
(* never used by Ref*.)                                                    *)
(*                                                                         *)
(* Impl* transcribes pyanalyze (file:line in comments).  Ref* is CPython's *)
(* data model: the binary-operator protocol of Objects/abstract.c          *)
(* binary_op1 + Objects/typeobject.c SLOT1BINFULL (reflected operand,      *)
(* subclass-first rule, NotImplemented, in-place fallback), the unary      *)
(* slots, PyObject_GetItem (__getitem__ on the type, __class_getitem__     *)
(* only for type objects); for attribute access the reference is the       *)
(* recorded outcome of getattr itself.  Every operator takes the case as a *)
(* parameter: the same definitions judge the states TLC enumerates here    *)
(* and the observations of the real code (DispatchTrace.tla).              *)
(***************************************************************************)
EXTENDS Naturals, Sequences, FiniteSets, TLC

CONSTANTS
    Kinds,          \* subset of {"bin","ibin","un","sub","attr"}
    BinOps,         \* operator names used for bin/ibin cases, e.g. {"add","mod"}
    UnOps,          \* operator names used for un cases, e.g. {"neg"}
    WithStubFacts,  \* TRUE: also enumerate sigerr / sret="typed" / typeshed hits
    WithGetattr,    \* TRUE: also enumerate objects that define __getattr__ (outside the property's universe)
    Fixed,          \* which of the repairs proposed in /verif/proposed/C19-fix-*.diff the tree contains:
                    \* subset of {"binop_candidates", "class_getitem"}; {} = the code as it is today
    BugNoReflected  \* sensitivity self-test: a model of pyanalyze that forgets the reflected operand

Absent == [st |-> "absent", res |-> "", sigerr |-> FALSE, sret |-> "any", sval |-> ""]
NoAttr == [okind |-> "obj", rt |-> "val", rval |-> "", hit |-> "none", tsval |-> "", modann |-> FALSE,
           haspath |-> FALSE, ignored |-> FALSE, onlyknown |-> FALSE, hasgetattr |-> FALSE]
Blank == [kind |-> "bin", op |-> "add", rel |-> "unrel", rover |-> FALSE,
          m1 |-> Absent, m2 |-> Absent, m3 |-> Absent, istype |-> FALSE, tupidx |-> FALSE, a |-> NoAttr]

(***************************************************************************)
(* Ref: CPython                                                            *)
(***************************************************************************)
RaiseTE == [out |-> "TypeError", val |-> ""]

\* what evaluating a call of a present method yields
Outcome(m) ==
    CASE m.st \in {"val", "ni"} -> [out |-> "val", val |-> m.res]
      [] m.st = "te"  -> RaiseTE
      [] m.st = "ie"  -> [out |-> "IndexError", val |-> ""]
      [] OTHER        -> [out |-> "exc", val |-> ""]

Declines(m) == m.st \in {"absent", "ni"}      \* the protocol moves on to the next candidate

\* x OP y  (Objects/abstract.c binary_op1, Objects/typeobject.c SLOT1BINFULL; Data model 3.3.8):
\*  - if type(y) is a proper subclass of type(x) and provides a DIFFERENT reflected method, that
\*    method is tried first;
\*  - then type(x).__op__(x, y);
\*  - then, unless both operands have the same type, type(y).__rop__(y, x) if not tried yet;
\*  - a candidate that is absent or returns NotImplemented is skipped; an exception propagates;
\*  - no candidate left: TypeError.
RefBinary(c) ==
    LET rfirst == c.rel = "rsub" /\ c.rover /\ c.m2.st # "absent"
    IN IF rfirst /\ ~Declines(c.m2) THEN Outcome(c.m2)
       ELSE IF ~Declines(c.m1) THEN Outcome(c.m1)
       ELSE IF c.rel # "same" /\ ~rfirst /\ ~Declines(c.m2) THEN Outcome(c.m2)
       ELSE RaiseTE

\* x OP= y (abstract.c binary_iop1): the in-place method first, the binary protocol as fallback
RefInplace(c) == IF ~Declines(c.m3) THEN Outcome(c.m3) ELSE RefBinary(c)

\* OP x: the slot or TypeError (NotImplemented has no meaning here: it is simply the result)
RefUnary(c) == IF c.m1.st = "absent" THEN RaiseTE ELSE Outcome(c.m1)

\* x[i] (abstract.c PyObject_GetItem): mp_subscript / sq_item of type(x); __class_getitem__ is
\* consulted only when x is itself a type object
RefSubscript(c) ==
    IF c.m1.st # "absent" THEN Outcome(c.m1)
    ELSE IF c.istype /\ c.m2.st # "absent" THEN Outcome(c.m2)
    ELSE RaiseTE

\* x.name: the reference is the recorded outcome of getattr(x, name) itself
RefAttr(c) ==
    CASE c.a.rt = "val" -> [out |-> "val", val |-> c.a.rval]
      [] c.a.rt = "AttributeError" -> [out |-> "AttributeError", val |-> ""]
      [] OTHER -> [out |-> "exc", val |-> ""]

RefOp(c) ==
    CASE c.kind = "bin"  -> RefBinary(c)
      [] c.kind = "ibin" -> RefInplace(c)
      [] c.kind = "un"   -> RefUnary(c)
      [] c.kind = "sub"  -> RefSubscript(c)
      [] c.kind = "attr" -> RefAttr(c)

\* the property's "CPython raises": TypeError / AttributeError, IndexError for literal tuple indices
RefRaises(c, r) ==
    \/ r.out \in {"TypeError", "AttributeError"}
    \/ r.out = "IndexError" /\ c.kind = "sub" /\ c.tupidx

(***************************************************************************)
(* Impl: pyanalyze                                                         *)
(***************************************************************************)
NonLit(any) == [lit |-> FALSE, any |-> any, val |-> ""]
Lit(v) == [lit |-> TRUE, any |-> FALSE, val |-> v]

\* name_check_visitor.py:5145 _check_dunder_call_no_mvv
\*   :5153 _get_dunder (lookup on the type; unsupported_operation if absent) -> (Any[error], exists=False)
\*   :5156 check_call(..., allow_call=True) -> _check_call_no_mvv:
\*       :5572 the signature check (errors = sigerr, static return = sret/sval)
\*       :5582-5600 all arguments are KnownValue: the real method is CALLED; an exception is only
\*                  logged (:5591); NotImplemented -> incompatible_call (:5594); otherwise the
\*                  result replaces the static return value: KnownValue(result)
ImplDunder(m) ==
    IF m.st = "absent" THEN [err |-> TRUE, ret |-> NonLit(TRUE)]
    ELSE [err |-> m.sigerr \/ m.st = "ni",
          ret |-> IF m.st \in {"val", "ni"} THEN Lit(m.res)
                  ELSE IF m.sret = "lit" THEN Lit(m.sval)
                  ELSE NonLit(m.sret = "any")]

Res(diag, ret, why) == [diag |-> diag, ret |-> ret, why |-> why]

\* name_check_visitor.py:3794 _visit_binop_no_mvv, the arm for operators with a reflected method
\* (:3855-3896): BOTH candidates are always evaluated, whatever the operand types are
ImplBinary(c) ==
    LET l == ImplDunder(c.m1)
        r0 == IF BugNoReflected THEN ImplDunder(Absent) ELSE ImplDunder(c.m2)
        fixed == "binop_candidates" \in Fixed
        \* C19-fix-2: operands of the same type -> a failing left method is not rescued by the
        \* reflected one; right type a proper subclass overriding the reflected method -> it wins
        r == IF fixed /\ c.rel = "same" /\ l.err THEN [r0 EXCEPT !.err = TRUE] ELSE r0
    IN IF fixed /\ c.rel = "rsub" /\ c.rover /\ ~r.err THEN Res(FALSE, r.ret, "right-first")
       ELSE IF l.err
       THEN IF r.err THEN Res(TRUE, NonLit(TRUE), "both-errors")       \* :3873 unsupported_operation
            ELSE Res(FALSE, r.ret, "right")                             \* :3880
       ELSE IF r.err THEN Res(FALSE, l.ret, "left")                    \* :3883
            ELSE IF r.ret.any THEN Res(FALSE, NonLit(TRUE), "right-is-any")   \* :3894
            ELSE Res(FALSE, l.ret, "left-both-ok")                     \* :3896

\* name_check_visitor.py:3766-3780 (_visit_binop_internal, is_inplace): the in-place method under
\* catch_errors; any error -> the plain binary operation
ImplInplace(c) ==
    LET i == ImplDunder(c.m3)
    IN IF ~i.err THEN Res(FALSE, i.ret, "inplace") ELSE ImplBinary(c)

\* name_check_visitor.py:3684 visit_UnaryOp (:3700-3703)
ImplUnary(c) == LET d == ImplDunder(c.m1) IN Res(d.err, d.ret, "unary")

\* name_check_visitor.py:4949 _composite_from_subscript_no_mvv, Load context (:4993-5026):
\* __getitem__ of the type; else __class_getitem__ looked up ON THE VALUE (whatever it is)
ImplSubscript(c) ==
    IF c.m1.st # "absent"
    THEN LET d == ImplDunder(c.m1) IN Res(d.err, d.ret, "getitem")            \* :4996
    ELSE IF c.m2.st = "absent" \/ ("class_getitem" \in Fixed /\ ~c.istype)      \* C19-fix-1: instances have no __class_getitem__
         THEN Res(TRUE, NonLit(TRUE), "not-subscriptable")                           \* :5008
    ELSE LET d == ImplDunder(c.m2) IN Res(d.err, d.ret, "class_getitem")        \* :5015

\* attributes.py:430 _get_attribute_from_known -> :504 _get_attribute_from_mro(obj, on_class=True);
\* nothing found -> name_check_visitor.py:5319 _get_attribute_fallback
ImplAttr(c) ==
    LET a == c.a
        known == IF a.rt = "val" THEN Lit(a.rval) ELSE NonLit(TRUE)   \* KnownValue(getattr(..)) / Any on exception
    IN IF a.okind = "enumclass" /\ a.rt = "val" THEN Res(FALSE, known, "enum-getattr")     \* :508-513
       ELSE IF a.okind = "module" /\ a.modann THEN Res(FALSE, NonLit(FALSE), "module-annotation")   \* :516-526
       ELSE IF a.okind \in {"class", "enumclass"} /\ a.hit # "none"
       THEN CASE a.hit = "tslit"  -> Res(FALSE, Lit(a.tsval), "stub-literal")       \* :539-549 stub, not callable
              [] a.hit = "tstype" -> Res(FALSE, NonLit(FALSE), "stub-type")
              [] a.hit = "ann"    -> Res(FALSE, NonLit(FALSE), "class-annotation")  \* :556-571
              [] a.hit = "dict"   -> Res(FALSE, known, "class-dict")                \* :573-584
              [] a.hit = "tscall" -> Res(FALSE, NonLit(FALSE), "stub-callable")     \* :586
       ELSE IF a.rt = "val" THEN Res(FALSE, known, "getattr")                        \* :593-596
       ELSE IF a.rt = "exc" THEN Res(FALSE, NonLit(TRUE), "getattr-broken")         \* :599-601
       ELSE \* UNINITIALIZED_VALUE -> fallback (name_check_visitor.py:5343-5350, :5373)
            IF ~a.onlyknown /\ (a.hasgetattr \/ (a.haspath /\ a.ignored))
            THEN Res(FALSE, NonLit(TRUE), "fallback-ignored")
            ELSE Res(TRUE, NonLit(TRUE), "undefined_attribute")

ImplOp(c) ==
    CASE c.kind = "bin"  -> ImplBinary(c)
      [] c.kind = "ibin" -> ImplInplace(c)
      [] c.kind = "un"   -> ImplUnary(c)
      [] c.kind = "sub"  -> ImplSubscript(c)
      [] c.kind = "attr" -> ImplAttr(c)

(***************************************************************************)
(* The property                                                            *)
(***************************************************************************)
DiagOKOn(c, diag, r) == diag <=> RefRaises(c, r)
LitOKOn(ret, r) == ret.lit => (r.out = "val" /\ r.val = ret.val)

DiagOK(c) == DiagOKOn(c, ImplOp(c).diag, RefOp(c))
LitOK(c) == LitOKOn(ImplOp(c).ret, RefOp(c))

(***************************************************************************)
(* Known deviations of the implementation (classes of known_findings.jsonl)*)
(***************************************************************************)
ImplErrs(m) == ImplDunder(m).err
BinaryReached(c) == c.kind = "bin" \/ (c.kind = "ibin" /\ ImplErrs(c.m3))

\* (a) both operands have the same type: CPython never tries the reflected method, pyanalyze does
Dev_SameTypeReflected(c) ==
    "binop_candidates" \notin Fixed /\ BinaryReached(c) /\ c.rel = "same" /\ ImplErrs(c.m1) /\ ~ImplErrs(c.m2)

\* (b) the right operand's type is a proper subclass overriding the reflected method: CPython
\*     tries it FIRST, pyanalyze prefers the left result
Dev_SubclassFirst(c) ==
    "binop_candidates" \notin Fixed /\ BinaryReached(c) /\ c.rel = "rsub" /\ c.rover /\ ~Declines(c.m2) /\ ~ImplErrs(c.m1)

\* (b') the signature check rejects the left call (e.g. IntFlag.__or__, whose runtime function is
\*     enum.Flag.__or__(self, other: Self)): pyanalyze treats that like NotImplemented and silently
\*     uses the reflected method, although CPython lets the left method decide
Dev_SigErrorFallsThrough(c) ==
    /\ BinaryReached(c)
    /\ LET rfirst == c.rel = "rsub" /\ c.rover /\ ~Declines(c.m2)     \* CPython lets the reflected method decide
       IN \/ rfirst /\ c.m2.sigerr /\ ~ImplErrs(c.m1)
          \/ ~rfirst /\ c.m1.sigerr /\ ~Declines(c.m1) /\ ~ImplErrs(c.m2)

\* (c) x[i] on an INSTANCE whose class defines __class_getitem__ (and no __getitem__)
Dev_ClassGetitemOnInstance(c) ==
    "class_getitem" \notin Fixed /\ c.kind = "sub" /\ ~c.istype /\ c.m1.st = "absent" /\ c.m2.st # "absent"

\* (d) a candidate method passes the signature check, is really called and raises TypeError:
\*     the exception is swallowed (name_check_visitor.py:5591) and nothing is reported
ImplConsulted(c) ==
    CASE c.kind = "bin"  -> {c.m1, c.m2}
      [] c.kind = "ibin" -> {c.m3} \cup (IF ImplErrs(c.m3) THEN {c.m1, c.m2} ELSE {})
      [] c.kind = "un"   -> {c.m1}
      [] c.kind = "sub"  -> IF c.m1.st # "absent" THEN {c.m1} ELSE {c.m2}
      [] OTHER -> {}
Dev_TypeErrorSwallowed(c) == \E m \in ImplConsulted(c) : m.st = "te" /\ ~m.sigerr

\* (f) attribute of a CLASS OBJECT decided from the typeshed stub of the class (which describes
\*     instances) without consulting the class object: absent at runtime ...
Dev_StubAttrAbsentAtRuntime(c) ==
    c.kind = "attr" /\ c.a.rt = "AttributeError" /\ ImplAttr(c).why \in {"stub-literal", "stub-type", "stub-callable"}
\* (g) ... or a stub property of Literal type taken as the value of the class attribute
Dev_StubLiteralOnClass(c) ==
    c.kind = "attr" /\ ImplAttr(c).why = "stub-literal" /\ (c.a.rt # "val" \/ c.a.tsval # c.a.rval)

\* (h) the name is in a class __dict__ but its descriptor raises AttributeError on class access
\*     (type.__abstractmethods__, types.DynamicClassAttribute): taken as existing (attributes.py:582)
Dev_DescriptorRaisesOnClass(c) ==
    c.kind = "attr" /\ c.a.rt = "AttributeError" /\ ImplAttr(c).why = "class-dict"

DevKey(c) ==
    IF Dev_SameTypeReflected(c) THEN "same-type-reflected-method-tried"
    ELSE IF Dev_SubclassFirst(c) THEN "subclass-reflected-method-not-first"
    ELSE IF Dev_SigErrorFallsThrough(c) THEN "signature-error-falls-through-to-reflected"
    ELSE IF Dev_ClassGetitemOnInstance(c) THEN "class-getitem-on-instance"
    ELSE IF Dev_TypeErrorSwallowed(c) THEN "dunder-call-typeerror-swallowed"
    ELSE IF Dev_StubAttrAbsentAtRuntime(c) THEN "stub-attribute-absent-on-class-object"
    ELSE IF Dev_StubLiteralOnClass(c) THEN "stub-literal-for-class-attribute"
    ELSE IF Dev_DescriptorRaisesOnClass(c) THEN "class-dict-descriptor-raises-attributeerror"
    ELSE "none"

(***************************************************************************)
(* Bounded case space, built in stages                                     *)
(***************************************************************************)
\* Assumptions on the fact tables that are enumerated (every observation of the real code is judged
\* by the oracle whether or not it satisfies them):
\*  - the stub check rejects a call only where the runtime raises TypeError (or IndexError for a
\*    literal tuple index, which the tuple implementation function reports), or -- for the left
\*    method of a binary operator -- where a usable reflected method exists (IntFlag);
\*  - NotImplemented is a protocol value only for binary / in-place operators;
\*  - the static return type matters only when the call raises.
MethodSpace(kind, pos, tag) ==
    {Absent} \cup
    {[st |-> s, res |-> IF s \in {"val", "ni"} THEN tag ELSE "", sigerr |-> e, sret |-> t, sval |-> ""] :
        s \in {"ni", "val", "te", "ie", "exc"}, e \in BOOLEAN, t \in {"any", "typed"}}

MethodOK(kind, pos, m) ==
    \/ m = Absent
    \/ /\ m.st # "absent"
       /\ (m.st = "ni" => kind \in {"bin", "ibin"})
       /\ (m.st = "ie" => kind = "sub")
       /\ (m.sigerr => (WithStubFacts /\ kind # "un" /\
                        (m.st \in {"te", "ie"} \/ (m.st = "val" /\ pos = 1 /\ kind \in {"bin", "ibin"}))))
       /\ (m.sret = "typed" => (m.st \in {"val", "ni"} \/ WithStubFacts))
       /\ (m.st \in {"val", "ni"} => m.sret = "typed")
       /\ (pos = 3 => ~m.sigerr)

ShapeOK(c) ==
    /\ (c.kind \in {"bin", "ibin"} =>
          /\ (c.rover => (c.rel = "rsub" /\ c.m2.st # "absent"))
          /\ (c.m1.sigerr /\ c.m1.st = "val" => ~ImplErrs(c.m2))   \* only seen together with a usable reflected method
          /\ ~c.istype /\ ~c.tupidx)
    /\ (c.kind = "sub" =>
          /\ c.rel = "unrel" /\ ~c.rover
          /\ (c.tupidx => ~c.istype /\ c.m1.st # "absent")
          /\ (c.m1.st = "ie" => (c.m1.sigerr <=> c.tupidx))
          /\ (c.m1.st = "te" /\ c.tupidx => c.m1.sigerr)
          /\ (c.m2.st = "ie" => ~c.m2.sigerr))

AttrSpace ==
    [okind : {"obj", "class", "enumclass", "module"}, rt : {"val", "AttributeError", "exc"}, rval : {"", "v"},
     hit : {"none", "tslit", "tstype", "ann", "dict", "tscall"}, tsval : {"", "v", "w"},
     modann : BOOLEAN, haspath : BOOLEAN, ignored : BOOLEAN, onlyknown : BOOLEAN, hasgetattr : BOOLEAN]

AttrOK(a) ==
    /\ (a.rval # "" <=> a.rt = "val")
    /\ (a.hit # "none" => a.okind \in {"class", "enumclass"})
    /\ (a.hit \in {"tslit", "tstype", "tscall"} => WithStubFacts)
    /\ (a.tsval # "" <=> a.hit = "tslit")
    /\ (a.hit = "ann" => a.rt = "val")                       \* no annotation-only names
    /\ (a.okind = "enumclass" /\ a.rt = "val" => a.hit = "none")   \* the MRO walk is not reached
    /\ (a.modann => a.okind = "module" /\ a.rt = "val")
    /\ (a.onlyknown => a.okind \in {"class", "enumclass"})
    /\ (a.okind = "enumclass" => a.onlyknown)
    /\ (a.hasgetattr => WithGetattr)

VARIABLES case, stage
vars == <<case, stage>>

Init == case = Blank /\ stage = "kind"

ChooseKind ==
    /\ stage = "kind"
    /\ \E k \in Kinds :
         \E op \in (CASE k \in {"bin", "ibin"} -> BinOps [] k = "un" -> UnOps [] k = "sub" -> {"getitem"} [] OTHER -> {"getattr"}) :
            /\ case' = [Blank EXCEPT !.kind = k, !.op = op]
            /\ stage' = IF k = "attr" THEN "attr" ELSE "m1"

ChooseM1 ==
    /\ stage = "m1"
    /\ \E m \in MethodSpace(case.kind, 1, "r1") :
         /\ MethodOK(case.kind, 1, m)
         /\ case' = [case EXCEPT !.m1 = m]
    /\ stage' = IF case.kind = "un" THEN "done" ELSE "m2"

ChooseM2 ==
    /\ stage = "m2"
    /\ \E m \in MethodSpace(case.kind, 2, "r2") :
         /\ MethodOK(case.kind, 2, m)
         /\ case' = [case EXCEPT !.m2 = m]
    /\ stage' = IF case.kind = "ibin" THEN "m3" ELSE "shape"

ChooseM3 ==
    /\ stage = "m3"
    /\ \E m \in MethodSpace(case.kind, 3, "r3") :
         /\ MethodOK(case.kind, 3, m)
         /\ case' = [case EXCEPT !.m3 = m]
    /\ stage' = "shape"

ChooseShape ==
    /\ stage = "shape"
    /\ \E rel \in {"same", "unrel", "rsub", "lsub"}, rover \in BOOLEAN, istype \in BOOLEAN, tupidx \in BOOLEAN :
         /\ case' = [case EXCEPT !.rel = rel, !.rover = rover, !.istype = istype, !.tupidx = tupidx]
         /\ ShapeOK(case')
    /\ stage' = "done"

ChooseAttr ==
    /\ stage = "attr"
    /\ \E a \in AttrSpace :
         /\ AttrOK(a)
         /\ case' = [case EXCEPT !.a = a]
    /\ stage' = "done"

Next == ChooseKind \/ ChooseM1 \/ ChooseM2 \/ ChooseM3 \/ ChooseShape \/ ChooseAttr

(***************************************************************************)
(* Invariants                                                              *)
(***************************************************************************)
\* Domain of the property.  Excluded (no verdict, the observation is "ok"):
\*  - objects that define __getattr__: no statically known attribute set, pyanalyze deliberately stays
\*    silent (name_check_visitor.py:5343);
\*  - NAME.attr (a dotted-name path) with attr in the default of the documented option
\*    `ignored_end_of_reference` (count, called, call_count, ...): a missing attribute is by
\*    configuration never reported (name_check_visitor.py:496, :5344-5350).  ImplAttr still models
\*    the arm ("fallback-ignored"), so the model stays bound to the code (drift is still checked).
InUniverse(c) == ~c.a.hasgetattr /\ ~(c.kind = "attr" /\ c.a.haspath /\ c.a.ignored)

DiagnosedIffRaises == (stage = "done" /\ InUniverse(case)) => (DiagOK(case) \/ DevKey(case) # "none")
LiteralEqualsResult == (stage = "done" /\ InUniverse(case)) => (LitOK(case) \/ DevKey(case) # "none")
\* strict versions: expected to be VIOLATED on the model of the current code (the deviations are real)
DiagnosedIffRaisesStrict == stage = "done" => DiagOK(case)
LiteralEqualsResultStrict == stage = "done" => LitOK(case)

\* which cases can be realised with synthetic classes (the others are bound by the recorded facts of
\* the literal universe only): no typeshed facts, no objects with __getattr__, no real tuples
Realisable(c) ==
    /\ c.a.hit \in {"none", "ann", "dict"}
    /\ ~c.a.hasgetattr
    /\ ~(c.a.okind = "module" /\ c.a.rt = "exc")
    /\ ~c.tupidx
=============================================================================
