INIT XInit
NEXT XNext
CONSTANTS
  FTokens = {}
  MaxFTokens = 0
  PosVals = {}
  MaxPos = 0
  KwNames = {}
  KwVals = {}
  MaxKw = 0
  FBug = "none"
  XMaxItems = 2
  XLits <- Q2XLits
  XNames <- Q2XNames
  XChains <- Q2XChains
  XConvs <- Q2XConvs
  XSpecs <- Q2XSpecs
  XPosVals <- Q2XPos
  XExtraVals <- XOne
  XKwNames <- KwABW
  XKwVals <- Q1XKw
  XKwExtraVals <- XOne
INVARIANT Modelled
INVARIANT Soundness
INVARIANT Precision
INVARIANT ResultType
INVARIANT EmitDone
CHECK_DEADLOCK FALSE
