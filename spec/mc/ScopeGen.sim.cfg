INIT GInit
NEXT GNext
CONSTANTS
  MaxStmts = 8
  MaxDepth = 3
  Kinds = {"if", "while", "whiletrue", "for", "with", "withsupp", "try"}
INVARIANT EmitDone
CHECK_DEADLOCK FALSE
