INIT GInit
NEXT GNext
CONSTANTS
  MaxStmts = 6
  MaxDepth = 2
  Kinds = {"if", "while", "whiletrue", "for", "with", "withsupp", "try"}
INVARIANT EmitDone
CHECK_DEADLOCK FALSE
