INIT Init
NEXT Next
CONSTANTS
  MaxFragments = 3
INVARIANT Converges
INVARIANT EachStepFixesOne
CHECK_DEADLOCK FALSE
