INIT Init
NEXT Next
CONSTANTS
  Kinds = {"bin", "ibin", "un", "sub", "attr"}
  BinOps = {"add"}
  UnOps = {"neg"}
  WithStubFacts = TRUE
  Fixed = {}
  WithGetattr = FALSE
  BugNoReflected = FALSE
INVARIANT LiteralEqualsResultStrict
CHECK_DEADLOCK FALSE
