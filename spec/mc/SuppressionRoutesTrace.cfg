INIT TInit
NEXT TNext
CONSTANTS
  MaxLines = 1
  MinLines = 1
  Pinned = FALSE
  Bug = "none"
  RDiagSets = {}
  RIgnSet = {}
  RShapes = {}
  ROtherShapes = {}
  CfgCodes = {}
  CfgAlls = {}
  CfgFlags = {}
  CfgTris = {}
  RPrefixes = {}
CHECK_DEADLOCK FALSE
