INIT TInit
NEXT TNext
CONSTANTS
  MaxLines = 1
  Pinned = FALSE
CHECK_DEADLOCK FALSE
