INIT HInit
NEXT HNext
CONSTANTS
  Leaves = {"int"}
  Unary = {"list"}
  Binary = {"Or"}
  TopOnly = {"Final"}
  MaxNodes = 1
  MaxStack = 1
  BugOptionalDropsNone = FALSE
  FixedStar = TRUE
  FixedFinalInString = TRUE
  FixedNestedLiteral = TRUE
  BugBuiltinsFirst = FALSE
  AnnChoices = {"noann", "int", "QTE", "OptInt", "T"}
  DefaultChoices = {"none", "int:1", "..."}
  RetChoices = {"noann", "int", "T"}
  AsyncChoices = {FALSE, TRUE}
  FutureChoices = {FALSE, TRUE}
  DunderChoices = {FALSE, TRUE}
  MaxParams = 2
  MaxPos = 3
  MaxKw = 2
  BugRuntimeIgnoresKwDefaults = FALSE
  BugStringDropsAllowUnpack = FALSE
  FixedDunder = FALSE
INVARIANT EmitHeader
CHECK_DEADLOCK FALSE
