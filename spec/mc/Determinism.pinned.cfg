INIT Init
NEXT Next
CONSTANTS
  Pinned = TRUE
  NSeeds = 2
  MaxHist = 2
INVARIANT Deterministic
CHECK_DEADLOCK FALSE
