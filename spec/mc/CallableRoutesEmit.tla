------------------------- MODULE CallableRoutesEmit -------------------------
(* Emission wrapper: prints every completed entry-point case as one JSON line. *)
EXTENDS CallableRoutes, Json
EmitRoute == stage = "done" => PrintT(ToJson(case))
=============================================================================
