INIT ConstInit
NEXT ConstNext
CONSTANTS
  MaxFragments = 1
  FnScopes = {"def"}
  MaxDepth = 1
  FixedLines = TRUE
  FixedFwd = TRUE
  KSecondFull = TRUE
  PosMaxLines = 4
  NodesHavePos = TRUE
  DevOn = {"byte"}
  YSites = {"oneline"}
  YPads = {"none"}
  YBefore = {0}
  YAfter = {0}
  YFillers = {"plain"}
  YNewlines = {"lf"}
  YTrail = {TRUE}
INVARIANT EmitConst
CHECK_DEADLOCK FALSE
