INIT Init
NEXT Next
CONSTANTS
  PKinds = {"str", "bytes"}
  PTokens <- TokQuick
  MaxTokens = 2
  ScalarVals <- ValsQScalar
  TupleVals <- ValsQTuple
  MaxTuple = 2
  DictKeys <- KeysQuick
  DictVals <- ValsQDict
  MaxDict = 1
  BugFlag = "none"
INVARIANT PrecisionStrict
CHECK_DEADLOCK FALSE
