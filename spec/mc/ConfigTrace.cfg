INIT TInit
NEXT TNext
CONSTANTS
  Kinds = {"bool"}
  MaxFiles = 1
  Rich = FALSE
  WithBad = FALSE
  Routes = {"inst"}
  Layouts = {"flat"}
  Slim = FALSE
CHECK_DEADLOCK FALSE
