INIT TInit
NEXT TNext
CONSTANTS
  Kinds = {"bool"}
  MaxFiles = 1
  Rich = FALSE
  WithBad = FALSE
CHECK_DEADLOCK FALSE
