INIT TInit
NEXT TNext
CONSTANTS
  Kinds = {"bool"}
  MaxFiles = 1
  Rich = FALSE
  WithBad = FALSE
  Routes = {"inst"}
  Layouts = {"flat"}
  Slim = FALSE
  Spells = {"same"}
  HistKinds = {}
  MaxLookups = 0
CHECK_DEADLOCK FALSE
