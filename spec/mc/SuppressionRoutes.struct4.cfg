INIT RInit
NEXT RNext
CONSTANTS
  MaxLines = 4
  MinLines = 1
  Pinned = FALSE
  Bug = "none"
  RDiagSets <- DiagsStruct
  RIgnSet <- IgnsStruct
  RShapes <- ShapesAll
  ROtherShapes <- OtherAll
  CfgCodes <- CodesStruct
  CfgAlls <- AllsNone
  CfgFlags <- FlagsEnable
  CfgTris <- TrisUnset
  RPrefixes <- NoPrefix
INVARIANT RProjectionOK
INVARIANT RChainOnce
INVARIANT RUsedAreComments
INVARIANT REnabledOK
INVARIANT REmit
CHECK_DEADLOCK FALSE
