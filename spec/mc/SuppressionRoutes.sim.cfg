INIT RInit
NEXT RNext
CONSTANTS
  MaxLines = 8
  Pinned = FALSE
  MinLines = 3
  Bug = "none"
  RDiagSets <- DiagsAll
  RIgnSet <- IgnsAll
  RShapes <- ShapesAll
  ROtherShapes <- OtherAll
  CfgCodes <- CodesAll
  CfgAlls <- AllsAll
  CfgFlags <- FlagsAll
  CfgTris <- TrisAll
  RPrefixes <- NoPrefix
INVARIANT RProjectionOK
INVARIANT RChainOnce
INVARIANT RUsedAreComments
INVARIANT REnabledOK
INVARIANT REmit
CHECK_DEADLOCK FALSE
