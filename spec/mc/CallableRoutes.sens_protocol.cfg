INIT RInit
NEXT RNext
CONSTANTS
  Routes = {"protocol"}
  Shapes = {"single"}
  MethodNames = {"f"}
  SelfKinds = {"pk", "po", "none"}
  BaseNaming = "pos"
  FixedMemberWithoutSelf = FALSE
  RMutant = "none"
  MaxExpected = 1
  MaxActual = 1
  ActNames = {"a"}
  MaxCallPos = 3
  MaxCallKw = 3
  TypeRanks = {9}
  RetRanks = {9}
  SCMutant = "none"
INVARIANT ProtocolSound
CHECK_DEADLOCK FALSE
