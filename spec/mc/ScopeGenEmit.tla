----------------------------- MODULE ScopeGenEmit -----------------------------
(* Emission wrapper: prints every completed function body as one JSON line. *)
EXTENDS ScopeGen, Json
EmitDone == done => PrintT(ToJson([prog |-> Prog]))

\* the loop-exit slice: only bodies in which a break sits inside a try statement or a suppressing with
RECURSIVE BreakUnder(_, _)
BreakUnder(block, insupp) ==
    \E i \in 1..Len(block) :
        LET s == block[i]
        IN \/ s.k = "break" /\ insupp
           \/ s.k \in {"if", "while", "for"} /\ (BreakUnder(s.body, insupp) \/ BreakUnder(s.orelse, insupp))
           \/ s.k = "with" /\ BreakUnder(s.body, insupp \/ s.supp)
           \/ s.k = "try" /\ (BreakUnder(s.body, TRUE) \/ BreakUnder(s.orelse, TRUE) \/ BreakUnder(s.final, TRUE)
                              \/ \E j \in 1..Len(s.handlers) : BreakUnder(s.handlers[j], TRUE))
EmitLoopExit == (done /\ BreakUnder(Prog, FALSE) /\ UsesOf(Prog) # {}) => PrintT(ToJson([prog |-> Prog]))
=============================================================================
