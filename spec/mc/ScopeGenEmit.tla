----------------------------- MODULE ScopeGenEmit -----------------------------
(* Emission wrapper: prints every completed function body as one JSON line. *)
EXTENDS ScopeGen, Json
EmitDone == done => PrintT(ToJson([prog |-> Prog]))
EmitLive == (done /\ ~DeadTail(Prog)) => PrintT(ToJson([prog |-> Prog]))

\* the loop-exit slice: only bodies in which a break sits inside a try statement or a suppressing with
RECURSIVE BreakUnder(_, _)
BreakUnder(block, insupp) ==
    \E i \in 1..Len(block) :
        LET s == block[i]
        IN \/ s.k = "break" /\ insupp
           \/ s.k \in {"if", "while", "for"} /\ (BreakUnder(s.body, insupp) \/ BreakUnder(s.orelse, insupp))
           \/ s.k = "with" /\ BreakUnder(s.body, insupp \/ s.supp)
           \/ s.k = "try" /\ (BreakUnder(s.body, TRUE) \/ BreakUnder(s.orelse, TRUE) \/ BreakUnder(s.final, TRUE)
                              \/ \E j \in 1..Len(s.handlers) : BreakUnder(s.handlers[j], TRUE))

\* the finally slice: a try statement with a finally clause that reads a variable which a handler / the else clause /
\* the try body assigns (the "try failed" state of the finally clause is built from those blocks)
RECURSIVE FinalReads(_)
FinalReads(block) ==
    \E i \in 1..Len(block) :
        LET s == block[i]
        IN \/ s.k = "try" /\ s.final # << >> /\ HasKind(s.final, {"use", "aug"})
              /\ (\/ \E j \in 1..Len(s.handlers) : HasKind(s.handlers[j], {"assign", "aug", "exas"})
                  \/ HasKind(s.orelse, {"assign", "aug"}) \/ HasKind(s.body, {"assign", "aug"}))
           \/ s.k \in IfKinds \cup LoopKinds /\ (FinalReads(s.body) \/ FinalReads(s.orelse))
           \/ s.k \in WithKinds /\ FinalReads(s.body)
           \/ s.k = "try" /\ (FinalReads(s.body) \/ FinalReads(s.orelse) \/ FinalReads(s.final)
                              \/ \E j \in 1..Len(s.handlers) : FinalReads(s.handlers[j]))
EmitFinally == (done /\ (FinalReads(Prog) \/ (JumpThroughFinally(Prog, FALSE) /\ UsesOf(Prog) # {}))) => PrintT(ToJson([prog |-> Prog]))
\* the loop-carried slice: one loop whose body contains a continue (definitions travel along the back edge)
EmitLoopCont == (done /\ HasKind(Prog, {"continue"}) /\ UsesOf(Prog) # {} /\ ~DeadTail(Prog)) => PrintT(ToJson([prog |-> Prog]))
\* the while-test slice: bodies with a `while <known local>:` loop and a use
EmitWhileTest == (done /\ HasKind(Prog, {"whilev"}) /\ UsesOf(Prog) # {} /\ ~DeadTail(Prog)) => PrintT(ToJson([prog |-> Prog]))
EmitLoopExit == (done /\ BreakUnder(Prog, FALSE) /\ UsesOf(Prog) # {}) => PrintT(ToJson([prog |-> Prog]))
=============================================================================
