----------------------------- MODULE ScopeGenEmit -----------------------------
(* Emission wrapper: prints every completed function body as one JSON line. *)
EXTENDS ScopeGen, Json
EmitDone == done => PrintT(ToJson([prog |-> Prog]))
=============================================================================
