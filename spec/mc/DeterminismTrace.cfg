INIT TInit
NEXT TNext
CONSTANTS
  Pinned = FALSE
  NSeeds = 1
  MaxHist = 1
CHECK_DEADLOCK FALSE
