INIT Init
NEXT Next
CONSTANTS
  Kinds = {"bool"}
  MaxFiles = 1
  Rich = FALSE
  WithBad = FALSE
  Routes = {"argv"}
  Layouts = {"flat"}
  Slim = TRUE
INVARIANT AllBeatsSingleFollowsDocs
CHECK_DEADLOCK FALSE
