INIT Init
NEXT Next
CONSTANTS
  Kinds = {"bool"}
  MaxFiles = 1
  Rich = FALSE
  WithBad = FALSE
  Routes = {"argv"}
  Layouts = {"flat"}
  Slim = TRUE
  Spells = {"same"}
  HistKinds = {}
  MaxLookups = 0
INVARIANT AllBeatsSingleFollowsDocs
CHECK_DEADLOCK FALSE
