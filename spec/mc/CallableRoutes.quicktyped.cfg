INIT RInit
NEXT RNext
CONSTANTS
  Routes = {"override", "callable", "protocol"}
  Shapes = {"single"}
  MethodNames = {"f"}
  SelfKinds = {"pk"}
  BaseNaming = "pos"
  FixedMemberWithoutSelf = TRUE
  RMutant = "none"
  MaxExpected = 1
  MaxActual = 1
  ActNames = {"a", "b"}
  MaxCallPos = 3
  MaxCallKw = 3
  TypeRanks = {1, 2, 9}
  RetRanks = {1, 2}
  SCMutant = "none"
INVARIANT OverrideSound
INVARIANT CallableParamSound
INVARIANT ProtocolSound
INVARIANT RouteTypesSound
INVARIANT RouteDevTight
INVARIANT RouteMachineIsFold
INVARIANT IterationCoversAncestors
INVARIANT EmitRoute
CHECK_DEADLOCK FALSE
