INIT Init
NEXT Next
CONSTANTS
  Kinds = {"unused_variable", "use_fstrings", "ignore"}
  Layouts = {"single", "trail_comment", "comment_dq", "str_dq", "str_sq", "paren_close", "paren_hang", "paren_flush", "backslash", "backslash_flush", "tq_lone", "tq_lone_sq", "tq_closeparen", "tq_later_lone", "tq_later_lone_sqfirst", "if_header", "deco_def", "semi_before", "semi_after", "oneline_if", "bs_second", "fstr_multi", "tq_then_diag", "deco2_def"}
  Blocks = {"module", "def", "if", "if_else", "try", "for", "with", "class_method", "nested_def"}
  Befores = {"none", "stmt", "comment", "blank", "paren_stmt", "bs_stmt", "dq_block", "doc1"}
  Afters = {"none", "stmt", "blank", "comment", "comment_deep", "dq_block", "sq_block", "dq_block_deep", "doc1", "bs_stmt", "deco_def", "two_blocks"}
  Eofs = {"no", "nl", "nonl"}
  AnyLoneDelim = FALSE
INVARIANT RangeExact
INVARIANT ApplyExact
INVARIANT LineOwned
INVARIANT BlockKept
INVARIANT InsertSafe
CHECK_DEADLOCK FALSE
