INIT PTInit
NEXT PTNext
CONSTANTS
  MaxParams = 6
  MaxPos = 4
  MaxStarLit = 0
  MaxPost = 1
  MaxKw = 4
  MaxDKeys = 0
  Unknowns = FALSE
  MaxExp = 4
  Mutant = "none"
  FixStarKw = FALSE
  FixExtraKw = FALSE
  MaxStars = 3
  MaxDstars = 3
  MaxPairs = 4
  MaxStarArgs = 4
  PMutant = "none"
CHECK_DEADLOCK FALSE
