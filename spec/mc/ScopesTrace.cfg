INIT TInit
NEXT TNext
CONSTANTS
  MaxStmts = 1
  MaxDepth = 1
  Kinds = {"if"}
  GenVars = {"x", "y"}
  SimpleKinds = {"assign", "use", "call", "return", "raise", "break", "continue"}
CHECK_DEADLOCK FALSE
