INIT TInit
NEXT TNext
CONSTANTS
  MaxStmts = 1
  MaxDepth = 1
  Kinds = {"if"}
CHECK_DEADLOCK FALSE
