INIT CInit
NEXT CNext
CONSTANTS
  Mode = "pairs"
  Depth = 1
  PairOuter = "few"
  Lean = TRUE
  MaxDepth = 2
  Bug = "skip-type-of-generic"
INVARIANT InvReplacesAll
CHECK_DEADLOCK FALSE
