INIT Init
NEXT Next
CONSTANTS
  Kinds = {"bool", "int", "list"}
  MaxFiles = 2
  Rich = FALSE
  WithBad = TRUE
INVARIANT LayeringFollowsDocs
CHECK_DEADLOCK FALSE
INVARIANT EmitDone
