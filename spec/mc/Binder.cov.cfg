INIT Init
NEXT Next
CONSTANTS
  MaxParams = 2
  MaxPos = 2
  MaxStarLit = 1
  MaxPost = 1
  MaxKw = 2
  MaxDKeys = 1
  Unknowns = TRUE
  MaxExp = 4
  Mutant = "none"
  FixStarKw = FALSE
  FixExtraKw = FALSE
INVARIANT ConcreteAgrees
INVARIANT AcceptSound
INVARIANT RejectSound
INVARIANT MachineIsFold
INVARIANT PreErrors
CHECK_DEADLOCK FALSE
