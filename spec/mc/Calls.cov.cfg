INIT CInit
NEXT CNext
CONSTANTS
  Mode = "pairs"
  Depth = 1
  LitSet = "small"
  MaxPos = 1
  MaxKw = 1
  MaxArgs = 2
  FnFilter = "nogeneric3"
  Shapes = {"plain", "star"}
  MaxSess = 2
  FixProtoCache = TRUE
  Bug = "none"
INVARIANT InvBindAgree
CHECK_DEADLOCK FALSE
