----------------------------- MODULE FixReplaceEmit -----------------------------
EXTENDS FixReplace, Json
EmitProg == (stage = "fixing" /\ steps = 0) => PrintT(ToJson([prog |-> prog]))
=============================================================================
