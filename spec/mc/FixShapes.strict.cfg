INIT Init
NEXT Next
CONSTANTS
  MaxTargets = 2
  ChainAny = FALSE
INVARIANT AppliedIsIntendedStrict
CHECK_DEADLOCK FALSE
