INIT SInit
NEXT SNext
CONSTANTS
  Leaves = {"int"}
  Unary = {"list"}
  Binary = {"Or"}
  TopOnly = {"Final"}
  MaxNodes = 1
  MaxStack = 1
  BugOptionalDropsNone = FALSE
  FixedStar = TRUE
  FixedFinalInString = TRUE
  FixedNestedLiteral = TRUE
  BugBuiltinsFirst = FALSE
  AnnChoices = {"noann", "int", "QA"}
  DefaultChoices = {"none", "int:1", "name", "call", "lambda"}
  RetChoices = {"noann", "None", "QA", "IterInt", "AIterInt"}
  AsyncChoices = {FALSE, TRUE}
  FutureChoices = {FALSE, TRUE}
  DunderChoices = {FALSE}
  MaxParams = 2
  MaxPos = 2
  MaxKw = 1
  BugRuntimeIgnoresKwDefaults = FALSE
  BugStringDropsAllowUnpack = FALSE
  FixedDunder = FALSE
  ShapeChoices = {"method", "classmethod", "staticmethod", "wraps", "retyped", "generator"}
  BugBoundKeepsFirst = FALSE
  BugAsyncGenWrapped = FALSE
  FixedDeclaredReturn = FALSE
  FixedAsyncGenInferred = TRUE
INVARIANT ShapeViewsAgree
INVARIANT CallAwaitableAgrees
INVARIANT EmitShape
CHECK_DEADLOCK FALSE
