---------------------------- MODULE TypeEvalEmit ----------------------------
(* Emission wrapper: prints completed cases as JSON lines so that the harness can replay them.      *)
(* EmitMod = 1: every case.  EmitMod > 1: every probe case and the cases whose BODY has structural  *)
(* hash EmitRes modulo EmitMod (whole evaluator functions are sampled, with all their calls; the    *)
(* harness derives EmitRes from VERIF_SEED).                                                        *)
EXTENDS TypeEval, Json
CONSTANTS EmitMod, EmitRes

KCode(k) == CASE k = "if" -> 1 [] k = "elif" -> 2 [] k = "else" -> 3 [] k = "ret" -> 5 [] k = "err" -> 7 [] k = "pass" -> 11
SCode(s) == CASE s \in {"a", "prov", "eq", "ge", "L1", "int"} -> 1
              [] s \in {"b", "pos", "ne", "lt", "L2", "str"} -> 2
              [] s \in {"kw", "is", "Lx", "None"} -> 3
              [] OTHER -> 4
RECURSIVE CondCode(_), CondCodeFrom(_, _)
CondCode(c) ==
    CASE c.k = "none" -> 0
      [] c.k = "kind" -> 13 + 3 * SCode(c.f) + SCode(c.v)
      [] c.k = "oft" -> 17 + 5 * Len(c.tt) + 7 * SCode(c.tt[1]) + (IF c.x THEN 1 ELSE 0) + 2 * SCode(c.v)
      [] c.k = "cmp" -> 19 + 3 * SCode(c.op) + 5 * SCode(c.lit) + SCode(c.v)
      [] c.k = "ver" -> 23 + SCode(c.op) + (IF c.tup = << >> THEN 0 ELSE c.tup[Len(c.tup)].n) + 3 * Len(c.tup)
      [] c.k = "veri" -> 41 + SCode(c.op) + c.n + c.i
      [] c.k = "plat" -> 29 + SCode(c.op) + (IF c.name = "linux" THEN 1 ELSE 0)
      [] c.k = "platin" -> 43 + SCode(c.op) + Len(c.names)
      [] c.k = "platsw" -> 47 + SCode(c.name)
      [] c.k = "cmpin" -> 53 + SCode(c.op) + Len(c.lits)
      [] c.k = "chain" -> 59 + SCode(c.w)
      [] c.k = "cmprev" -> 61 + SCode(c.lit)
      [] c.k = "bare" -> 67 + SCode(c.w)
      [] c.k = "not" -> 2 * CondCode(c.c) + 1
      [] c.k = "and" -> 3 * CondCodeFrom(c.cs, 1) + 31
      [] c.k = "or" -> 3 * CondCodeFrom(c.cs, 1) + 37
CondCodeFrom(cs, i) == IF i > Len(cs) THEN 0 ELSE i * CondCode(cs[i]) + CondCodeFrom(cs, i + 1)
RECURSIVE BodyHashFrom(_, _)
BodyHashFrom(lines, i) ==
    IF i > Len(lines) THEN 0
    ELSE i * (7 * lines[i].ind + KCode(lines[i].k) + CondCode(lines[i].c)) + BodyHashFrom(lines, i + 1)
Selected(c) == EmitMod = 1 \/ IsProbe(c.lines) \/ IsProbe2(c.lines) \/ BodyHashFrom(c.lines, 1) % EmitMod = EmitRes

EmitDone == (stage = "done" /\ Selected(case)) => PrintT(ToJson(case))
=============================================================================
