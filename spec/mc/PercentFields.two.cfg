INIT SInit
NEXT SNext
CONSTANTS
  PKinds = {"str"}
  PTokens = {}
  MaxTokens = 0
  ScalarVals = {}
  TupleVals = {}
  MaxTuple = 0
  DictKeys = {}
  DictVals = {}
  MaxDict = 0
  BugFlag = "none"
  SKinds = {"str", "bytes"}
  SMaxItems = 2
  SLits <- M2Lits
  SKeys <- M2Keys
  SFlags <- M2Flags
  SWidths <- M2Widths
  SPrecs <- M2Precs
  SLens <- M2Lens
  SConvs <- M2Convs
  SShapes = {"scalar", "tuple", "dict"}
  SScalarVals <- M2Scalar
  SStarFit <- StarFit1
  SStarMis <- StarMis1
  SMaxMis = 0
  SConvVals <- M2Conv
  SExtraVals <- Extra1
  SDictKeys <- Q1DKeys
  SDictVals <- M2DVals
  SMaxDict = 1
INVARIANT Soundness
INVARIANT Precision
INVARIANT ResultType
INVARIANT NoCrash
INVARIANT EmitDone
CHECK_DEADLOCK FALSE
