INIT Init
NEXT Next
CONSTANTS
  MaxParams = 4
  MaxPos = 3
  MaxStarLit = 1
  MaxPost = 1
  MaxKw = 3
  MaxDKeys = 1
  Unknowns = TRUE
  MaxExp = 4
  Mutant = "none"
  FixStarKw = FALSE
  FixExtraKw = FALSE
INVARIANT ConcreteAgrees
INVARIANT AcceptSound
INVARIANT RejectSound
INVARIANT MachineIsFold
INVARIANT PreErrors
CHECK_DEADLOCK FALSE
