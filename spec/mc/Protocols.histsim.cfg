CONSTANTS
  Mode = "pairs"
  Depth = 1
  HistLen = 4
  HistSpace = "mid"
CHECK_DEADLOCK FALSE
INIT PInit
NEXT PNext
CONSTANTS
  PMode = "hist"
  PFlags = "real"
  PNoDev = ""
INVARIANT EmitH
