INIT TInit
NEXT TNext
CONSTANTS
  MaxStmts = 1
  MaxDepth = 1
  Slice = "all"
  UseY = FALSE
  Cats = {}
CHECK_DEADLOCK FALSE
