INIT TInit
NEXT TNext
CONSTANTS
  MaxStmts = 1
  MaxDepth = 1
CHECK_DEADLOCK FALSE
