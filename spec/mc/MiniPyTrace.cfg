INIT TInit
NEXT TNext
CONSTANTS
  MaxStmts = 1
  MaxDepth = 1
  UseY = FALSE
  Cats = {}
CHECK_DEADLOCK FALSE
