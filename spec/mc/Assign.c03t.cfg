INIT Init
NEXT Next
CONSTANTS
  Mode = "objects"
  Depth = 2
INVARIANT InvObjExact
CHECK_DEADLOCK FALSE
