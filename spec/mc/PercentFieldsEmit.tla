-------------------------- MODULE PercentFieldsEmit --------------------------
(* Emission wrapper: prints every completed case as one JSON line so that the harness can replay it. *)
EXTENDS PercentFields, Json
EmitDone == stage = "done" => PrintT(ToJson(case))
=============================================================================
