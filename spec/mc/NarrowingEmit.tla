---------------------------- MODULE NarrowingEmit ----------------------------
(* Emission wrapper: the object universe in its fixed order (once), every generated V at stage "c" (for the      *)
(* boolability observations) and every generated case (V, c) with the abstract constraint the model derives for *)
(* the condition (the driver builds the real Constraint objects from that term, mechanically).                   *)
EXTENDS Narrowing, Json
EmitObjs == stage = "v" => PrintT(ToJson([objs |-> ObjSeq]))
EmitV == stage = "c" => PrintT(ToJson([v |-> ta]))
EmitDone == NDone => PrintT(ToJson([v |-> ta, c |-> cnd, ac |-> ImplOfCond(cnd)]))
=============================================================================
