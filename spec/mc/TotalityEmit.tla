----------------------------- MODULE TotalityEmit -----------------------------
(* Wrappers that run one of the generators of Totality.tla / TotalityValues.tla and hand the finished cases to  *)
(* Python (PrintT(ToJson(case)) as an invariant).  Every wrapper starts all generators in their single initial  *)
(* state and steps exactly one of them.                                                                         *)
EXTENDS Totality, TotalityValues, Json
AllInit == GInit /\ LInit /\ PInit /\ YInit /\ VInit /\ RInit /\ KInit /\ DInit
\* G: modules made of fragments
Init == AllInit
Next == GNext /\ UNCHANGED <<lvars, pvars, yvars, vvars, rvars, kvars, dvars>>
EmitDone == stage = "done" => PrintT(ToJson([prog |-> prog]))
\* P: the abstract position model (no emission: checked against PosProperty)
PosInit == AllInit
PosNext == PNext /\ UNCHANGED <<gvars, lvars, yvars, vvars, rvars, kvars, dvars>>
\* Y: layouts
LayInit == AllInit
LayNext == YNext /\ UNCHANGED <<gvars, lvars, pvars, vvars, rvars, kvars, dvars>>
EmitLayout == ystage = "done" => PrintT(ToJson([layout |-> lay]))
\* V: pairs of Value terms; R: (object, type) pairs for the runtime API
ValInit == AllInit
ValNext == VNext /\ UNCHANGED <<gvars, lvars, pvars, yvars, rvars, kvars, dvars>>
EmitPair == vstage = "done" => PrintT(ToJson([a |-> vcase.a, b |-> vcase.b, fam |-> (vcase.a \in CallFamily /\ vcase.b \in CallFamily),
                                                      big |-> (IsBigUnion(vcase.a) \/ IsBigUnion(vcase.b))]))
RtInit == AllInit
RtNext == RNext /\ UNCHANGED <<gvars, lvars, pvars, yvars, vvars, kvars, dvars>>
EmitRt == rstage = "done" => PrintT(ToJson(rcase))
\* K: constant-folding cases
ConstInit == AllInit
ConstNext == KNext /\ UNCHANGED <<gvars, lvars, pvars, yvars, vvars, rvars, dvars>>
EmitConst == kstage = "done" => PrintT(ToJson([const |-> kcase]))
\* D: declaration-level class bodies
DeclInit == AllInit
DeclNext == DNext /\ UNCHANGED <<gvars, lvars, pvars, yvars, vvars, rvars, kvars>>
EmitDecl == dstage = "done" => PrintT(ToJson([decl |-> dcase]))
=============================================================================
