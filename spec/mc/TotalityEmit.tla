----------------------------- MODULE TotalityEmit -----------------------------
EXTENDS Totality, Json
Init == GInit /\ LInit
Next == GNext /\ UNCHANGED lvars
EmitDone == stage = "done" => PrintT(ToJson([prog |-> prog]))
=============================================================================
