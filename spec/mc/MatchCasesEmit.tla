--------------------------- MODULE MatchCasesEmit ---------------------------
(* Emission wrapper: every generated match function as one JSON line, together with the invariant InvMatch.       *)
EXTENDS MatchCases, Json
EmitMatch == MDone => PrintT(ToJson(MCase))
InvMatchEmit == MDone => PrintT(ToJson(MCase)) /\ MImplOK(MCase)
=============================================================================
