INIT KInit
NEXT KNext
CONSTANTS
  MaxParams = 3
  MaxPos = 1
  MaxStarLit = 1
  MaxPost = 0
  MaxKw = 1
  MaxDKeys = 0
  Unknowns = TRUE
  MaxExp = 4
  Mutant = "none"
  FixStarKw = FALSE
  FixExtraKw = FALSE
  Kinds = {"func", "lambda", "async", "wrapped", "annot", "smeth", "meth", "cmeth", "rawmeth", "callobj", "init", "inherit", "new", "newinit", "newstar", "initstar", "rawinit", "bare", "dataclass", "ntuple", "partial"}
  KMutant = "none"
INVARIANT KEmitDone
CHECK_DEADLOCK FALSE
