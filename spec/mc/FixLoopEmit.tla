----------------------------- MODULE FixLoopEmit -----------------------------
(* Emission wrapper: prints every original case of the fix loop (at the first loop state). *)
EXTENDS FixLoop, Json
SetToSeq(S) == LET RECURSIVE f(_) f(T) == IF T = {} THEN << >> ELSE LET x == CHOOSE y \in T : TRUE IN <<x>> \o f(T \ {x}) IN f(S)
EmitCase == (pc = "loop" /\ iter = 0) =>
    PrintT(ToJson([lines |-> case.lines, disabled |-> SetToSeq(case.disabled),
                   unused_on |-> case.unused_on, bare_on |-> case.bare_on]))
=============================================================================
