INIT Init
NEXT Next
CONSTANTS
  Kinds = {"bin", "ibin", "un", "sub", "attr"}
  BinOps = {"add", "mod"}
  UnOps = {"neg"}
  WithStubFacts = TRUE
  Fixed = {}
  WithGetattr = FALSE
  BugNoReflected = FALSE
INVARIANT DiagnosedIffRaises
INVARIANT LiteralEqualsResult
CHECK_DEADLOCK FALSE
