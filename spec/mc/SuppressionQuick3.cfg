INIT Init
NEXT QNext
CONSTANTS
  MaxLines = 3
  Pinned = FALSE
INVARIANT ProjectionOK
INVARIANT UsedAreComments
CHECK_DEADLOCK FALSE
