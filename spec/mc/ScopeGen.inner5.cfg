INIT GInit
NEXT GNext
CONSTANTS
  MaxStmts = 5
  MaxDepth = 2
  Kinds = {"if", "for"}
  GenVars = {"x"}
  SimpleKinds = {"assign", "use", "cuse", "citer", "cbind", "cwal"}
  Shape = "any"
INVARIANT InvAllLive
CHECK_DEADLOCK FALSE
