-------------------------- MODULE SubstContextsEmit --------------------------
(* Emission wrapper: every generated context case / equality pair as one JSON line. *)
EXTENDS SubstContexts, Json
EmitCtx == CDone => PrintT(ToJson([kind |-> "ctx", fs |-> cx, h |-> hl, m |-> tm, a |-> CA, bs |-> Companions(cx)]))
EmitPair == PDone => PrintT(ToJson([kind |-> "pair", fa |-> cx, fb |-> cy, ha |-> hl, hb |-> hy, a |-> Term(cx, hl), b |-> Term(cy, hy)]))
=============================================================================
