INIT SCInit
NEXT SCNext
CONSTANTS
  MaxExpected = 4
  MaxActual = 4
  ActNames = {"a", "b", "c", "d", "e"}
  MaxCallPos = 3
  MaxCallKw = 3
  TypeRanks = {1, 2, 3, 9}
  RetRanks = {1, 2, 9}
  SCMutant = "none"
INVARIANT BehaviourallySound
INVARIANT TypesSound
INVARIANT DevIsTight
INVARIANT MachineIsFoldC
INVARIANT EmitPair
CHECK_DEADLOCK FALSE
