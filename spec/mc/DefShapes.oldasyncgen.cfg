INIT SInit
NEXT SNext
CONSTANTS
  Leaves = {"int"}
  Unary = {"list"}
  Binary = {"Or"}
  TopOnly = {"Final"}
  MaxNodes = 1
  MaxStack = 1
  BugOptionalDropsNone = FALSE
  FixedStar = TRUE
  FixedFinalInString = TRUE
  FixedNestedLiteral = TRUE
  BugBuiltinsFirst = FALSE
  AnnChoices = {"noann", "int"}
  DefaultChoices = {"none"}
  RetChoices = {"noann", "AIterInt"}
  AsyncChoices = {FALSE, TRUE}
  FutureChoices = {FALSE}
  DunderChoices = {FALSE}
  MaxParams = 1
  MaxPos = 2
  MaxKw = 1
  BugRuntimeIgnoresKwDefaults = FALSE
  BugStringDropsAllowUnpack = FALSE
  FixedDunder = FALSE
  ShapeChoices = {"method", "classmethod", "staticmethod", "wraps", "retyped", "generator"}
  BugBoundKeepsFirst = FALSE
  BugAsyncGenWrapped = FALSE
  FixedDeclaredReturn = FALSE
  FixedAsyncGenInferred = FALSE
INVARIANT CallAwaitableAgrees
CHECK_DEADLOCK FALSE
