INIT GInit
NEXT GNext
CONSTANTS
  MaxStmts = 4
  MaxDepth = 2
  Kinds = {"while", "try"}
  GenVars = {"x"}
  SimpleKinds = {"assign", "use"}
  Shape = "any"
INVARIANT InvUnusedStrict
CHECK_DEADLOCK FALSE
