INIT TInit
NEXT TNext
CONSTANTS
  Mode = "pairs"
  Depth = 1
  PairOuter = "few"
  Lean = TRUE
  MaxDepth = 2
  Bug = "none"
CHECK_DEADLOCK FALSE
