INIT TInit
NEXT TNext
CONSTANTS
  Mode = "pairs"
  Depth = 1
  NFixed = {"len_reversed_mirrored"}
  NBug = "none"
  NVSpace = "none"
  NCompoundV = "none"
  NKinds = {}
  MSubjects = {}
  MPatterns = {}
  MGuards = {}
  MMaxCases = 0
  MBug = "none"
CHECK_DEADLOCK FALSE
