INIT Init
NEXT Next
CONSTANTS
  Mode = "objects"
  Depth = 2
INVARIANT EmitObj
CHECK_DEADLOCK FALSE
