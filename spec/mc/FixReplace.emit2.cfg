INIT Init
NEXT Next
CONSTANTS
  MaxFragments = 2
INVARIANT Converges
INVARIANT EachStepFixesOne
INVARIANT EmitProg
CHECK_DEADLOCK FALSE
