------------------------- MODULE SigCompatStarEmit -------------------------
(* Emission wrapper: prints every completed pair (expected, actual) as one JSON line. *)
EXTENDS SigCompatStar, Json
EmitPair == stage = "done" => PrintT(ToJson(case))
=============================================================================
