INIT TInit
NEXT TNext
CONSTANTS
  MaxFragments = 1
CHECK_DEADLOCK FALSE
