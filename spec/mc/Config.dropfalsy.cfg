INIT Init
NEXT Next
CONSTANTS
  Kinds = {"flag", "int", "paths"}
  MaxFiles = 1
  Rich = FALSE
  WithBad = FALSE
  Routes = {"kwargs", "argv"}
  Layouts = {"flat"}
  Slim = TRUE
  Spells = {"same"}
  HistKinds = {}
  MaxLookups = 0
INVARIANT DropFalsyFollowsDocs
CHECK_DEADLOCK FALSE
