INIT TInit
NEXT TNext
CONSTANTS
  Kinds = {"bin"}
  BinOps = {"add"}
  UnOps = {"neg"}
  WithStubFacts = TRUE
  WithGetattr = TRUE
  BugNoReflected = FALSE
CHECK_DEADLOCK FALSE
