INIT TInit
NEXT TNext
CONSTANTS
  Kinds = {"bin"}
  BinOps = {"add"}
  UnOps = {"neg"}
  WithStubFacts = TRUE
  Fixed = {}
  WithGetattr = TRUE
  BugNoReflected = FALSE
CHECK_DEADLOCK FALSE
