INIT TInit
NEXT TNext
CONSTANTS
  Profile = "tiny"
  MaxLines = 1
  MaxIfs = 1
  MaxDepth = 1
  MaxAtoms = 1
  MaxCondAtoms = 1
  Bug = "none"
  Fixed = {}
CHECK_DEADLOCK FALSE
