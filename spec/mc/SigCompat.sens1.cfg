INIT SCInit
NEXT SCNext
CONSTANTS
  MaxExpected = 2
  MaxActual = 2
  ActNames = {"a", "b", "d"}
  MaxCallPos = 3
  MaxCallKw = 3
  TypeRanks = {9}
  RetRanks = {9}
  SCMutant = "skip_final_loop"
INVARIANT BehaviourallySound
CHECK_DEADLOCK FALSE
