INIT Init
NEXT Next
CONSTANTS
  Kinds = {"paths"}
  MaxFiles = 2
  Rich = FALSE
  WithBad = FALSE
  Routes = {"kwargs"}
  Layouts = {"flat", "nested"}
  Slim = TRUE
  Spells = {"same"}
  HistKinds = {}
  MaxLookups = 0
INVARIANT MainDirFollowsDocs
CHECK_DEADLOCK FALSE
