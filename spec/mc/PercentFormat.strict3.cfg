INIT Init
NEXT Next
CONSTANTS
  PKinds = {"str"}
  PTokens <- TokQuick
  MaxTokens = 3
  ScalarVals <- ValsQScalar
  TupleVals <- ValsQTuple
  MaxTuple = 0
  DictKeys <- KeysQuick
  DictVals <- ValsQDict
  MaxDict = 1
  BugFlag = "none"
INVARIANT NoCrashStrict
CHECK_DEADLOCK FALSE
