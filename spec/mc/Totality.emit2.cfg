INIT Init
NEXT Next
CONSTANTS
  MaxFragments = 2
INVARIANT TypeOK
INVARIANT EmitDone
CHECK_DEADLOCK FALSE
