INIT PInit
NEXT PNext
CONSTANTS
  MaxParams = 1
  MaxPos = 0
  MaxStarLit = 0
  MaxPost = 0
  MaxKw = 0
  MaxDKeys = 0
  Unknowns = FALSE
  MaxExp = 4
  Mutant = "none"
  FixStarKw = FALSE
  FixExtraKw = FALSE
  MaxStars = 0
  MaxDstars = 1
  MaxPairs = 2
  MaxStarArgs = 1
  PMutant = "last_pair_decides"
INVARIANT PrepConcrete
CHECK_DEADLOCK FALSE
