INIT Init
NEXT Next
CONSTANTS
  Bug = "none"
  MinOv = 2
  MaxOv = 3
  MinParams = 1
  MaxParams = 1
  ParamTypes = {"int", "str", "object", "any", "list[int]", "list[any]"}
  ArgTypes = {"any", "list[any]", "any|str", "str|any", "any|none", "int|str|any", "list[any]|str", "str|list[any]", "any|list[int]", "list[int]|str"}
  Names = {"x"}
  Kinds = {"pk"}
  Defaults = {FALSE}
  MaxArgs = 1
  KwCalls = TRUE
  MaxRet = 4
  DistinctRets = FALSE
  MaxUnionArgs = 1
  EmitOneIn = 1
INVARIANT PropertyHolds
INVARIANT MachineIsOperator
INVARIANT BinderAgrees
INVARIANT RefFirstIsClause1
INVARIANT EmitDone
CHECK_DEADLOCK FALSE
