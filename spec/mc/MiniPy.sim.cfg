INIT MInit
NEXT MNext
CONSTANTS
  MaxStmts = 6
  MaxDepth = 3
  Slice = "all"
  UseY = TRUE
  Cats = {"assign-v", "assign-x", "unpack", "aug", "expr", "return", "assert", "save", "mut", "loopjump", "raise",
          "if", "ifelse", "while", "whileelse", "for", "forelse", "try", "with", "match"}
INVARIANT Inhabited
INVARIANT EmitDone
CHECK_DEADLOCK FALSE
