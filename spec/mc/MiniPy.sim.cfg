INIT MInit
NEXT MNext
CONSTANTS
  MaxStmts = 5
  MaxDepth = 3
INVARIANT Inhabited
INVARIANT EmitDone
CHECK_DEADLOCK FALSE
