INIT Init
NEXT Next
CONSTANTS
  FTokens <- FTokSim
  MaxFTokens = 7
  PosVals <- FValsFull
  MaxPos = 3
  KwNames <- NamesAB
  KwVals <- FValsFull
  MaxKw = 2
  FBug = "none"
INVARIANT Modelled
INVARIANT Soundness
INVARIANT Precision
INVARIANT ResultType
INVARIANT EmitDone
CHECK_DEADLOCK FALSE
