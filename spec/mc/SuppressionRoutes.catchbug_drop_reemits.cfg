INIT RInit
NEXT RNext
CONSTANTS
  MaxLines = 6
  Pinned = FALSE
  MinLines = 1
  Bug = "drop_reemits"
  RDiagSets <- DiagsCatch
  RIgnSet <- IgnsBlockQuick
  RShapes <- ShapesBlock
  ROtherShapes <- OtherPlain
  CfgCodes <- CodesCatch
  CfgAlls <- AllsNone
  CfgFlags <- FlagsNoBoth
  CfgTris <- TrisUnset
  RPrefixes <- BlockPrefixes
INVARIANT RProjectionOK
INVARIANT RChainOnce
INVARIANT RUsedAreComments
INVARIANT REnabledOK
CHECK_DEADLOCK FALSE
