INIT HInit
NEXT HNext
CONSTANTS
  Leaves = {"int"}
  Unary = {"list"}
  Binary = {"Or"}
  TopOnly = {"Final"}
  MaxNodes = 1
  MaxStack = 1
  BugOptionalDropsNone = FALSE
  FixedStar = TRUE
  FixedFinalInString = TRUE
  FixedNestedLiteral = TRUE
  BugBuiltinsFirst = FALSE
  AnnChoices = {"noann", "int"}
  DefaultChoices = {"none", "name", "call", "lambda"}
  RetChoices = {"None"}
  AsyncChoices = {FALSE}
  FutureChoices = {FALSE, TRUE}
  DunderChoices = {FALSE}
  MaxParams = 1
  MaxPos = 2
  MaxKw = 1
  BugRuntimeIgnoresKwDefaults = FALSE
  BugStringDropsAllowUnpack = FALSE
  FixedDunder = FALSE
INVARIANT HeaderViewsAgree
INVARIANT ViewsMatchInspect
INVARIANT EmitHeader
CHECK_DEADLOCK FALSE
