INIT TInit
NEXT TNext
CONSTANTS
  Leaves = {"int"}
  Unary = {"list"}
  Binary = {"Or"}
  TopOnly = {"Final"}
  MaxNodes = 1
  MaxStack = 1
  BugOptionalDropsNone = FALSE
  FixedStar = TRUE
  FixedFinalInString = TRUE
  FixedNestedLiteral = TRUE
  BugBuiltinsFirst = FALSE
  AnnChoices = {"int", "Qint", "UnpTupIS", "QUnpTupIS", "UnpTupEll", "QUnpTupEll", "StarTupIS", "UnpTDN", "QUnpTDN"}
  DefaultChoices = {"none"}
  RetChoices = {"noann"}
  AsyncChoices = {FALSE}
  FutureChoices = {FALSE, TRUE}
  DunderChoices = {FALSE}
  MaxParams = 1
  MaxPos = 3
  MaxKw = 2
  BugRuntimeIgnoresKwDefaults = FALSE
  BugStringDropsAllowUnpack = FALSE
  FixedDunder = FALSE
CHECK_DEADLOCK FALSE
