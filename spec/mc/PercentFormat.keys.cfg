INIT Init
NEXT Next
CONSTANTS
  PKinds = {"str", "bytes"}
  PTokens <- TokKeys
  MaxTokens = 6
  ScalarVals <- ValsOne
  TupleVals <- ValsOne
  MaxTuple = 0
  DictKeys <- KeysFull
  DictVals <- ValsOne
  MaxDict = 1
  BugFlag = "none"
INVARIANT Soundness
INVARIANT Precision
INVARIANT ResultType
INVARIANT NoCrash
INVARIANT EmitDone
CHECK_DEADLOCK FALSE
