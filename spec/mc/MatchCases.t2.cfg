INIT MInit
NEXT MNext
CONSTANTS
  Mode = "pairs"
  Depth = 1
  NFixed = {"len_reversed_mirrored"}
  NBug = "none"
  NVSpace = "none"
  NCompoundV = "none"
  NKinds = {}
  MSubjects = {"oi", "lit", "b"}
  MPatterns = {"None", "1", "True", "int()", "_", "1|None"}
  MGuards = {"none", "flag", "guse", "xnn"}
  MMaxCases = 3
  MBug = "none"
INVARIANT InvMatchEmit
CHECK_DEADLOCK FALSE
