INIT LayInit
NEXT LayNext
CONSTANTS
  MaxFragments = 1
  FnScopes = {"def"}
  MaxDepth = 1
  FixedLines = TRUE
  FixedFwd = TRUE
  KSecondFull = FALSE
  PosMaxLines = 4
  NodesHavePos = TRUE
  DevOn = {"byte"}
  YSites = {"oneline", "body", "continuation", "mlcall", "decorator", "fstring", "fstring_ml", "fstring_spec", "classbody", "nesteddef", "lambda_default", "comprehension", "strannot", "strannot_esc", "strannot_wide", "strannot_ml"}
  YPads = {"none", "u2", "u2x20", "u3", "u4", "tab", "ff", "vt", "fs", "nel", "ls", "ps"}
  YBefore = {0, 1, 2, 3, 4, 7}
  YAfter = {0, 1, 2, 3, 4, 7}
  YFillers = {"plain", "wide", "ff", "ls", "nel"}
  YNewlines = {"lf", "crlf", "cr"}
  YTrail = {TRUE, FALSE}
INVARIANT EmitLayout
CHECK_DEADLOCK FALSE
