INIT KInit
NEXT KNext
CONSTANTS
  MaxParams = 4
  MaxPos = 3
  MaxStarLit = 2
  MaxPost = 1
  MaxKw = 3
  MaxDKeys = 2
  Unknowns = TRUE
  MaxExp = 4
  Mutant = "none"
  FixStarKw = FALSE
  FixExtraKw = FALSE
  Kinds = {"func", "lambda", "async", "wrapped", "annot", "smeth", "meth", "cmeth", "rawmeth", "callobj", "init", "inherit", "new", "newinit", "newstar", "initstar", "rawinit", "bare", "dataclass", "ntuple", "partial"}
  KMutant = "none"
INVARIANT KindConcrete
INVARIANT KindAcceptSound
INVARIANT KindRejectSound
INVARIANT RoutesTotal
INVARIANT KEmitDone
CHECK_DEADLOCK FALSE
