INIT Init
NEXT Next
CONSTANTS
  Pinned = FALSE
  NSeeds = 2
  MaxHist = 2
INVARIANT DeterministicStrict
CHECK_DEADLOCK FALSE
