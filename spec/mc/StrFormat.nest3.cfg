INIT Init
NEXT Next
CONSTANTS
  FTokens <- FTokNest
  MaxFTokens = 3
  PosVals <- FValsNest
  MaxPos = 2
  KwNames <- NamesA
  KwVals <- FValsKw
  MaxKw = 0
  FBug = "none"
INVARIANT Modelled
INVARIANT Soundness
INVARIANT Precision
INVARIANT ResultType
INVARIANT EmitDone
CHECK_DEADLOCK FALSE
