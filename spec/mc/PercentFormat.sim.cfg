INIT Init
NEXT Next
CONSTANTS
  PKinds = {"str", "bytes"}
  PTokens <- TokSim
  MaxTokens = 6
  ScalarVals <- ValsAll
  TupleVals <- ValsAll
  MaxTuple = 3
  DictKeys <- KeysFull
  DictVals <- ValsAll
  MaxDict = 2
  BugFlag = "none"
INVARIANT Soundness
INVARIANT Precision
INVARIANT ResultType
INVARIANT NoCrash
INVARIANT EmitDone
CHECK_DEADLOCK FALSE
