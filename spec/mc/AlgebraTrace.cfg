INIT TInit
NEXT TNext
CONSTANTS
  Mode = "pairs"
  Depth = 1
CHECK_DEADLOCK FALSE
