INIT PInit
NEXT PNext
CONSTANTS
  MaxParams = 1
  MaxPos = 1
  MaxStarLit = 0
  MaxPost = 0
  MaxKw = 1
  MaxDKeys = 0
  Unknowns = FALSE
  MaxExp = 4
  Mutant = "none"
  FixStarKw = FALSE
  FixExtraKw = FALSE
  MaxStars = 1
  MaxDstars = 1
  MaxPairs = 2
  MaxStarArgs = 1
  PMutant = "none"
INVARIANT PrepConcrete
INVARIANT PrepAcceptSound
INVARIANT PrepRejectSound
INVARIANT AlwaysBindingAccepted
INVARIANT PEmitDone
CHECK_DEADLOCK FALSE
