--------------------------- MODULE AnnotationsEmit ---------------------------
(* Emission wrapper: prints every completed, CPython-evaluable annotation expression as one JSON line. *)
EXTENDS Annotations, Json
EmitDone == (stage = "done") => PrintT(ToJson(case))
=============================================================================
