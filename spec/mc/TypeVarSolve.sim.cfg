INIT Init
NEXT Next
CONSTANTS
  Mode = "raw"
  ValSeq <- ValsFull
  OneOfSeq <- OneOfsFull
  OrSeq <- OrsFull
  MaxBounds = 6
  ParamSeq <- ParamsSmall
  DeclSeq <- DeclsFull
  MaxParams = 1
  MinSize = 5
  Bug = "none"
INVARIANT SolutionSatisfiesBounds
INVARIANT UnsatIsDiagnosed
INVARIANT OrderIndependent
INVARIANT MachineIsOperator
INVARIANT EmitCase
CHECK_DEADLOCK FALSE
