INIT MInit
NEXT MNext
CONSTANTS
  MaxStmts = 1
  MaxDepth = 1
  Slice = "index"
  UseY = TRUE
  Cats = {"assign-v", "mut", "unpack"}
INVARIANT Inhabited
INVARIANT EmitDone
CHECK_DEADLOCK FALSE
