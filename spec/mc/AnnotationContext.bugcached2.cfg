INIT CInit
NEXT CNext
CONSTANTS
  Leaves = {"int"}
  Unary = {"list"}
  Binary = {"Or"}
  TopOnly = {"Final"}
  MaxNodes = 1
  MaxStack = 1
  BugOptionalDropsNone = FALSE
  FixedStar = TRUE
  FixedFinalInString = TRUE
  FixedNestedLiteral = TRUE
  BugBuiltinsFirst = FALSE
  CtxForms = {"bare", "q", "List", "Optional", "list", "qList", "qListq", "Union", "UnionNone", "ListList", "DictStr", "Type", "TupleEll", "CallableArg", "aFwd", "aList", "aListFwd"}
  CtxRefNames = {"K", "Solo"}
  CtxFuture = {FALSE, TRUE}
  CtxShared = {TRUE, FALSE}
  CtxAgents = {"gthA", "gthB", "pyzA", "pyzB"}
  MaxHist = 2
  CtxPairs = "same"
  BugPreferCachedForward = TRUE
  BugFallbackAnyModule = FALSE
INVARIANT CtxDeclaringModule
CHECK_DEADLOCK FALSE
