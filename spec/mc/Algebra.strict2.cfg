INIT AInit
NEXT ANext
CONSTANTS
  Mode = "pairs"
  Depth = 1
INVARIANT InvIdemStrict
CHECK_DEADLOCK FALSE
