INIT Init
NEXT Next
CONSTANTS
  MaxParams = 2
  MaxPos = 2
  MaxStarLit = 1
  MaxPost = 0
  MaxKw = 2
  MaxDKeys = 1
  Unknowns = FALSE
  MaxExp = 4
  Mutant = "drop_both_given"
  FixStarKw = FALSE
  FixExtraKw = FALSE
INVARIANT ConcreteAgrees
CHECK_DEADLOCK FALSE
