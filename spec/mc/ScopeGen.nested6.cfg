INIT GInit
NEXT GNext
CONSTANTS
  MaxStmts = 6
  MaxDepth = 3
  Kinds = {"if", "try", "withsupp"}
  GenVars = {"x"}
  SimpleKinds = {"assign", "use", "call", "return"}
  Shape = "any"
INVARIANT InvAll
CHECK_DEADLOCK FALSE
