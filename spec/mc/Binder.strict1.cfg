INIT Init
NEXT Next
CONSTANTS
  MaxParams = 2
  MaxPos = 1
  MaxStarLit = 0
  MaxPost = 0
  MaxKw = 1
  MaxDKeys = 0
  Unknowns = TRUE
  MaxExp = 4
  Mutant = "none"
  FixStarKw = FALSE
  FixExtraKw = FALSE
INVARIANT RejectSoundStrict
CHECK_DEADLOCK FALSE
