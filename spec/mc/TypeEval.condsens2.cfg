INIT Init
NEXT Next
CONSTANTS
  Profile = "cenv"
  MaxLines = 3
  MaxIfs = 1
  MaxDepth = 2
  MaxAtoms = 2
  MaxCondAtoms = 2
  Bug = "ver3"
  Fixed = {}
INVARIANT EvalFollowsSpec
CHECK_DEADLOCK FALSE
