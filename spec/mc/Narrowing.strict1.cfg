INIT NInit
NEXT NNext
CONSTANTS
  Mode = "pairs"
  Depth = 1
  NBug = "none"
  NVSpace = "tiny"
  NCompoundV = "none"
  NKinds = {"isinstance", "truthy", "typeis"}
INVARIANT InvN1Strict
CHECK_DEADLOCK FALSE
