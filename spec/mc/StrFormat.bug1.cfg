INIT Init
NEXT Next
CONSTANTS
  FTokens <- FTokQuick
  MaxFTokens = 3
  PosVals <- FValsCore
  MaxPos = 1
  KwNames <- NamesA
  KwVals <- FValsKw
  MaxKw = 1
  FBug = "ignore-index-range"
INVARIANT Soundness
CHECK_DEADLOCK FALSE
