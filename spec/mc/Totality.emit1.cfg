INIT Init
NEXT Next
CONSTANTS
  MaxFragments = 1
INVARIANT TypeOK
INVARIANT EmitDone
CHECK_DEADLOCK FALSE
