INIT Init
NEXT Next
CONSTANTS
  Kinds = {"int"}
  MaxFiles = 3
  Rich = FALSE
  WithBad = TRUE
  Routes = {"inst"}
  Layouts = {"flat"}
  Slim = TRUE
  Spells = {"same", "dot", "up", "abs", "redundant", "symlink"}
  HistKinds = {}
  MaxLookups = 0
INVARIANT LayeringFollowsDocs
CHECK_DEADLOCK FALSE
INVARIANT EmitDone
