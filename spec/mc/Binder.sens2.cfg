INIT Init
NEXT Next
CONSTANTS
  MaxParams = 2
  MaxPos = 2
  MaxStarLit = 1
  MaxPost = 0
  MaxKw = 2
  MaxDKeys = 1
  Unknowns = FALSE
  MaxExp = 4
  Mutant = "ignore_extra_keywords"
  FixStarKw = FALSE
  FixExtraKw = FALSE
INVARIANT ConcreteAgrees
CHECK_DEADLOCK FALSE
