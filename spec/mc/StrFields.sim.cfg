INIT XInit
NEXT XNext
CONSTANTS
  FTokens = {}
  MaxFTokens = 0
  PosVals = {}
  MaxPos = 0
  KwNames = {}
  KwVals = {}
  MaxKw = 0
  FBug = "none"
  XMaxItems = 2
  XLits <- F2XLits
  XNames <- F2XNames
  XChains <- F2XChains
  XConvs <- F2XConvs
  XSpecs <- F2XSpecs
  XPosVals <- F1XPos
  XExtraVals <- XOne
  XKwNames <- KwABW
  XKwVals <- F1XKw
  XKwExtraVals <- XOne
INVARIANT Modelled
INVARIANT Soundness
INVARIANT Precision
INVARIANT ResultType
INVARIANT EmitDone
CHECK_DEADLOCK FALSE
