INIT RInit
NEXT RNext
CONSTANTS
  Routes = {"override"}
  Shapes = {"single"}
  MethodNames = {"f"}
  SelfKinds = {"pk", "none"}
  BaseNaming = "pos"
  FixedMemberWithoutSelf = TRUE
  RMutant = "child_unbound_ok"
  MaxExpected = 1
  MaxActual = 1
  ActNames = {"a"}
  MaxCallPos = 3
  MaxCallKw = 3
  TypeRanks = {9}
  RetRanks = {9}
  SCMutant = "none"
INVARIANT OverrideSound
CHECK_DEADLOCK FALSE
