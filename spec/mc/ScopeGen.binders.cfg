INIT GInit
NEXT GNext
CONSTANTS
  MaxStmts = 4
  MaxDepth = 2
  Kinds = {"if", "ifw", "forv", "withas", "withsuppas", "try"}
  GenVars = {"x"}
  SimpleKinds = {"assign", "use", "aug", "import", "exas", "call", "return"}
  Shape = "any"
INVARIANT InvAllLive
INVARIANT EmitLive
CHECK_DEADLOCK FALSE
