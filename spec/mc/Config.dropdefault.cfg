INIT Init
NEXT Next
CONSTANTS
  Kinds = {"bool"}
  MaxFiles = 1
  Rich = FALSE
  WithBad = FALSE
  Routes = {"kwargs", "argv"}
  Layouts = {"flat"}
  Slim = TRUE
  Spells = {"same"}
  HistKinds = {}
  MaxLookups = 0
INVARIANT DropDefaultSettingsFollowsDocs
CHECK_DEADLOCK FALSE
