INIT Init
NEXT Next
CONSTANTS
  Kinds = {"bool"}
  MaxFiles = 2
  Rich = FALSE
  WithBad = FALSE
  Routes = {"inst"}
  Layouts = {"flat"}
  Slim = FALSE
  Spells = {"same"}
  HistKinds = {}
  MaxLookups = 0
INVARIANT PinnedFollowsDocs
CHECK_DEADLOCK FALSE
