INIT Init
NEXT Next
CONSTANTS
  Kinds = {"flag", "int"}
  MaxFiles = 1
  Rich = FALSE
  WithBad = FALSE
  Routes = {"argv"}
  Layouts = {"flat"}
  Slim = TRUE
  Spells = {"same"}
  HistKinds = {}
  MaxLookups = 0
INVARIANT ArgvFirstWinsFollowsDocs
CHECK_DEADLOCK FALSE
