INIT GInit
NEXT GNext
CONSTANTS
  MaxStmts = 5
  MaxDepth = 2
  Kinds = {"match", "if"}
  GenVars = {"x"}
  SimpleKinds = {"assign", "use", "return"}
  Shape = "any"
INVARIANT InvAllLive
INVARIANT EmitLive
CHECK_DEADLOCK FALSE
