INIT XInit
NEXT XNext
CONSTANTS
  FTokens = {}
  MaxFTokens = 0
  PosVals = {}
  MaxPos = 0
  KwNames = {}
  KwVals = {}
  MaxKw = 0
  FBug = "none"
  XMaxItems = 2
  XLits <- N1XLits
  XNames <- N1XNames
  XChains <- N1XChains
  XConvs <- N1XPlain
  XSpecs <- N1XPlain
  XPosVals <- XOne
  XExtraVals <- XOne
  XKwNames <- KwEdge
  XKwVals <- XOne
  XKwExtraVals <- XOne
INVARIANT Modelled
INVARIANT Soundness
INVARIANT Precision
INVARIANT ResultType
INVARIANT NoCrash
INVARIANT EmitDone
CHECK_DEADLOCK FALSE
