INIT KInit
NEXT KNext
CONSTANTS
  MaxParams = 1
  MaxPos = 1
  MaxStarLit = 0
  MaxPost = 0
  MaxKw = 1
  MaxDKeys = 0
  Unknowns = TRUE
  MaxExp = 4
  Mutant = "none"
  FixStarKw = FALSE
  FixExtraKw = FALSE
  Kinds = {"func", "lambda", "async", "wrapped", "annot", "smeth", "meth", "cmeth", "rawmeth", "callobj", "init", "inherit", "new", "newinit", "newstar", "initstar", "rawinit", "bare", "dataclass", "ntuple", "partial"}
  KMutant = "none"
INVARIANT KindConcrete
INVARIANT KindAcceptSound
INVARIANT KindRejectSound
INVARIANT RoutesTotal
CHECK_DEADLOCK FALSE
