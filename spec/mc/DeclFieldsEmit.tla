--------------------------- MODULE DeclFieldsEmit ---------------------------
(* Emission wrapper: every completed declaration case of DeclFields as one JSON line. *)
EXTENDS DeclFields, Json
EmitDecl == (stage = "done") => PrintT(ToJson(case))
=============================================================================
