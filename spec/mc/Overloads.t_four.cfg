INIT Init
NEXT Next
CONSTANTS
  Bug = "none"
  MinOv = 4
  MaxOv = 4
  MinParams = 0
  MaxParams = 1
  ParamTypes = {"int", "str", "object", "any"}
  ArgTypes = {"int", "bool", "str", "none", "float", "any", "int|str", "int|none", "bool|str", "int|str|none"}
  Names = {"x"}
  Kinds = {"pk"}
  Defaults = {FALSE}
  MaxArgs = 1
  KwCalls = TRUE
  MaxRet = 4
  DistinctRets = FALSE
  MaxUnionArgs = 1
  EmitOneIn = 4
INVARIANT PropertyHolds
INVARIANT MachineIsOperator
INVARIANT BinderAgrees
INVARIANT EmitDone
CHECK_DEADLOCK FALSE
