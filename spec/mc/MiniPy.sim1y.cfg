INIT MInit
NEXT MNext
CONSTANTS
  MaxStmts = 1
  MaxDepth = 1
  Slice = "all"
  UseY = TRUE
  Cats = {"assign-v", "unpack", "aug", "expr", "assert", "mut", "return", "save"}
INVARIANT Inhabited
INVARIANT EmitDone
CHECK_DEADLOCK FALSE
