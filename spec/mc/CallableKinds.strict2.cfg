INIT KInit
NEXT KNext
CONSTANTS
  MaxParams = 1
  MaxPos = 1
  MaxStarLit = 0
  MaxPost = 0
  MaxKw = 1
  MaxDKeys = 0
  Unknowns = TRUE
  MaxExp = 4
  Mutant = "none"
  FixStarKw = FALSE
  FixExtraKw = FALSE
  Kinds = {"meth", "init"}
  KMutant = "none"
INVARIANT KindAcceptSoundStrict
CHECK_DEADLOCK FALSE
