INIT XInit
NEXT XNext
CONSTANTS
  FTokens = {}
  MaxFTokens = 0
  PosVals = {}
  MaxPos = 0
  KwNames = {}
  KwVals = {}
  MaxKw = 0
  FBug = "isdigit-name"
  XMaxItems = 2
  XLits <- N1XLits
  XNames <- N1XNames
  XChains <- N1XChains
  XConvs <- N1XPlain
  XSpecs <- N1XPlain
  XPosVals <- XOne
  XExtraVals <- XOne
  XKwNames <- KwEdge
  XKwVals <- XOne
  XKwExtraVals <- XOne
INVARIANT NoCrash
CHECK_DEADLOCK FALSE
