INIT TInit
NEXT TNext
CONSTANTS
  Bug = "none"
  MinOv = 2
  MaxOv = 2
  MinParams = 0
  MaxParams = 1
  ParamTypes = {"int"}
  ArgTypes = {"int"}
  Names = {"x"}
  Kinds = {"pk"}
  Defaults = {FALSE}
  MaxArgs = 1
  KwCalls = FALSE
  MaxRet = 4
  DistinctRets = FALSE
  MaxUnionArgs = 1
CHECK_DEADLOCK FALSE
