INIT SCInit
NEXT StarNext
CONSTANTS
  ExpKinds = {"po", "pk", "va", "vk"}
  ActKinds = {"po", "pk", "va", "vk"}
  MaxExpected = 2
  MaxActual = 2
  ActNames = {"a", "b"}
  MaxCallPos = 3
  MaxCallKw = 3
  TypeRanks = {1, 2, 5, 9}
  RetRanks = {9}
  SCMutant = "none"
INVARIANT BehaviourallySound
INVARIANT TypesSound
INVARIANT DevIsTight
INVARIANT MachineIsFoldC
INVARIANT EmitPair
CHECK_DEADLOCK FALSE
