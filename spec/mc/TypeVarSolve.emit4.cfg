INIT Init
NEXT Next
CONSTANTS
  Mode = "raw"
  ValSeq <- ValsFull
  OneOfSeq <- OneOfsFull
  OrSeq <- OrsFull
  MaxBounds = 4
  ParamSeq <- ParamsSmall
  DeclSeq <- DeclsFull
  MaxParams = 1
  MinSize = 0
  Bug = "none"
INVARIANT SolutionSatisfiesBounds
INVARIANT UnsatIsDiagnosed
INVARIANT OrderIndependent
INVARIANT MachineIsOperator
INVARIANT EmitCase
CHECK_DEADLOCK FALSE
