INIT XInit
NEXT XNext
CONSTANTS
  FTokens = {}
  MaxFTokens = 0
  PosVals = {}
  MaxPos = 0
  KwNames = {}
  KwVals = {}
  MaxKw = 0
  FBug = "none"
  XMaxItems = 1
  XLits <- F1XLits
  XNames <- F1XNames
  XChains <- F1XChains
  XConvs <- F1XConvs
  XSpecs <- F1XSpecs
  XPosVals <- F1XPos
  XExtraVals <- XOne
  XKwNames <- KwEdge
  XKwVals <- F1XKw
  XKwExtraVals <- XOne
INVARIANT Modelled
INVARIANT Soundness
INVARIANT Precision
INVARIANT ResultType
INVARIANT EmitDone
CHECK_DEADLOCK FALSE
