INIT Init
NEXT Next
CONSTANTS
  MaxLines = 2
  Pinned = TRUE
INVARIANT ProjectionOK
INVARIANT UsedAreComments
CHECK_DEADLOCK FALSE
