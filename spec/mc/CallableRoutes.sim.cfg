INIT RInit
NEXT RNext
CONSTANTS
  Routes = {"override", "callable", "protocol"}
  Shapes = {"single", "chain2", "multi2", "chain3", "multi3", "mixedL", "mixedR"}
  MethodNames = {"f", "__ne__"}
  SelfKinds = {"pk", "po", "none"}
  BaseNaming = "set"
  FixedMemberWithoutSelf = TRUE
  RMutant = "none"
  MaxExpected = 3
  MaxActual = 3
  ActNames = {"a", "b", "c", "d"}
  MaxCallPos = 3
  MaxCallKw = 3
  TypeRanks = {1, 2, 3, 9}
  RetRanks = {1, 2, 9}
  SCMutant = "none"
INVARIANT OverrideSound
INVARIANT CallableParamSound
INVARIANT ProtocolSound
INVARIANT RouteTypesSound
INVARIANT RouteDevTight
INVARIANT RouteMachineIsFold
INVARIANT IterationCoversAncestors
INVARIANT EmitRoute
CHECK_DEADLOCK FALSE
