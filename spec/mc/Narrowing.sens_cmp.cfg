INIT NInit
NEXT NNext
CONSTANTS
  Mode = "pairs"
  Depth = 1
  NFixed = {"len_reversed_mirrored"}
  NBug = "cmp_neg_not_negated"
  NVSpace = "tiny"
  NCompoundV = "none"
  NKinds = {"cmp"}
INVARIANT InvN1
CHECK_DEADLOCK FALSE
