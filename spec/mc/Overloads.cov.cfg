INIT Init
NEXT Next
CONSTANTS
  Bug = "none"
  MinOv = 2
  MaxOv = 2
  MinParams = 2
  MaxParams = 2
  ParamTypes = {"int", "str"}
  ArgTypes = {"int", "any", "int|str", "any|str"}
  Names = {"x", "y"}
  Kinds = {"pk"}
  Defaults = {FALSE}
  MaxArgs = 2
  KwCalls = FALSE
  MaxRet = 4
  DistinctRets = TRUE
  MaxUnionArgs = 1
  EmitOneIn = 1
INVARIANT EmitKinds
CHECK_DEADLOCK FALSE
