INIT Init
NEXT Next
CONSTANTS
  MaxFragments = 4
  FnScopes = {"def", "async"}
  MaxDepth = 3
  FixedLines = TRUE
  FixedFwd = TRUE
  KSecondFull = FALSE
  PosMaxLines = 4
  NodesHavePos = TRUE
  DevOn = {"byte"}
  YSites = {"oneline"}
  YPads = {"none"}
  YBefore = {0}
  YAfter = {0}
  YFillers = {"plain"}
  YNewlines = {"lf"}
  YTrail = {TRUE}
INVARIANT TypeOK
INVARIANT EmitDone
CHECK_DEADLOCK FALSE
