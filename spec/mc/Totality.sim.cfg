INIT Init
NEXT Next
CONSTANTS
  MaxFragments = 4
INVARIANT TypeOK
INVARIANT EmitDone
CHECK_DEADLOCK FALSE
