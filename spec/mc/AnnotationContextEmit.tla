----------------------- MODULE AnnotationContextEmit -----------------------
(* Emission wrapper: prints every completed case (world + history) of AnnotationContext as one JSON line. *)
EXTENDS AnnotationContext, Json
EmitCtx == (stage = "done") => PrintT(ToJson(case))
=============================================================================
