INIT Init
NEXT Next
CONSTANTS
  Mode = "pairs"
  Depth = 1
INVARIANT InvSoundStrict
CHECK_DEADLOCK FALSE
