INIT NInit
NEXT NNext
CONSTANTS
  Mode = "pairs"
  Depth = 1
  NFixed = {"len_reversed_mirrored"}
  NBug = "eq_bool_no_typecheck"
  NVSpace = "tiny"
  NCompoundV = "none"
  NKinds = {"eq"}
INVARIANT InvN1
CHECK_DEADLOCK FALSE
