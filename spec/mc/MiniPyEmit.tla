------------------------------ MODULE MiniPyEmit ------------------------------
EXTENDS MiniPy, Json
EmitDone == done = "done" => PrintT(ToJson([tx |-> tx, ty |-> ty, prog |-> Prog, argsx |-> ArgsTable[tx], argsy |-> ArgsTable[ty]]))
=============================================================================
