INIT Init
NEXT Next
CONSTANTS
  Kinds = {"bin", "ibin"}
  BinOps = {"add"}
  UnOps = {"neg"}
  WithStubFacts = FALSE
  Fixed = {}
  WithGetattr = FALSE
  BugNoReflected = TRUE
INVARIANT DiagnosedIffRaises
CHECK_DEADLOCK FALSE
