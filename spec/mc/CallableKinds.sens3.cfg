INIT KInit
NEXT KNext
CONSTANTS
  MaxParams = 1
  MaxPos = 1
  MaxStarLit = 0
  MaxPost = 0
  MaxKw = 1
  MaxDKeys = 0
  Unknowns = FALSE
  MaxExp = 4
  Mutant = "none"
  FixStarKw = FALSE
  FixExtraKw = FALSE
  Kinds = {"initstar", "newstar", "new"}
  KMutant = "init_over_new"
INVARIANT KindConcrete
CHECK_DEADLOCK FALSE
