INIT MInit
NEXT MNext
CONSTANTS
  Mode = "pairs"
  Depth = 1
  NFixed = {"len_reversed_mirrored"}
  NBug = "none"
  NVSpace = "none"
  NCompoundV = "none"
  NKinds = {}
  MSubjects = {"oi"}
  MPatterns = {"None", "int()", "_"}
  MGuards = {"none", "flag", "xnn"}
  MMaxCases = 3
  MBug = "none"
INVARIANT InvMatchEmit
CHECK_DEADLOCK FALSE
