INIT Init
NEXT Next
CONSTANTS
  Leaves = {"int", "str", "None", "A", "TimeoutError", "Warning", "Any", "NT", "TD", "T", "TB", "list", "tuple", "List", "Tuple", "Type", "Callable", "Lit1", "Lit1a", "LitNested", "tuple0", "Tuple0"}
  Unary = {"Quote", "Optional", "Union1", "list", "List", "TList", "Sequence", "type", "Type", "tupleEll", "TupleEll", "tuple1", "Tuple1", "Annotated1", "CallableEll", "Callable0", "CallableToNone", "AbcCallable", "dictStr", "StarTail", "StarOnly", "UnpackTail"}
  Binary = {"Or", "Union2", "tuple2", "Tuple2", "dict2", "Dict2", "Callable1"}
  TopOnly = {"Final", "ClassVar"}
  MaxNodes = 2
  MaxStack = 2
  BugOptionalDropsNone = FALSE
  FixedStar = TRUE
  FixedFinalInString = TRUE
  FixedNestedLiteral = TRUE
  BugBuiltinsFirst = TRUE
INVARIANT AnnotationRoutesAgree
CHECK_DEADLOCK FALSE
