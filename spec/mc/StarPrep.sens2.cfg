INIT PInit
NEXT PNext
CONSTANTS
  MaxParams = 2
  MaxPos = 0
  MaxStarLit = 0
  MaxPost = 0
  MaxKw = 0
  MaxDKeys = 0
  Unknowns = FALSE
  MaxExp = 4
  Mutant = "none"
  FixStarKw = FALSE
  FixExtraKw = FALSE
  MaxStars = 1
  MaxDstars = 0
  MaxPairs = 0
  MaxStarArgs = 1
  PMutant = "many_keeps_length"
INVARIANT PrepRejectSound
CHECK_DEADLOCK FALSE
