INIT TInit
NEXT TNext
CONSTANTS
  MaxFragments = 1
  FnScopes = {"def"}
  MaxDepth = 1
  PosMaxLines = 1
  NodesHavePos = TRUE
  DevOn = {"fwd", "byte", "split"}
  YSites = {"oneline"}
  YPads = {"none"}
  YBefore = {0}
  YAfter = {0}
  YFillers = {"plain"}
  YNewlines = {"lf"}
  YTrail = {TRUE}
CHECK_DEADLOCK FALSE
