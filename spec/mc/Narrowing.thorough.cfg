INIT NInit
NEXT NNext
CONSTANTS
  Mode = "pairs"
  Depth = 1
  NFixed = {"len_reversed_mirrored"}
  NBug = "none"
  NVSpace = "d2"
  NCompoundV = "small"
  NKinds = {"isinstance", "issubclass", "typeis", "typeguard", "is", "eq", "in", "truthy", "len", "cmp", "lenr", "c_isinstance", "c_isvalue", "match", "matchseq", "not", "and", "or", "deep"}
INVARIANT InvN1
INVARIANT InvN2
INVARIANT InvN3
INVARIANT InvNarrowTotal
CHECK_DEADLOCK FALSE
