INIT GInit
NEXT GNext
CONSTANTS
  MaxStmts = 5
  MaxDepth = 2
  Kinds = {"if", "ifw", "forv", "withas", "withsuppas", "try"}
  GenVars = {"x"}
  SimpleKinds = {"assign", "use", "aug", "import", "exas", "call", "return"}
  Shape = "any"
INVARIANT InvAllLive
CHECK_DEADLOCK FALSE
