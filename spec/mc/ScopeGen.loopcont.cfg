INIT GInit
NEXT GNext
CONSTANTS
  MaxStmts = 6
  MaxDepth = 2
  Kinds = {"for", "if", "try"}
  GenVars = {"x"}
  SimpleKinds = {"assign", "use", "call", "continue", "break", "return"}
  Shape = "loop"
INVARIANT InvAllLive
INVARIANT EmitLoopCont
CHECK_DEADLOCK FALSE
