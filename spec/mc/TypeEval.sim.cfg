INIT Init
NEXT Next
CONSTANTS
  Profile = "full"
  MaxLines = 7
  MaxIfs = 3
  MaxDepth = 2
  MaxAtoms = 9
  MaxCondAtoms = 3
  Bug = "none"
  Fixed = {}
  EmitMod = 1
  EmitRes = 0
INVARIANT ArgumentKindsFollowSpec
INVARIANT EvalFollowsSpec
INVARIANT EmitDone
CHECK_DEADLOCK FALSE
