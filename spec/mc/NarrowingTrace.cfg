INIT TInit
NEXT TNext
CONSTANTS
  Mode = "pairs"
  Depth = 1
  NFixed = {"len_reversed_mirrored"}
  NBug = "none"
  NVSpace = "none"
  NCompoundV = "none"
  NKinds = {}
CHECK_DEADLOCK FALSE
