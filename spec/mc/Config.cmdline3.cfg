INIT Init
NEXT Next
CONSTANTS
  Kinds = {"bool", "flag", "int", "list", "paths", "files"}
  MaxFiles = 3
  Rich = FALSE
  WithBad = TRUE
  Routes = {"inst", "kwargs", "argv"}
  Layouts = {"flat", "nested"}
  Slim = TRUE
  Spells = {"same"}
  HistKinds = {}
  MaxLookups = 0
INVARIANT LayeringFollowsDocs
CHECK_DEADLOCK FALSE
INVARIANT EmitDone
