INIT SInit
NEXT SNext
CONSTANTS
  PKinds = {"str"}
  PTokens = {}
  MaxTokens = 0
  ScalarVals = {}
  TupleVals = {}
  MaxTuple = 0
  DictKeys = {}
  DictVals = {}
  MaxDict = 0
  BugFlag = "none"
  SKinds = {"str", "bytes"}
  SMaxItems = 1
  SLits <- Q1Lits
  SKeys <- C1Keys
  SFlags <- C1Plain
  SWidths <- C1None
  SPrecs <- C1None
  SLens <- C1Lens
  SConvs <- C1Convs
  SShapes = {"scalar", "tuple", "dict"}
  SScalarVals <- C1Scalar
  SStarFit <- StarFit1
  SStarMis <- StarMis1
  SMaxMis = 1
  SConvVals <- Q1Conv
  SExtraVals <- Extra1
  SDictKeys <- Q1DKeys
  SDictVals <- Q1DVals
  SMaxDict = 1
INVARIANT Soundness
INVARIANT Precision
INVARIANT ResultType
INVARIANT NoCrash
INVARIANT EmitDone
CHECK_DEADLOCK FALSE
