INIT PInit
NEXT PNext
CONSTANTS
  MaxParams = 1
  MaxPos = 0
  MaxStarLit = 0
  MaxPost = 1
  MaxKw = 0
  MaxDKeys = 0
  Unknowns = FALSE
  MaxExp = 4
  Mutant = "none"
  FixStarKw = FALSE
  FixExtraKw = FALSE
  MaxStars = 2
  MaxDstars = 2
  MaxPairs = 1
  MaxStarArgs = 2
  PMutant = "none"
INVARIANT PrepConcrete
INVARIANT PrepAcceptSound
INVARIANT PrepRejectSound
INVARIANT AlwaysBindingAccepted
INVARIANT PEmitDone
CHECK_DEADLOCK FALSE
