----------------------------- MODULE DispatchEmit -----------------------------
(* Emission wrapper: prints every completed case that can be realised with synthetic classes as one *)
(* JSON line, so that the harness can replay it through the real code.                              *)
EXTENDS Dispatch, Json
EmitDone == (stage = "done" /\ Realisable(case)) => PrintT(ToJson(case))
=============================================================================
