INIT RInit
NEXT RNext
CONSTANTS
  Routes = {"override"}
  Shapes = {"multi2"}
  MethodNames = {"f"}
  SelfKinds = {"pk"}
  BaseNaming = "pos"
  FixedMemberWithoutSelf = TRUE
  RMutant = "first_base_only"
  MaxExpected = 1
  MaxActual = 1
  ActNames = {"a"}
  MaxCallPos = 3
  MaxCallKw = 3
  TypeRanks = {9}
  RetRanks = {9}
  SCMutant = "none"
INVARIANT OverrideSound
CHECK_DEADLOCK FALSE
