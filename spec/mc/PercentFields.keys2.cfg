INIT SInit
NEXT SNext
CONSTANTS
  PKinds = {"str"}
  PTokens = {}
  MaxTokens = 0
  ScalarVals = {}
  TupleVals = {}
  MaxTuple = 0
  DictKeys = {}
  DictVals = {}
  MaxDict = 0
  BugFlag = "none"
  SKinds = {"str", "bytes"}
  SMaxItems = 2
  SLits <- K2Lits
  SKeys <- K2Keys
  SFlags <- K2Plain
  SWidths <- K2None
  SPrecs <- K2None
  SLens <- K2Plain
  SConvs <- K2Convs
  SShapes = {"dict"}
  SScalarVals <- Q1Scalar
  SStarFit <- StarFit1
  SStarMis <- StarMis1
  SMaxMis = 1
  SConvVals <- Q1Conv
  SExtraVals <- Extra1
  SDictKeys <- K2DKeys
  SDictVals <- K2DVals
  SMaxDict = 2
INVARIANT Soundness
INVARIANT Precision
INVARIANT ResultType
INVARIANT NoCrash
INVARIANT EmitDone
CHECK_DEADLOCK FALSE
