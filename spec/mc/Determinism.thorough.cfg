INIT Init
NEXT Next
CONSTANTS
  Pinned = FALSE
  NSeeds = 8
  MaxHist = 4
INVARIANT Deterministic
CHECK_DEADLOCK FALSE
