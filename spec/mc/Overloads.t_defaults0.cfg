INIT Init
NEXT Next
CONSTANTS
  Bug = "none"
  MinOv = 2
  MaxOv = 2
  MinParams = 0
  MaxParams = 2
  ParamTypes = {"int", "str"}
  ArgTypes = {"int", "int|str"}
  Names = {"x", "y"}
  Kinds = {"pk"}
  Defaults = {FALSE, TRUE}
  MaxArgs = 2
  KwCalls = TRUE
  MaxRet = 4
  DistinctRets = TRUE
  MaxUnionArgs = 1
  EmitOneIn = 1
INVARIANT PropertyHolds
INVARIANT MachineIsOperator
INVARIANT BinderAgrees
INVARIANT EmitDone
CHECK_DEADLOCK FALSE
