INIT Init
NEXT Next
CONSTANTS
  PKinds = {"str", "bytes"}
  PTokens <- TokQuick
  MaxTokens = 1
  ScalarVals <- ValsQScalar
  TupleVals <- ValsQTuple
  MaxTuple = 2
  DictKeys <- KeysQuick
  DictVals <- ValsQDict
  MaxDict = 1
  BugFlag = "none"
INVARIANT Soundness
INVARIANT Precision
INVARIANT ResultType
INVARIANT NoCrash
CHECK_DEADLOCK FALSE
