INIT Init
NEXT Next
CONSTANTS
  Mode = "objects"
  Depth = 1
INVARIANT EmitObj
CHECK_DEADLOCK FALSE
