INIT TInit
NEXT TNext
CONSTANTS
  Mode = "raw"
  ValSeq <- NoVals
  OneOfSeq <- NoVals
  OrSeq <- NoOrs
  MaxBounds = 0
  ParamSeq <- NoVals
  DeclSeq <- DeclsFull
  MaxParams = 0
  MinSize = 0
  Bug = "none"
CHECK_DEADLOCK FALSE
