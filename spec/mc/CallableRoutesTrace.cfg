INIT RTInit
NEXT RTNext
CONSTANTS
  Routes = {"override", "callable", "protocol"}
  Shapes = {"single"}
  MethodNames = {"f"}
  SelfKinds = {"pk"}
  BaseNaming = "pos"
  FixedMemberWithoutSelf = TRUE
  RMutant = "none"
  MaxExpected = 3
  MaxActual = 3
  ActNames = {"a", "b", "c", "d"}
  MaxCallPos = 3
  MaxCallKw = 3
  TypeRanks = {9}
  RetRanks = {9}
  SCMutant = "none"
CHECK_DEADLOCK FALSE
