INIT CInit
NEXT CNext
CONSTANTS
  Mode = "pairs"
  Depth = 1
  PairOuter = "few"
  Lean = TRUE
  MaxDepth = 1
  Bug = "extra-keys-not-walked"
INVARIANT InvWalk
CHECK_DEADLOCK FALSE
