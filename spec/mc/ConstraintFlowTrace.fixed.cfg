INIT TInit
NEXT TNext
CONSTANTS
  Mode = "pairs"
  Depth = 1
  NFixed = {"len_reversed_mirrored"}
  NBug = "none"
  NVSpace = "none"
  NCompoundV = "none"
  NKinds = {}
  FKinds = {}
  FConds = {}
  FLits = {}
  FDecls = {}
  FMaxStmts = 0
  FMaxDepth = 0
  FBits = 3
  FMaxTicks = 2
  FBug = "none"
  FFixed = {"alternatives_not_conjoined", "fresh_fake_nodes"}
CHECK_DEADLOCK FALSE
