INIT RInit
NEXT RNext
CONSTANTS
  Routes = {"callable", "protocol"}
  Shapes = {"single"}
  MethodNames = {"f"}
  SelfKinds = {"pk", "po", "none"}
  BaseNaming = "pos"
  FixedMemberWithoutSelf = TRUE
  RMutant = "none"
  MaxExpected = 2
  MaxActual = 2
  ActNames = {"a", "b", "d"}
  MaxCallPos = 3
  MaxCallKw = 3
  TypeRanks = {9}
  RetRanks = {9}
  SCMutant = "none"
INVARIANT OverrideSound
INVARIANT CallableParamSound
INVARIANT ProtocolSound
INVARIANT RouteTypesSound
INVARIANT RouteDevTight
INVARIANT RouteMachineIsFold
INVARIANT IterationCoversAncestors
INVARIANT EmitRoute
CHECK_DEADLOCK FALSE
