INIT Init
NEXT Next
CONSTANTS
  Kinds = {"bool", "int", "list"}
  MaxFiles = 3
  Rich = FALSE
  WithBad = TRUE
  Routes = {"inst"}
  Layouts = {"flat"}
  Slim = FALSE
  Spells = {"same"}
  HistKinds = {}
  MaxLookups = 0
INVARIANT LayeringFollowsDocs
CHECK_DEADLOCK FALSE
INVARIANT EmitDone
