------------------------- MODULE ConstraintFlowEmit -------------------------
(* Emission wrapper: every completed function of the generator as one JSON line (decl, toks) with two statistics *)
(* of the Impl model on it: fake definition nodes created, constraints dropped by the origin guard, fake nodes     *)
(* overwritten (same statement, same Constraint object).                                                          *)
EXTENDS ConstraintFlow, Json
EmitFlow == FDone => LET st == ImplRun(FCase) IN PrintT(ToJson([decl |-> fdecl, toks |-> fprog, fakes |-> Len(st.fk), drops |-> st.dr, overwritten |-> st.ov]))
\* the same emission and the invariant InvFlow in one evaluation of the Impl model
InvFlowEmit == FDone => LET st == ImplRun(FCase)
                        IN PrintT(ToJson([decl |-> fdecl, toks |-> fprog, fakes |-> Len(st.fk), drops |-> st.dr, overwritten |-> st.ov])) /\ FlowImplOKSt(FCase, st, FALSE)
=============================================================================
