------------------------- MODULE ConstraintFlowEmit -------------------------
(* Emission wrapper: every completed function of the generator as one JSON line (decl, toks) with two statistics *)
(* of the Impl model on it: fake definition nodes created, constraints dropped by the origin guard.               *)
EXTENDS ConstraintFlow, Json
EmitFlow == FDone => LET st == ImplRun(FCase) IN PrintT(ToJson([decl |-> fdecl, toks |-> fprog, fakes |-> Len(st.fk), drops |-> st.dr]))
\* the same emission and the invariant InvFlow in one evaluation of the Impl model
InvFlowEmit == FDone => LET st == ImplRun(FCase)
                        IN PrintT(ToJson([decl |-> fdecl, toks |-> fprog, fakes |-> Len(st.fk), drops |-> st.dr])) /\ FlowImplOKSt(FCase, st, FALSE)
=============================================================================
