INIT TInit
NEXT TNext
CONSTANTS
  MaxLines = 1
  Pinned = FALSE
  MaxIter = 8
  MetaChoices = {FALSE}
CHECK_DEADLOCK FALSE
