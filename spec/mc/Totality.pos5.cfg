INIT PosInit
NEXT PosNext
CONSTANTS
  MaxFragments = 1
  FnScopes = {"def"}
  MaxDepth = 1
  FixedLines = TRUE
  FixedFwd = TRUE
  KSecondFull = FALSE
  PosMaxLines = 5
  NodesHavePos = TRUE
  DevOn = {"byte"}
  YSites = {"oneline"}
  YPads = {"none"}
  YBefore = {0}
  YAfter = {0}
  YFillers = {"plain"}
  YNewlines = {"lf"}
  YTrail = {TRUE}
INVARIANT PosProperty
CHECK_DEADLOCK FALSE
