INIT MInit
NEXT MNext
CONSTANTS
  Mode = "pairs"
  Depth = 1
  NFixed = {"len_reversed_mirrored"}
  NBug = "none"
  NVSpace = "none"
  NCompoundV = "none"
  NKinds = {}
  MSubjects = {"oi", "lit", "b", "col"}
  MPatterns = {"None", "1", "True", "RED", "int()", "_"}
  MGuards = {"none", "flag", "guse", "ynone"}
  MMaxCases = 2
  MBug = "drop_null_guard"
INVARIANT InvMatch
CHECK_DEADLOCK FALSE
