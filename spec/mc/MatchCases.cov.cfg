INIT MInit
NEXT MNext
CONSTANTS
  Mode = "pairs"
  Depth = 1
  NFixed = {"len_reversed_mirrored"}
  NBug = "none"
  NVSpace = "none"
  NCompoundV = "none"
  NKinds = {}
  MSubjects = {"oi"}
  MPatterns = {"None", "_"}
  MGuards = {"none", "flag"}
  MMaxCases = 2
  MBug = "none"
CHECK_DEADLOCK FALSE
