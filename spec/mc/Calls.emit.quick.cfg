INIT CInit
NEXT CNext
CONSTANTS
  Mode = "pairs"
  Depth = 1
  LitSet = "small"
  MaxPos = 2
  MaxKw = 1
  MaxArgs = 3
  FnFilter = "nogeneric3"
  Shapes = {"plain"}
  MaxSess = 2
  FixProtoCache = TRUE
  Bug = "none"
INVARIANT InvDiagnosis
INVARIANT InvResult
INVARIANT InvSolution
INVARIANT InvBindAgree
INVARIANT InvSessDiagnosis
INVARIANT InvSessResult
INVARIANT InvSessAlone
INVARIANT EmitLib
INVARIANT EmitDone
INVARIANT EmitSess
CHECK_DEADLOCK FALSE
