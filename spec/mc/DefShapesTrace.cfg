INIT TInit
NEXT TNext
CONSTANTS
  Leaves = {"int"}
  Unary = {"list"}
  Binary = {"Or"}
  TopOnly = {"Final"}
  MaxNodes = 1
  MaxStack = 1
  BugOptionalDropsNone = FALSE
  FixedStar = TRUE
  FixedFinalInString = TRUE
  FixedNestedLiteral = TRUE
  BugBuiltinsFirst = FALSE
  AnnChoices = {"noann"}
  DefaultChoices = {"none"}
  RetChoices = {"noann"}
  AsyncChoices = {FALSE}
  FutureChoices = {FALSE}
  DunderChoices = {FALSE}
  MaxParams = 1
  MaxPos = 2
  MaxKw = 1
  BugRuntimeIgnoresKwDefaults = FALSE
  BugStringDropsAllowUnpack = FALSE
  FixedDunder = FALSE
  ShapeChoices = {"method"}
  BugBoundKeepsFirst = FALSE
  BugAsyncGenWrapped = FALSE
  FixedDeclaredReturn = FALSE
  FixedAsyncGenInferred = TRUE
CHECK_DEADLOCK FALSE
