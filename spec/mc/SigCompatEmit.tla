--------------------------- MODULE SigCompatEmit ---------------------------
(* Emission wrapper: prints every completed pair (expected, actual) as one JSON line. *)
EXTENDS SigCompat, Json
EmitPair == stage = "done" => PrintT(ToJson(case))
=============================================================================
