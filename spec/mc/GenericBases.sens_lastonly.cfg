INIT GInit
NEXT GNext
CONSTANTS
  GMode = "lastonly"
INVARIANT InvGSound
CHECK_DEADLOCK FALSE
