INIT Init
NEXT Next
CONSTANTS
  Bug = "none"
  MinOv = 2
  MaxOv = 4
  MinParams = 0
  MaxParams = 2
  ParamTypes = {"int", "bool", "str", "none", "object", "any", "int|str", "int|none", "list[int]", "list[str]", "list[any]", "L1", "La", "E", "EA"}
  ArgTypes = {"int", "bool", "str", "none", "float", "object", "any", "int|str", "str|int", "int|none", "str|none", "bool|str", "int|bool", "float|str", "int|str|none", "str|none|float", "list[any]", "list[int]", "any|str", "str|any", "any|int", "any|none", "int|str|any", "any|str|none", "list[any]|str", "str|list[any]", "list[any]|list[str]", "any|list[int]", "list[int]|str", "list[int]|list[str]", "L1", "EA", "E", "L1|La", "L1|L2", "L1|str", "EA|EB", "EA|int"}
  Names = {"x", "y"}
  Kinds = {"pk", "ko"}
  Defaults = {FALSE, TRUE}
  MaxArgs = 2
  KwCalls = TRUE
  MaxRet = 4
  DistinctRets = FALSE
  MaxUnionArgs = 1
  EmitOneIn = 1
INVARIANT PropertyHolds
INVARIANT EmitDone
CHECK_DEADLOCK FALSE
