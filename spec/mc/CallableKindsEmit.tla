-------------------------- MODULE CallableKindsEmit --------------------------
(* Emission wrapper: prints every completed case [kind, via, sig, call] as one JSON line so that the  *)
(* harness can realise it as real source, send it through the real visitor and really perform it.  *)
EXTENDS CallableKinds, Json
KEmitDone == stage = "done" => PrintT(ToJson(case))
=============================================================================
