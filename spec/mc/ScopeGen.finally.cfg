INIT GInit
NEXT GNext
CONSTANTS
  MaxStmts = 5
  MaxDepth = 2
  Kinds = {"for", "try"}
  GenVars = {"x"}
  SimpleKinds = {"assign", "use", "call", "return", "break", "continue"}
  Shape = "any"
INVARIANT InvAll
INVARIANT EmitFinally
CHECK_DEADLOCK FALSE
