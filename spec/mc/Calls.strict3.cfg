INIT CInit
NEXT CNext
CONSTANTS
  Mode = "pairs"
  Depth = 1
  LitSet = "dflt"
  MaxPos = 2
  MaxKw = 1
  MaxArgs = 2
  FnFilter = "gen"
  Shapes = {"plain", "star"}
  MaxSess = 0
  FixProtoCache = TRUE
  Bug = "none"
INVARIANT InvDiagnosisStrict
CHECK_DEADLOCK FALSE
