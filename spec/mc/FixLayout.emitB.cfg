INIT Init
NEXT Next
CONSTANTS
  Kinds = {"unused_variable", "unused_comp", "use_fstrings", "missing_f", "too_many_positional_args", "missing_await"}
  Layouts = {"single", "trail_comment", "comment_dq", "str_dq", "str_sq", "paren_close", "paren_hang", "paren_flush", "backslash", "backslash_flush", "tq_lone", "tq_lone_sq", "tq_closeparen", "tq_later_lone", "tq_later_lone_sqfirst", "if_header", "deco_def", "semi_before", "semi_after", "oneline_if", "bs_second", "fstr_multi", "tq_then_diag", "deco2_def"}
  Blocks = {"def"}
  Befores = {"stmt", "none"}
  Afters = {"stmt", "dq_block", "none"}
  Eofs = {"no"}
  AnyLoneDelim = FALSE
INVARIANT RangeExact
INVARIANT ApplyExact
INVARIANT LineOwned
INVARIANT BlockKept
INVARIANT InsertSafe
INVARIANT EmitCase
CHECK_DEADLOCK FALSE
