--------------------------- MODULE SuppressionQuick3 ---------------------------
(* Quick-tier slice of Suppression.tla for files of three lines: every file, but only the settings in which   *)
(* unused_ignore is reported (the outputs with it off are subsets) and at most c1 disabled.  All sixteen       *)
(* settings are explored for files of <= 2 lines (Suppression.emit2.cfg) in the quick tier and for files of    *)
(* <= 4 lines in the thorough tier (Suppression.thorough.cfg).                                                 *)
EXTENDS Suppression

QChooseSettings ==
    /\ pc = "lines" /\ Len(case.lines) >= 1
    /\ \E dis \in {{}, {"c1"}}, b \in BOOLEAN :
         case' = [case EXCEPT !.disabled = dis, !.unused_on = TRUE, !.bare_on = b]
    /\ pc' = "diags" /\ i' = 1 /\ UNCHANGED ms

QNext == AddLine \/ QChooseSettings \/ ShowDisabled \/ ShowFileIgnore \/ ShowDuplicate \/ ShowThisLine
         \/ ShowPrevLine \/ ShowEmitted \/ UnusedPass \/ BarePass
=============================================================================
