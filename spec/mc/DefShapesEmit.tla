--------------------------- MODULE DefShapesEmit ---------------------------
(* Emission wrapper: prints every completed case [h, shape] of DefShapes with its call family as one JSON line. *)
EXTENDS DefShapes, Json
SetToSeq(S) == LET RECURSIVE f(_) f(T) == IF T = {} THEN << >> ELSE LET x == CHOOSE y \in T : TRUE IN <<x>> \o f(T \ {x}) IN f(S)
CallHeader(c) == IF c.shape = "retyped" THEN InnerHeader ELSE c.h
EmitShape == stage = "done" =>
    PrintT(ToJson([h |-> case.h, shape |-> case.shape,
                   calls |-> SetToSeq({[npos |-> c.npos, kws |-> SetToSeq(c.kws), bad |-> c.bad] : c \in Calls(CallHeader(case))})]))
=============================================================================
