INIT HInit
NEXT HNext
CONSTANTS
  Leaves = {"int"}
  Unary = {"list"}
  Binary = {"Or"}
  TopOnly = {"Final"}
  MaxNodes = 1
  MaxStack = 1
  BugOptionalDropsNone = FALSE
  FixedStar = TRUE
  FixedFinalInString = TRUE
  FixedNestedLiteral = TRUE
  BugBuiltinsFirst = TRUE
  AnnChoices = {"noann", "int", "QTE"}
  DefaultChoices = {"none", "int:1"}
  RetChoices = {"noann", "int"}
  AsyncChoices = {FALSE}
  FutureChoices = {FALSE}
  DunderChoices = {FALSE}
  MaxParams = 2
  MaxPos = 2
  MaxKw = 1
  BugRuntimeIgnoresKwDefaults = FALSE
  BugStringDropsAllowUnpack = FALSE
  FixedDunder = FALSE
INVARIANT HeaderViewsAgree
CHECK_DEADLOCK FALSE
