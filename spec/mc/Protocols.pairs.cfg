CONSTANTS
  Mode = "pairs"
  Depth = 1
  HistLen = 2
  HistSpace = "rec"
CHECK_DEADLOCK FALSE
INIT PInit
NEXT PNext
CONSTANTS
  PMode = "pairs"
  PFlags = "real"
  PNoDev = ""
INVARIANT InvPSound
INVARIANT InvPSoundRepaired
INVARIANT InvPRefl
INVARIANT InvPUnionLeft
INVARIANT InvPUnionRight
INVARIANT InvPNeverBottom
INVARIANT InvPObjectTop
INVARIANT InvPInheritance
INVARIANT InvPDevInhabited
INVARIANT EmitP
INVARIANT EmitTab
