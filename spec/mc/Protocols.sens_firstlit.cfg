CONSTANTS
  Mode = "pairs"
  Depth = 1
  HistLen = 2
  HistSpace = "rec"
CHECK_DEADLOCK FALSE
INIT PInit
NEXT PNext
CONSTANTS
  PMode = "pairs"
  PFlags = "firstlit"
  PNoDev = ""
INVARIANT InvPSound
INVARIANT InvPUnionLeft
