INIT Init
NEXT Next
CONSTANTS
  PKinds = {"str", "bytes"}
  PTokens <- TokCore
  MaxTokens = 3
  ScalarVals <- ValsCore
  TupleVals <- ValsSmall
  MaxTuple = 2
  DictKeys <- KeysCore
  DictVals <- ValsSmall
  MaxDict = 1
  BugFlag = "none"
INVARIANT Soundness
INVARIANT Precision
INVARIANT ResultType
INVARIANT NoCrash
INVARIANT EmitDone
CHECK_DEADLOCK FALSE
