INIT FInit
NEXT FNext
CONSTANTS
  Mode = "pairs"
  Depth = 1
  NFixed = {"len_reversed_mirrored"}
  NBug = "none"
  NVSpace = "none"
  NCompoundV = "none"
  NKinds = {}
  FKinds = {"asg", "save", "use", "ifflag", "ifok", "whflag"}
  FConds = {"int"}
  FLits = {"a"}
  FDecls = {"is"}
  FMaxStmts = 6
  FMaxDepth = 3
  FBits = 3
  FMaxTicks = 2
  FBug = "none"
  FFixed = {"fresh_fake_nodes"}
INVARIANT InvFlowEmit
CHECK_DEADLOCK FALSE
