INIT Init
NEXT Next
CONSTANTS
  Kinds = {"bin", "ibin", "un", "sub", "attr"}
  BinOps = {"add", "sub", "mul", "truediv", "mod", "pow", "lshift", "rshift", "or", "xor", "and", "floordiv", "matmul"}
  UnOps = {"neg", "pos", "invert"}
  WithStubFacts = TRUE
  Fixed = {}
  WithGetattr = TRUE
  BugNoReflected = FALSE
INVARIANT DiagnosedIffRaises
INVARIANT LiteralEqualsResult
CHECK_DEADLOCK FALSE
