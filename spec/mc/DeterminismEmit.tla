--------------------------- MODULE DeterminismEmit ---------------------------
(* Emission wrapper: prints every schedule (seed, sequence of programs checked by one Checker). *)
EXTENDS Determinism, Json
EmitSchedule == (Len(hist) = MaxHist) => PrintT(ToJson([seed |-> seed, seq |-> hist]))
=============================================================================
