INIT Init
NEXT Next
CONSTANTS
  Bug = "fix_any_last"
  MinOv = 2
  MaxOv = 2
  MinParams = 2
  MaxParams = 2
  ParamTypes = {"int", "str", "any"}
  ArgTypes = {"int", "any", "int|str"}
  Names = {"x", "y"}
  Kinds = {"pk"}
  Defaults = {FALSE}
  MaxArgs = 2
  KwCalls = TRUE
  MaxRet = 4
  DistinctRets = FALSE
  MaxUnionArgs = 1
INVARIANT PropertyHoldsStrict
INVARIANT BinderAgrees
CHECK_DEADLOCK FALSE
