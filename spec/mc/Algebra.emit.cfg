INIT AInit
NEXT ANext
CONSTANTS
  Mode = "pairs"
  Depth = 1
INVARIANT EmitDone3
CHECK_DEADLOCK FALSE
