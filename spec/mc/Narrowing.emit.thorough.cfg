INIT NInit
NEXT NNext
CONSTANTS
  Mode = "pairs"
  Depth = 1
  NFixed = {"len_reversed_mirrored"}
  NBug = "none"
  NVSpace = "d1"
  NCompoundV = "small"
  NKinds = {"isinstance", "issubclass", "typeis", "typeguard", "is", "eq", "in", "truthy", "len", "cmp", "lenr", "c_isinstance", "c_isvalue", "match", "matchseq", "not", "and", "or", "deep"}
INVARIANT EmitObjs
INVARIANT EmitV
INVARIANT EmitDone
CHECK_DEADLOCK FALSE
