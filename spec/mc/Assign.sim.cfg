INIT Init
NEXT Next
CONSTANTS
  Mode = "pairs"
  Depth = 2
INVARIANT EmitDone
CHECK_DEADLOCK FALSE
