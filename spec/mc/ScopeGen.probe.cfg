INIT GInit
NEXT GNext
CONSTANTS
  MaxStmts = 3
  MaxDepth = 2
  Kinds = {"if"}
INVARIANT InvC09Strict
CHECK_DEADLOCK FALSE
