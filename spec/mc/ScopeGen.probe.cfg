INIT GInit
NEXT GNext
CONSTANTS
  MaxStmts = 3
  MaxDepth = 2
  Kinds = {"if"}
  GenVars = {"x", "y"}
  SimpleKinds = {"assign", "use", "call", "return", "raise", "break", "continue"}
  Shape = "any"
INVARIANT InvC09Strict
CHECK_DEADLOCK FALSE
