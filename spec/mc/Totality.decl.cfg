INIT DeclInit
NEXT DeclNext
CONSTANTS
  MaxFragments = 1
  FnScopes = {"def"}
  MaxDepth = 1
  FixedLines = TRUE
  FixedFwd = TRUE
  KSecondFull = FALSE
  PosMaxLines = 4
  NodesHavePos = TRUE
  DevOn = {"byte"}
  YSites = {"oneline"}
  YPads = {"none"}
  YBefore = {0}
  YAfter = {0}
  YFillers = {"plain"}
  YNewlines = {"lf"}
  YTrail = {TRUE}
INVARIANT EmitDecl
CHECK_DEADLOCK FALSE
