INIT Init
NEXT Next
CONSTANTS
  Bug = "none"
  MinOv = 3
  MaxOv = 3
  MinParams = 2
  MaxParams = 2
  ParamTypes = {"int", "str"}
  ArgTypes = {"int", "int|str"}
  Names = {"x", "y"}
  Kinds = {"pk", "ko"}
  Defaults = {FALSE}
  MaxArgs = 2
  KwCalls = TRUE
  MaxRet = 4
  DistinctRets = TRUE
  MaxUnionArgs = 1
  EmitOneIn = 6
INVARIANT PropertyHolds
INVARIANT MachineIsOperator
INVARIANT BinderAgrees
INVARIANT EmitDone
CHECK_DEADLOCK FALSE
