INIT Init
NEXT Next
CONSTANTS
  Mode = "pairs"
  Depth = 1
INVARIANT EmitDone
CHECK_DEADLOCK FALSE
