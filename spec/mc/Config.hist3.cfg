INIT Init
NEXT Next
CONSTANTS
  Kinds = {"list"}
  MaxFiles = 3
  Rich = FALSE
  WithBad = FALSE
  Routes = {}
  Layouts = {"flat"}
  Slim = TRUE
  Spells = {"same"}
  HistKinds = {"list", "int"}
  MaxLookups = 3
INVARIANT HistoryHolds
CHECK_DEADLOCK FALSE
INVARIANT EmitDone
