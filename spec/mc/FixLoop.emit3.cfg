INIT FInit
NEXT FNext
CONSTANTS
  MaxLines = 3
  Pinned = FALSE
  MaxIter = 8
  MetaChoices = {FALSE}
INVARIANT Converges
INVARIANT TargetsOne
INVARIANT TreeUnchanged
INVARIANT EmitCase
CHECK_DEADLOCK FALSE
