INIT Init
NEXT Next
CONSTANTS
  Bug = "none"
  MinOv = 2
  MaxOv = 2
  MinParams = 2
  MaxParams = 2
  ParamTypes = {"int", "str", "any"}
  ArgTypes = {"int", "any", "any|str", "int|str"}
  Names = {"x", "y"}
  Kinds = {"pk"}
  Defaults = {FALSE}
  MaxArgs = 2
  KwCalls = TRUE
  MaxRet = 4
  DistinctRets = FALSE
  MaxUnionArgs = 1
  EmitOneIn = 1
INVARIANT PropertyHolds
INVARIANT MachineIsOperator
INVARIANT BinderAgrees
INVARIANT EmitDone
CHECK_DEADLOCK FALSE
