INIT RInit
NEXT RNext
CONSTANTS
  MaxLines = 2
  Pinned = FALSE
  MinLines = 1
  Bug = "none"
  RDiagSets <- DiagsCatch
  RIgnSet <- IgnsCatch
  RShapes <- ShapesStmt
  ROtherShapes <- OtherPlain
  CfgCodes <- CodesCatch
  CfgAlls <- AllsNone
  CfgFlags <- FlagsNoBoth
  CfgTris <- TrisUnset
  RPrefixes <- NoPrefix
INVARIANT RProjectionOK
INVARIANT RChainOnce
INVARIANT RUsedAreComments
INVARIANT REnabledOK
INVARIANT REmit
CHECK_DEADLOCK FALSE
