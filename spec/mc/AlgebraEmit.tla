----------------------------- MODULE AlgebraEmit -----------------------------
(* Emission wrapper: prints every generated triple (a, b, c, m) as one JSON line. *)
EXTENDS Algebra, Json
EmitDone3 == Done3 => PrintT(ToJson([a |-> ta, b |-> tb, c |-> tc, m |-> tm]))
=============================================================================
