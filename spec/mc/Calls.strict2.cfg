INIT CInit
NEXT CNext
CONSTANTS
  Mode = "pairs"
  Depth = 1
  LitSet = "small"
  MaxPos = 2
  MaxKw = 1
  MaxArgs = 2
  FnFilter = "nogeneric3"
  Shapes = {"plain"}
  MaxSess = 0
  FixProtoCache = TRUE
  Bug = "none"
INVARIANT InvDiagnosisStrict
CHECK_DEADLOCK FALSE
