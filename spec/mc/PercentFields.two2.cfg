INIT SInit
NEXT SNext
CONSTANTS
  PKinds = {"str"}
  PTokens = {}
  MaxTokens = 0
  ScalarVals = {}
  TupleVals = {}
  MaxTuple = 0
  DictKeys = {}
  DictVals = {}
  MaxDict = 0
  BugFlag = "none"
  SKinds = {"str", "bytes"}
  SMaxItems = 2
  SLits <- T2Lits
  SKeys <- T2Keys
  SFlags <- T2Flags
  SWidths <- T2Widths
  SPrecs <- T2Precs
  SLens <- T2Lens
  SConvs <- T2Convs
  SShapes = {"scalar", "tuple", "dict"}
  SScalarVals <- Q1Scalar
  SStarFit <- StarFit1
  SStarMis <- StarMis1
  SMaxMis = 1
  SConvVals <- T2Conv
  SExtraVals <- Extra1
  SDictKeys <- T2DKeys
  SDictVals <- Q1DVals
  SMaxDict = 2
INVARIANT Soundness
INVARIANT Precision
INVARIANT ResultType
INVARIANT NoCrash
INVARIANT EmitDone
CHECK_DEADLOCK FALSE
