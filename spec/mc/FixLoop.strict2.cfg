INIT FInit
NEXT FNext
CONSTANTS
  MaxLines = 2
  Pinned = FALSE
  MaxIter = 8
  MetaChoices = {FALSE}
INVARIANT TargetsOneStrict
CHECK_DEADLOCK FALSE
