INIT MInit
NEXT MNext
CONSTANTS
  Mode = "pairs"
  Depth = 1
  NFixed = {"len_reversed_mirrored"}
  NBug = "none"
  NVSpace = "none"
  NCompoundV = "none"
  NKinds = {}
  MSubjects = {"oi"}
  MPatterns = {"None", "int()", "_"}
  MGuards = {"none", "flag", "xnn"}
  MMaxCases = 2
  MBug = "guard_not_carried"
INVARIANT InvMatch
CHECK_DEADLOCK FALSE
