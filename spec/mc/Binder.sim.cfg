INIT Init
NEXT Next
CONSTANTS
  MaxParams = 6
  MaxPos = 4
  MaxStarLit = 2
  MaxPost = 1
  MaxKw = 4
  MaxDKeys = 2
  Unknowns = TRUE
  MaxExp = 4
  Mutant = "none"
  FixStarKw = FALSE
  FixExtraKw = FALSE
INVARIANT ConcreteAgrees
INVARIANT AcceptSound
INVARIANT RejectSound
INVARIANT MachineIsFold
INVARIANT PreErrors
INVARIANT EmitDone
CHECK_DEADLOCK FALSE
