INIT Init
NEXT Next
CONSTANTS
  Profile = "ccmp"
  MaxLines = 3
  MaxIfs = 1
  MaxDepth = 2
  MaxAtoms = 2
  MaxCondAtoms = 2
  Bug = "noornull"
  Fixed = {}
INVARIANT EvalFollowsSpec
CHECK_DEADLOCK FALSE
