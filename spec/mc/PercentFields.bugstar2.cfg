INIT SInit
NEXT SNext
CONSTANTS
  PKinds = {"str"}
  PTokens = {}
  MaxTokens = 0
  ScalarVals = {}
  TupleVals = {}
  MaxTuple = 0
  DictKeys = {}
  DictVals = {}
  MaxDict = 0
  BugFlag = "one-star-slot"
  SKinds = {"str", "bytes"}
  SMaxItems = 1
  SLits <- Q1Lits
  SKeys <- Q1Keys
  SFlags <- Q1Flags
  SWidths <- Q1Widths
  SPrecs <- Q1Precs
  SLens <- Q1Lens
  SConvs <- Q1Convs
  SShapes = {"scalar", "tuple", "dict"}
  SScalarVals <- Q1Scalar
  SStarFit <- StarFit1
  SStarMis <- StarMis1
  SMaxMis = 1
  SConvVals <- Q1Conv
  SExtraVals <- Extra1
  SDictKeys <- Q1DKeys
  SDictVals <- Q1DVals
  SMaxDict = 1
INVARIANT Precision
CHECK_DEADLOCK FALSE
