INIT Init
NEXT Next
CONSTANTS
  FTokens <- FTokCore
  MaxFTokens = 4
  PosVals <- FValsCore
  MaxPos = 2
  KwNames <- NamesA
  KwVals <- FValsKw
  MaxKw = 1
  FBug = "none"
INVARIANT Modelled
INVARIANT Soundness
INVARIANT Precision
INVARIANT ResultType
INVARIANT EmitDone
CHECK_DEADLOCK FALSE
