INIT SInit
NEXT SNext
CONSTANTS
  PKinds = {"str"}
  PTokens = {}
  MaxTokens = 0
  ScalarVals = {}
  TupleVals = {}
  MaxTuple = 0
  DictKeys = {}
  DictVals = {}
  MaxDict = 0
  BugFlag = "none"
  SKinds = {"str", "bytes"}
  SMaxItems = 1
  SLits <- F1Lits
  SKeys <- F1Keys
  SFlags <- F1Flags
  SWidths <- F1Widths
  SPrecs <- F1Precs
  SLens <- F1Lens
  SConvs <- F1Convs
  SShapes = {"scalar", "tuple", "dict"}
  SScalarVals <- F1Scalar
  SStarFit <- StarFit1
  SStarMis <- StarMisF
  SMaxMis = 1
  SConvVals <- F1Conv
  SExtraVals <- Extra1
  SDictKeys <- SDKeys
  SDictVals <- F1DVals
  SMaxDict = 2
INVARIANT Soundness
INVARIANT Precision
INVARIANT ResultType
INVARIANT NoCrash
CHECK_DEADLOCK FALSE
