INIT SCInit
NEXT SCNext
CONSTANTS
  MaxExpected = 3
  MaxActual = 3
  ActNames = {"a", "b", "c", "d"}
  MaxCallPos = 3
  MaxCallKw = 3
  TypeRanks = {9}
  RetRanks = {9}
  SCMutant = "none"
INVARIANT BehaviourallySound
INVARIANT TypesSound
INVARIANT DevIsTight
INVARIANT MachineIsFoldC
INVARIANT EmitPair
CHECK_DEADLOCK FALSE
