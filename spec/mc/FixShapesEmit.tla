----------------------------- MODULE FixShapesEmit -----------------------------
(* Emission wrapper: prints every complete case of FixShapes. *)
EXTENDS FixShapes, Json
EmitCase == Done => PrintT(ToJson(c))
=============================================================================
