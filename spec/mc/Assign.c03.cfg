INIT Init
NEXT Next
CONSTANTS
  Mode = "objects"
  Depth = 1
INVARIANT InvObjExact
CHECK_DEADLOCK FALSE
