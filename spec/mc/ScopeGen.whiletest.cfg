INIT GInit
NEXT GNext
CONSTANTS
  MaxStmts = 5
  MaxDepth = 2
  Kinds = {"if", "whilev"}
  GenVars = {"x"}
  SimpleKinds = {"assign", "use", "call", "break"}
  Shape = "any"
INVARIANT InvAllLive
INVARIANT EmitWhileTest
CHECK_DEADLOCK FALSE
