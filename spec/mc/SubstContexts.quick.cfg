INIT CInit
NEXT CPNext
CONSTANTS
  Mode = "pairs"
  Depth = 1
  PairOuter = "few"
  Lean = TRUE
  MaxDepth = 2
  Bug = "none"
INVARIANT InvReplacesAll
INVARIANT InvStructure
INVARIANT InvIdentity
INVARIANT InvCommutes
INVARIANT InvSubstEqHash
INVARIANT InvWalk
INVARIANT InvPairEqHash
INVARIANT InvPairDiscriminates
INVARIANT EmitCtx
INVARIANT EmitPair
CHECK_DEADLOCK FALSE
