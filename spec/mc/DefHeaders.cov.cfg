INIT HInit
NEXT HNext
CONSTANTS
  Leaves = {"int"}
  Unary = {"list"}
  Binary = {"Or"}
  TopOnly = {"Final"}
  MaxNodes = 1
  MaxStack = 1
  BugOptionalDropsNone = FALSE
  FixedStar = TRUE
  FixedFinalInString = TRUE
  FixedNestedLiteral = TRUE
  BugBuiltinsFirst = FALSE
  AnnChoices = {"noann", "int", "QTE"}
  DefaultChoices = {"none", "int:1", "..."}
  RetChoices = {"noann", "int", "QTE"}
  AsyncChoices = {FALSE}
  FutureChoices = {FALSE, TRUE}
  DunderChoices = {FALSE, TRUE}
  MaxParams = 2
  MaxPos = 2
  MaxKw = 1
  BugRuntimeIgnoresKwDefaults = FALSE
  BugStringDropsAllowUnpack = FALSE
  FixedDunder = FALSE
INVARIANT HeaderViewsAgree
INVARIANT ViewsMatchInspect
CHECK_DEADLOCK FALSE
