----------------------------- MODULE FixLayoutEmit -----------------------------
(* Emission wrapper: prints every complete case of FixLayout. *)
EXTENDS FixLayout, Json
EmitCase == Done => PrintT(ToJson(c))
=============================================================================
