INIT Init
NEXT Next
CONSTANTS
  MaxParams = 3
  MaxPos = 1
  MaxStarLit = 0
  MaxPost = 1
  MaxKw = 2
  MaxDKeys = 1
  Unknowns = TRUE
  MaxExp = 4
  Mutant = "none"
  FixStarKw = TRUE
  FixExtraKw = TRUE
INVARIANT ConcreteAgrees
INVARIANT AcceptSoundStrict
INVARIANT RejectSoundStrict
CHECK_DEADLOCK FALSE
