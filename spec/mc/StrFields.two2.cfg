INIT XInit
NEXT XNext
CONSTANTS
  FTokens = {}
  MaxFTokens = 0
  PosVals = {}
  MaxPos = 0
  KwNames = {}
  KwVals = {}
  MaxKw = 0
  FBug = "none"
  XMaxItems = 2
  XLits <- F2XLits
  XNames <- T2XNames
  XChains <- T2XChains
  XConvs <- T2XConvs
  XSpecs <- T2XSpecs
  XPosVals <- Q1XPos
  XExtraVals <- XOne
  XKwNames <- KwABW
  XKwVals <- Q1XKw
  XKwExtraVals <- XOne
INVARIANT Modelled
INVARIANT Soundness
INVARIANT Precision
INVARIANT ResultType
INVARIANT EmitDone
CHECK_DEADLOCK FALSE
