INIT Init
NEXT Next
CONSTANTS
  Mode = "both"
  ValSeq <- ValsCov
  OneOfSeq <- OneOfsFull
  OrSeq <- OrsFull
  MaxBounds = 2
  ParamSeq <- ParamsCov
  DeclSeq <- DeclsFull
  MaxParams = 2
  MinSize = 0
  Bug = "none"
INVARIANT SolutionSatisfiesBounds
INVARIANT UnsatIsDiagnosed
INVARIANT OrderIndependent
INVARIANT MachineIsOperator
INVARIANT CallSolutionSatisfies
INVARIANT CallUnsatIsDiagnosed
INVARIANT CallOrderIndependent
CHECK_DEADLOCK FALSE
