INIT FInit
NEXT FNext
CONSTANTS
  Mode = "pairs"
  Depth = 1
  NFixed = {"len_reversed_mirrored"}
  NBug = "none"
  NVSpace = "none"
  NCompoundV = "none"
  NKinds = {}
  FKinds = {"asg", "save", "use", "ret", "ifflag", "ifok", "ifc", "else", "whflag", "whok", "whc", "ifwal", "ifand", "ifor", "okflag"}
  FConds = {"int"}
  FLits = {"a"}
  FDecls = {"is"}
  FMaxStmts = 3
  FMaxDepth = 2
  FBits = 3
  FMaxTicks = 2
  FBug = "none"
  FFixed = {"fresh_fake_nodes"}
CHECK_DEADLOCK FALSE
