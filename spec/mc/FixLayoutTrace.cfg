INIT TInit
NEXT TNext
CONSTANTS
  Kinds = {}
  Layouts = {}
  Blocks = {}
  Befores = {}
  Afters = {}
  Eofs = {}
  AnyLoneDelim = FALSE
CHECK_DEADLOCK FALSE
