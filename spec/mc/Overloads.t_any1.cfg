INIT Init
NEXT Next
CONSTANTS
  Bug = "none"
  MinOv = 2
  MaxOv = 3
  MinParams = 0
  MaxParams = 1
  ParamTypes = {"int", "str", "object", "any", "int|str", "list[int]", "list[str]", "list[any]"}
  ArgTypes = {"any", "list[any]", "list[int]", "any|str", "str|any", "any|int", "any|none", "int|str|any", "any|str|none", "list[any]|str", "str|list[any]", "list[any]|list[str]", "any|list[int]", "list[int]|str", "list[int]|list[str]"}
  Names = {"x"}
  Kinds = {"pk"}
  Defaults = {FALSE}
  MaxArgs = 1
  KwCalls = TRUE
  MaxRet = 4
  DistinctRets = FALSE
  MaxUnionArgs = 1
  EmitOneIn = 3
INVARIANT PropertyHolds
INVARIANT MachineIsOperator
INVARIANT BinderAgrees
INVARIANT RefFirstIsClause1
INVARIANT EmitDone
CHECK_DEADLOCK FALSE
