INIT KInit
NEXT KNext
CONSTANTS
  MaxParams = 1
  MaxPos = 1
  MaxStarLit = 1
  MaxPost = 0
  MaxKw = 1
  MaxDKeys = 0
  Unknowns = FALSE
  MaxExp = 4
  Mutant = "none"
  FixStarKw = FALSE
  FixExtraKw = FALSE
  Kinds = {"meth", "cmeth", "rawmeth"}
  KMutant = "bound_method_keeps_call"
INVARIANT KindConcrete
CHECK_DEADLOCK FALSE
