INIT Init
NEXT Next
CONSTANTS
  MaxLines = 3
  Pinned = FALSE
INVARIANT ProjectionOK
INVARIANT UsedAreComments
INVARIANT EmitDone
CHECK_DEADLOCK FALSE
