INIT Init
NEXT Next
CONSTANTS
  Mode = "both"
  ValSeq <- ValsFull
  OneOfSeq <- OneOfsFull
  OrSeq <- OrsFull
  MaxBounds = 3
  ParamSeq <- ParamsFull
  DeclSeq <- DeclsFull
  MaxParams = 2
  MinSize = 0
  Bug = "none"
INVARIANT SolutionSatisfiesBounds
INVARIANT UnsatIsDiagnosed
INVARIANT OrderIndependent
INVARIANT MachineIsOperator
INVARIANT CallSolutionSatisfies
INVARIANT CallUnsatIsDiagnosed
INVARIANT CallOrderIndependent
CHECK_DEADLOCK FALSE
