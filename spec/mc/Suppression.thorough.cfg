INIT Init
NEXT Next
CONSTANTS
  MaxLines = 4
  Pinned = FALSE
INVARIANT ProjectionOK
INVARIANT UsedAreComments
CHECK_DEADLOCK FALSE
