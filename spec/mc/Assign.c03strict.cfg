INIT Init
NEXT Next
CONSTANTS
  Mode = "objects"
  Depth = 2
INVARIANT InvObjExactStrict
CHECK_DEADLOCK FALSE
