INIT Init
NEXT Next
CONSTANTS
  Bug = "elif_chain"
  MinOv = 2
  MaxOv = 2
  MinParams = 1
  MaxParams = 1
  ParamTypes = {"int", "str", "list[int]"}
  ArgTypes = {"any|str", "str|any", "list[any]|str"}
  Names = {"x"}
  Kinds = {"pk"}
  Defaults = {FALSE}
  MaxArgs = 1
  KwCalls = FALSE
  MaxRet = 4
  DistinctRets = TRUE
  MaxUnionArgs = 1
INVARIANT PropertyHolds
CHECK_DEADLOCK FALSE
