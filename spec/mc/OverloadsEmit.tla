---------------------------- MODULE OverloadsEmit ----------------------------
(* Emission wrapper: prints every completed case (overload set + call) as one JSON line so that   *)
(* the harness can replay it through the real checker.                                            *)
EXTENDS Overloads, Json
EmitDone == stage = "done" => PrintT(ToJson(case))
=============================================================================
