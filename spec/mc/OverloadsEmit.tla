---------------------------- MODULE OverloadsEmit ----------------------------
(* Emission wrapper: prints completed cases (overload set + call) as one JSON line each so that   *)
(* the harness can replay them through the real checker.  EmitOneIn = 1 prints every case; a      *)
(* larger value prints a uniform random sample of one case in EmitOneIn (the invariants are still *)
(* checked on every state).                                                                       *)
EXTENDS Overloads, Json
CONSTANT EmitOneIn
EmitDone == stage = "done" => (RandomElement(1..EmitOneIn) = 1 => PrintT(ToJson(case)))
=============================================================================
