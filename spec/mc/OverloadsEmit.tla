---------------------------- MODULE OverloadsEmit ----------------------------
(* Emission wrapper: prints completed cases (overload set + call) as one JSON line each so that   *)
(* the harness can replay them through the real checker.  EmitOneIn = 1 prints every case; a      *)
(* larger value prints every call of one overload set in EmitOneIn (chosen by a checksum of the   *)
(* set, so that the calls of a set stay together; the invariants are checked on every state).     *)
EXTENDS Overloads, Json
CONSTANT EmitOneIn

TypeOrd(t) == CASE t = "int" -> 1 [] t = "bool" -> 2 [] t = "str" -> 3 [] t = "none" -> 4 [] t = "float" -> 5
                [] t = "object" -> 6 [] t = "any" -> 7 [] OTHER -> 8 + Len(Members(t))
ParamCode(p) == TypeOrd(p.ty) * 12 + NameOrd(p.name) * 4 + (IF p.kind = "ko" THEN 2 ELSE 0) + (IF p.dflt THEN 1 ELSE 0)
RECURSIVE ParamsSum(_, _, _)
ParamsSum(ps, j, h) == IF j > Len(ps) THEN h ELSE ParamsSum(ps, j + 1, (h * 31 + ParamCode(ps[j])) % 10007)
RECURSIVE SigsSum(_, _, _)
SigsSum(sigs, i, h) == IF i > Len(sigs) THEN h
                       ELSE SigsSum(sigs, i + 1, (ParamsSum(sigs[i].params, 1, h * 17 + sigs[i].ret) * 7 + Len(sigs[i].params)) % 10007)

\* vacuity control without TLC -coverage (its cost model cannot digest the vocabulary table): every state of the
\* running machine prints the branch of the real loop it is about to take; the harness counts them
EmitKinds == stage = "run" => PrintT(<<"KIND", nk>>)

EmitDone == stage = "done" => (SigsSum(case.sigs, 1, 1) % EmitOneIn = 0 => PrintT(ToJson(case)))
=============================================================================
