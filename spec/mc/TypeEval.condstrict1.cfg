INIT Init
NEXT Next
CONSTANTS
  Profile = "cenv"
  MaxLines = 3
  MaxIfs = 1
  MaxDepth = 2
  MaxAtoms = 2
  MaxCondAtoms = 2
  Bug = "none"
  Fixed = {}
INVARIANT StatusFollowsSpecStrict
CHECK_DEADLOCK FALSE
