INIT Init
NEXT Next
CONSTANTS
  Bug = "none"
  MinOv = 3
  MaxOv = 3
  MinParams = 2
  MaxParams = 2
  ParamTypes = {"int", "str", "any"}
  ArgTypes = {"int", "any", "any|str"}
  Names = {"x", "y"}
  Kinds = {"pk"}
  Defaults = {FALSE}
  MaxArgs = 2
  KwCalls = FALSE
  MaxRet = 4
  DistinctRets = TRUE
  MaxUnionArgs = 1
  EmitOneIn = 4
INVARIANT PropertyHolds
INVARIANT MachineIsOperator
INVARIANT BinderAgrees
INVARIANT RefFirstIsClause1
INVARIANT EmitDone
CHECK_DEADLOCK FALSE
