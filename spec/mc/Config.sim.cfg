INIT Init
NEXT Next
CONSTANTS
  Kinds = {"bool", "int", "list"}
  MaxFiles = 3
  Rich = TRUE
  WithBad = FALSE
INVARIANT LayeringFollowsDocs
INVARIANT EmitDone
CHECK_DEADLOCK FALSE
