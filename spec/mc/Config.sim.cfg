INIT Init
NEXT Next
CONSTANTS
  Kinds = {"bool", "flag", "int", "list", "paths", "files"}
  MaxFiles = 3
  Rich = TRUE
  WithBad = FALSE
  Routes = {"inst", "kwargs", "argv"}
  Layouts = {"flat", "nested"}
  Slim = FALSE
  Spells = {"same"}
  HistKinds = {}
  MaxLookups = 0
INVARIANT LayeringFollowsDocs
CHECK_DEADLOCK FALSE
INVARIANT EmitDone
