INIT Init
NEXT Next
CONSTANTS
  Bug = "none"
  MinOv = 2
  MaxOv = 3
  MinParams = 0
  MaxParams = 1
  ParamTypes = {"int", "bool", "str", "none", "object", "any", "int|str", "int|none"}
  ArgTypes = {"int", "bool", "str", "none", "float", "object", "any", "int|str", "str|int", "int|none", "str|none", "bool|str", "int|bool", "float|str", "int|str|none", "str|none|float"}
  Names = {"x"}
  Kinds = {"pk"}
  Defaults = {FALSE}
  MaxArgs = 1
  KwCalls = TRUE
  MaxRet = 4
  DistinctRets = FALSE
  MaxUnionArgs = 1
  EmitOneIn = 2
INVARIANT PropertyHolds
INVARIANT MachineIsOperator
INVARIANT BinderAgrees
INVARIANT EmitDone
CHECK_DEADLOCK FALSE
