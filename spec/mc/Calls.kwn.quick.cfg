INIT CInit
NEXT CNext
CONSTANTS
  Mode = "pairs"
  Depth = 1
  LitSet = "dflt"
  MaxPos = 2
  MaxKw = 2
  MaxArgs = 3
  FnFilter = "kwn"
  Shapes = {"plain", "star", "mixed", "mixedk"}
  MaxSess = 0
  FixProtoCache = TRUE
  Bug = "none"
INVARIANT InvDiagnosis
INVARIANT InvResult
INVARIANT InvSolution
INVARIANT InvBindAgree
INVARIANT EmitDone
CHECK_DEADLOCK FALSE
