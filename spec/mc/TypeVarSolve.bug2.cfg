INIT Init
NEXT Next
CONSTANTS
  Mode = "call"
  ValSeq <- NoVals
  OneOfSeq <- NoVals
  OrSeq <- NoOrs
  MaxBounds = 0
  ParamSeq <- ParamsSmall
  DeclSeq <- DeclsFull
  MaxParams = 2
  MinSize = 0
  Bug = "no_second_pass"
INVARIANT CallSolutionSatisfies
CHECK_DEADLOCK FALSE
