INIT GInit
NEXT GNext
CONSTANTS
  MaxStmts = 4
  MaxDepth = 1
  Kinds = {"if", "for"}
  GenVars = {"x"}
  SimpleKinds = {"assign", "use", "cuse", "citer", "cbind", "cwal"}
  Shape = "any"
INVARIANT InvAllLive
INVARIANT EmitLive
CHECK_DEADLOCK FALSE
