INIT KTInit
NEXT KTNext
CONSTANTS
  MaxParams = 6
  MaxPos = 4
  MaxStarLit = 2
  MaxPost = 1
  MaxKw = 4
  MaxDKeys = 2
  Unknowns = TRUE
  MaxExp = 4
  Mutant = "none"
  FixStarKw = FALSE
  FixExtraKw = FALSE
  Kinds = {"func", "lambda", "async", "wrapped", "annot", "smeth", "meth", "cmeth", "rawmeth", "callobj", "init", "inherit", "new", "newinit", "newstar", "initstar", "rawinit", "bare", "dataclass", "ntuple", "partial"}
  KMutant = "none"
CHECK_DEADLOCK FALSE
