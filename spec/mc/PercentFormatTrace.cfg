INIT TInit
NEXT TNext
CONSTANTS
  PKinds = {"str"}
  PTokens = {}
  MaxTokens = 0
  ScalarVals = {}
  TupleVals = {}
  MaxTuple = 0
  DictKeys = {}
  DictVals = {}
  MaxDict = 0
  BugFlag = "none"
CHECK_DEADLOCK FALSE
