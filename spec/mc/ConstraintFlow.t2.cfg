INIT FInit
NEXT FNext
CONSTANTS
  Mode = "pairs"
  Depth = 1
  NFixed = {"len_reversed_mirrored"}
  NBug = "none"
  NVSpace = "none"
  NCompoundV = "none"
  NKinds = {}
  FKinds = {"asg", "save", "use", "ret", "ifflag", "ifok", "ifc", "else", "whflag", "whok", "whc", "ifwal", "ifand", "ifor"}
  FConds = {"int"}
  FLits = {"None"}
  FDecls = {"isn"}
  FMaxStmts = 5
  FMaxDepth = 3
  FBits = 3
  FMaxTicks = 2
  FBug = "none"
  FFixed = {"fresh_fake_nodes"}
INVARIANT InvFlowEmit
CHECK_DEADLOCK FALSE
