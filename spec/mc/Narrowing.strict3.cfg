INIT NInit
NEXT NNext
CONSTANTS
  Mode = "pairs"
  Depth = 1
  NFixed = {"len_reversed_mirrored"}
  NBug = "none"
  NVSpace = "tiny"
  NCompoundV = "none"
  NKinds = {}
INVARIANT InvN3Strict
CHECK_DEADLOCK FALSE
