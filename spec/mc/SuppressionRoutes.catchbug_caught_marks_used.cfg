INIT RInit
NEXT RNext
CONSTANTS
  MaxLines = 6
  Pinned = FALSE
  MinLines = 1
  Bug = "caught_marks_used"
  RDiagSets <- DiagsCatch
  RIgnSet <- IgnsBlockQuick
  RShapes <- ShapesBlock
  ROtherShapes <- OtherPlain
  CfgCodes <- CodesCatch
  CfgAlls <- AllsNone
  CfgFlags <- FlagsNoBoth
  CfgTris <- TrisUnset
  RPrefixes <- BlockPrefixes
INVARIANT RProjectionOK
INVARIANT RChainOnce
INVARIANT RUsedAreComments
INVARIANT REnabledOK
CHECK_DEADLOCK FALSE
