INIT RInit
NEXT RNext
CONSTANTS
  MaxLines = 6
  Pinned = FALSE
  MinLines = 1
  Bug = "none"
  RDiagSets <- DiagsCatch
  RIgnSet <- IgnsCatch
  RShapes <- ShapesBlock
  ROtherShapes <- OtherPlain
  CfgCodes <- CodesCatch
  CfgAlls <- AllsNone
  CfgFlags <- FlagsNoBoth
  CfgTris <- TrisUnset
  RPrefixes <- BlockPrefixes
INVARIANT RProjectionOK
INVARIANT RChainOnce
INVARIANT RUsedAreComments
INVARIANT REnabledOK
INVARIANT REmit
CHECK_DEADLOCK FALSE
