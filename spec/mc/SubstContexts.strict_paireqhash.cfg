INIT CInit
NEXT PNext
CONSTANTS
  Mode = "pairs"
  Depth = 1
  PairOuter = "few"
  Lean = TRUE
  MaxDepth = 1
  Bug = "none"
INVARIANT InvPairEqHashStrict
CHECK_DEADLOCK FALSE
