INIT MInit
NEXT MNext
CONSTANTS
  MaxStmts = 3
  MaxDepth = 1
  Slice = "narrow"
  UseY = FALSE
  Cats = {"assign-v", "return", "if", "ifelse", "match"}
INVARIANT Inhabited
INVARIANT EmitDone
CHECK_DEADLOCK FALSE
