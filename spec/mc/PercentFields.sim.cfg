INIT SInit
NEXT SNext
CONSTANTS
  PKinds = {"str"}
  PTokens = {}
  MaxTokens = 0
  ScalarVals = {}
  TupleVals = {}
  MaxTuple = 0
  DictKeys = {}
  DictVals = {}
  MaxDict = 0
  BugFlag = "none"
  SKinds = {"str", "bytes"}
  SMaxItems = 2
  SLits <- F2Lits
  SKeys <- F2Keys
  SFlags <- F2Flags
  SWidths <- F2Widths
  SPrecs <- F2Precs
  SLens <- F2Lens
  SConvs <- F2Convs
  SShapes = {"scalar", "tuple", "dict"}
  SScalarVals <- SimVals
  SStarFit <- StarFit1
  SStarMis <- StarMisS
  SMaxMis = 2
  SConvVals <- SimVals
  SExtraVals <- Extra1
  SDictKeys <- SDKeys
  SDictVals <- SimVals
  SMaxDict = 2
INVARIANT Soundness
INVARIANT Precision
INVARIANT ResultType
INVARIANT NoCrash
INVARIANT EmitDone
CHECK_DEADLOCK FALSE
