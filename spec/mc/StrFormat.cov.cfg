INIT Init
NEXT Next
CONSTANTS
  FTokens <- FTokQuick
  MaxFTokens = 2
  PosVals <- FValsCore
  MaxPos = 1
  KwNames <- NamesA
  KwVals <- FValsKw
  MaxKw = 1
  FBug = "none"
INVARIANT Modelled
INVARIANT Soundness
INVARIANT Precision
INVARIANT ResultType
CHECK_DEADLOCK FALSE
