---------------------------- MODULE StrFieldsEmit ----------------------------
(* Emission wrapper: prints every completed case as one JSON line so that the harness can replay it. *)
EXTENDS StrFields, Json
EmitDone == stage = "done" => PrintT(ToJson(case))
=============================================================================
