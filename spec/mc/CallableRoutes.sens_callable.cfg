INIT RInit
NEXT RNext
CONSTANTS
  Routes = {"callable"}
  Shapes = {"single"}
  MethodNames = {"f"}
  SelfKinds = {"pk"}
  BaseNaming = "pos"
  FixedMemberWithoutSelf = TRUE
  RMutant = "none"
  MaxExpected = 1
  MaxActual = 2
  ActNames = {"a", "b"}
  MaxCallPos = 3
  MaxCallKw = 3
  TypeRanks = {9}
  RetRanks = {9}
  SCMutant = "skip_final_loop"
INVARIANT CallableParamSound
CHECK_DEADLOCK FALSE
