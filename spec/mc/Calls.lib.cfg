INIT CInit
NEXT CNext
CONSTANTS
  Mode = "pairs"
  Depth = 1
  LitSet = "small"
  MaxPos = 0
  MaxKw = 0
  MaxArgs = 0
  FnFilter = "all"
  Shapes = {"plain"}
  MaxSess = 0
  FixProtoCache = TRUE
  Bug = "none"
INVARIANT EmitLib
CHECK_DEADLOCK FALSE
