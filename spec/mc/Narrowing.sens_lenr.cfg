INIT NInit
NEXT NNext
CONSTANTS
  Mode = "pairs"
  Depth = 1
  NFixed = {}
  NBug = "none"
  NVSpace = "small"
  NCompoundV = "none"
  NKinds = {"lenr"}
INVARIANT InvN1Strict
CHECK_DEADLOCK FALSE
