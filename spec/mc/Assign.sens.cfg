INIT Init
NEXT Next
CONSTANTS
  Mode = "pairs"
  Depth = 1
INVARIANT InvSoundNoLeniency
CHECK_DEADLOCK FALSE
