INIT Init
NEXT Next
CONSTANTS
  Profile = "corr"
  MaxLines = 4
  MaxIfs = 2
  MaxDepth = 2
  MaxAtoms = 4
  MaxCondAtoms = 2
  Bug = "none"
  Fixed = {}
  EmitMod = 4
  EmitRes = 0
INVARIANT ArgumentKindsFollowSpec
INVARIANT EvalFollowsSpec
INVARIANT EmitDone
CHECK_DEADLOCK FALSE
