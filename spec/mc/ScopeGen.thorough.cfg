INIT GInit
NEXT GNext
CONSTANTS
  MaxStmts = 6
  MaxDepth = 3
  Kinds = {"if", "while", "whiletrue", "for", "with", "withsupp", "try"}
INVARIANT InvC09
CHECK_DEADLOCK FALSE
