INIT Init
NEXT Next
CONSTANTS
  Bug = "none"
  MinOv = 2
  MaxOv = 2
  MinParams = 1
  MaxParams = 2
  ParamTypes = {"int", "str"}
  ArgTypes = {"any|str", "any"}
  Names = {"x", "y"}
  Kinds = {"pk", "ko"}
  Defaults = {FALSE, TRUE}
  MaxArgs = 2
  KwCalls = TRUE
  MaxRet = 4
  DistinctRets = TRUE
  MaxUnionArgs = 1
  EmitOneIn = 4
INVARIANT PropertyHolds
INVARIANT MachineIsOperator
INVARIANT BinderAgrees
INVARIANT RefFirstIsClause1
INVARIANT EmitDone
CHECK_DEADLOCK FALSE
