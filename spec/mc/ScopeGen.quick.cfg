INIT GInit
NEXT GNext
CONSTANTS
  MaxStmts = 4
  MaxDepth = 2
  Kinds = {"if", "while", "whiletrue", "for", "with", "withsupp", "try"}
INVARIANT InvC09
CHECK_DEADLOCK FALSE
