INIT GInit
NEXT GNext
CONSTANTS
  MaxStmts = 4
  MaxDepth = 2
  Kinds = {"if", "while", "whiletrue", "for", "with", "withsupp", "try"}
  GenVars = {"x", "y"}
  SimpleKinds = {"assign", "use", "call", "return", "raise", "break", "continue"}
  Shape = "any"
INVARIANT InvAll
CHECK_DEADLOCK FALSE
