------------------------- MODULE SuppressionRoutesMC -------------------------
(* Model-checking wrapper of SuppressionRoutes.tla: the universes the cfg files select (cfg files cannot   *)
(* write sequences) and the emission channel (one JSON line per completed case, printed in the first state *)
(* of the machine phase).                                                                                   *)
EXTENDS SuppressionRoutes, Json

\* ---- universes
DiagsAll == { << >>, <<"c1">>, <<"c2">>, <<"c4">>, <<"c5">>, <<"c6">>, <<"c1", "c2">>, <<"c1", "c4">>, <<"c2", "c4">>,
              <<"c4", "c5">>, <<"c1", "c6">>, <<"c4", "c6">>, <<"c1", "c2", "c4", "c5">>, <<"c1", "c2", "c4", "c5", "c6">> }
DiagsCatch == { << >>, <<"c1">>, <<"c4">>, <<"c2">>, <<"c1", "c4">> }
DiagsSmall == { << >>, <<"c1">>, <<"c4">>, <<"c1", "c5">> }
IgnsAll == RIgns
IgnsCatch == {"bare", "c4", "c3", "multi"}
IgnsSmall == {"bare", "c1", "multi"}
ShapesAll == {"stmt", "doc", "imp", "open", "mid", "close", "def", "body", "with", "wbody", "deco", "idef", "idefh", "ibody"}
ShapesCatch == {"stmt", "imp", "def", "with", "wbody"}
ShapesFlat == {"stmt", "doc"}
OtherAll == {"plain", "shebang"}
OtherPlain == {"plain"}
AllsAll == {"none", "enable_all", "disable_all"}
AllsNone == {"none"}
FlagsAll == {"", "e", "d", "ed"}
FlagsDis == {"", "d"}
TrisAll == Tri
TrisUnset == {"unset"}
CodesEnable == {"c1", "c5"}
CodesEnable3 == {"c1", "c5", "unused_ignore"}
CodesCatch == {"c4", "unused_ignore"}
CodesAll == RCodes \cup MetaCodes
NoCodes == {}
DiagsStruct == { << >>, <<"c1">>, <<"c6">>, <<"c1", "c6">> }
IgnsStruct == {"bare", "c1"}
CodesStruct == {"unused_ignore"}
FlagsEnable == {"", "e"}
FlagsNoBoth == {"", "e", "d"}
NoPrefix == { << >> }
PLine(shape) == [kind |-> "code", diags |-> << >>, ign |-> "none", shape |-> shape]
POwn(ign) == [kind |-> "own", diags |-> << >>, ign |-> ign, shape |-> "plain"]
\* `with assert_error():` block heads, without and with a leading file-level comment
PComment == [kind |-> "comment", diags |-> << >>, ign |-> "none", shape |-> "plain"]
BlockPrefixes == { << PComment, PLine("imp"), PLine("def"), PLine("with") >>,
                   << POwn("bare"), PLine("imp"), PLine("def"), PLine("with") >>,
                   << POwn("c4"), PLine("imp"), PLine("def"), PLine("with") >> }
SimBlockPrefixes == { << PLine("imp"), PLine("def"), PLine("with") >>,
                      << PLine("imp"), PLine("def") >>,
                      << POwn("bare"), PLine("imp"), PLine("def"), PLine("with") >>,
                      << [kind |-> "comment", diags |-> << >>, ign |-> "none", shape |-> "shebang"], POwn("c1"), PLine("imp"), PLine("def") >> }
IgnsBlockQuick == {"bare", "c4"}
ShapesBlock == {"stmt", "wbody"}
ShapesStmt == {"stmt"}

\* ---- emission
SetToSeq(S) == LET RECURSIVE f(_) f(T) == IF T = {} THEN << >> ELSE LET x == CHOOSE y \in T : TRUE IN <<x>> \o f(T \ {x}) IN f(S)
EmitCfg(g) == [all |-> g.all, en |-> SetToSeq(g.en), dis |-> SetToSeq(g.dis), top |-> g.top, ov |-> g.ov, oth |-> g.oth]
REmit == (pc = "ops" /\ i = 1 /\ ms.hist = << >> /\ stack = << >>) =>
    PrintT(ToJson([lines |-> case.lines, cfg |-> EmitCfg(case.cfg)]))
=============================================================================
