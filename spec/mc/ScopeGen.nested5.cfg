INIT GInit
NEXT GNext
CONSTANTS
  MaxStmts = 5
  MaxDepth = 3
  Kinds = {"if", "try", "withsupp"}
  GenVars = {"x"}
  SimpleKinds = {"assign", "use", "call", "return"}
  Shape = "any"
INVARIANT InvAll
INVARIANT EmitDone
CHECK_DEADLOCK FALSE
