----------------------------- MODULE CallsEmit -----------------------------
(* Emission wrapper: prints the library once (initial state) and every completed call as one JSON line. *)
EXTENDS Calls, Json
\* itvs: per library entry, the type variables whose solution the harness observes (Calls!ImplTvs); gclasses / gcanon:
\* the generic classes the harness renders and the receiver literal of the method-call entries
EmitLib == stage = "fn" => PrintT(ToJson([lib |-> Lib, helpers |-> Helpers, tvdecls |-> TvDecls, protofns |-> ProtoFns,
                                          itvs |-> [i \in 1..Len(Lib) |-> ImplTvs(Lib[i])], gclasses |-> GClasses,
                                          gcanon |-> [i \in 1..Len(GClasses) |-> GCanon(GClasses[i].n)]]))
EmitDone == stage = "done" => PrintT(ToJson(case))
EmitSess == stage = "sdone" => PrintT(ToJson([sess |-> TheSess]))
=============================================================================
