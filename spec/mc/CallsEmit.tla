----------------------------- MODULE CallsEmit -----------------------------
(* Emission wrapper: prints the library once (initial state) and every completed call as one JSON line. *)
EXTENDS Calls, Json
EmitLib == stage = "fn" => PrintT(ToJson([lib |-> Lib, helpers |-> Helpers, tvdecls |-> TvDecls, protofns |-> ProtoFns]))
EmitDone == stage = "done" => PrintT(ToJson(case))
EmitSess == stage = "sdone" => PrintT(ToJson([sess |-> TheSess]))
=============================================================================
