INIT Init
NEXT Next
CONSTANTS
  Mode = "call"
  ValSeq <- NoVals
  OneOfSeq <- NoVals
  OrSeq <- NoOrs
  MaxBounds = 0
  ParamSeq <- ParamsFull
  DeclSeq <- DeclsFull
  MaxParams = 2
  MinSize = 0
  Bug = "none"
INVARIANT CallSolutionSatisfies
INVARIANT CallUnsatIsDiagnosed
INVARIANT CallOrderIndependent
INVARIANT EmitCase
CHECK_DEADLOCK FALSE
