INIT CInit
NEXT CNext
CONSTANTS
  Mode = "pairs"
  Depth = 1
  LitSet = "dflt"
  MaxPos = 2
  MaxKw = 1
  MaxArgs = 2
  FnFilter = "gen"
  Shapes = {"plain", "star"}
  MaxSess = 0
  FixProtoCache = TRUE
  Bug = "ctor_self_unmatched"
INVARIANT InvDiagnosis
CHECK_DEADLOCK FALSE
