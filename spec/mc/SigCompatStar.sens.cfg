INIT SCInit
NEXT StarNext
CONSTANTS
  ExpKinds = {"po", "vk"}
  ActKinds = {"pk", "vk"}
  MaxExpected = 2
  MaxActual = 2
  ActNames = {"a", "b"}
  MaxCallPos = 3
  MaxCallKw = 3
  TypeRanks = {1, 5, 9}
  RetRanks = {9}
  SCMutant = "exempt_consumed_positional"
INVARIANT TypesSound
CHECK_DEADLOCK FALSE
