INIT Init
NEXT Next
CONSTANTS
  Kinds = {"int"}
  MaxFiles = 1
  Rich = FALSE
  WithBad = FALSE
  Routes = {"kwargs"}
  Layouts = {"flat"}
  Slim = TRUE
  Spells = {"same"}
  HistKinds = {}
  MaxLookups = 0
INVARIANT NoClassConfigFollowsDocs
CHECK_DEADLOCK FALSE
