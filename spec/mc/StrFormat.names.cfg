INIT Init
NEXT Next
CONSTANTS
  FTokens <- FTokNames
  MaxFTokens = 3
  PosVals <- FValsOne
  MaxPos = 1
  KwNames <- KwNamesEdge
  KwVals <- FValsOne
  MaxKw = 1
  FBug = "none"
INVARIANT Modelled
INVARIANT Soundness
INVARIANT Precision
INVARIANT ResultType
INVARIANT NoCrash
INVARIANT EmitDone
CHECK_DEADLOCK FALSE
