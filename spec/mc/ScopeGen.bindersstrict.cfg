INIT GInit
NEXT GNext
CONSTANTS
  MaxStmts = 4
  MaxDepth = 2
  Kinds = {"if", "try"}
  GenVars = {"x"}
  SimpleKinds = {"assign", "use", "exas", "cwal", "cuse"}
  Shape = "any"
INVARIANT InvC09Strict
CHECK_DEADLOCK FALSE
