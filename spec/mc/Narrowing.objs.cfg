INIT NInit
NEXT NNext
CONSTANTS
  Mode = "pairs"
  Depth = 1
  NFixed = {"len_reversed_mirrored"}
  NBug = "none"
  NVSpace = "none"
  NCompoundV = "none"
  NKinds = {}
INVARIANT EmitObjs
CHECK_DEADLOCK FALSE
