INIT SCInit
NEXT SCNext
CONSTANTS
  MaxExpected = 2
  MaxActual = 2
  ActNames = {"a", "b", "d"}
  MaxCallPos = 3
  MaxCallKw = 3
  TypeRanks = {9}
  RetRanks = {9}
  SCMutant = "none"
INVARIANT BehaviourallySoundStrict
CHECK_DEADLOCK FALSE
