INIT FInit
NEXT FNext
CONSTANTS
  Mode = "pairs"
  Depth = 1
  NFixed = {"len_reversed_mirrored"}
  NBug = "none"
  NVSpace = "none"
  NCompoundV = "none"
  NKinds = {}
  FKinds = {"save", "use", "ifok", "whok", "whflag"}
  FConds = {"int"}
  FLits = {"a"}
  FDecls = {"is"}
  FMaxStmts = 5
  FMaxDepth = 2
  FBits = 3
  FMaxTicks = 2
  FBug = "shared_fake_nodes"
  FFixed = {"fresh_fake_nodes"}
INVARIANT InvFlow
CHECK_DEADLOCK FALSE
