INIT Init
NEXT Next
CONSTANTS
  Mode = "raw"
  ValSeq <- ValsSmall
  OneOfSeq <- OneOfsSmall
  OrSeq <- NoOrs
  MaxBounds = 3
  ParamSeq <- ParamsSmall
  DeclSeq <- DeclsFull
  MaxParams = 1
  MinSize = 0
  Bug = "none"
INVARIANT OrderIndependentStrict
CHECK_DEADLOCK FALSE
