INIT FInit
NEXT FNext
CONSTANTS
  MaxLines = 6
  Pinned = FALSE
  MaxIter = 14
  MetaChoices = {FALSE, TRUE}
INVARIANT Converges
INVARIANT TargetsOne
INVARIANT TreeUnchanged
INVARIANT EmitCase
CHECK_DEADLOCK FALSE
