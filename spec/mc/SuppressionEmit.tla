--------------------------- MODULE SuppressionEmit ---------------------------
(* Emission wrapper: prints every completed case (with the model's output) as one JSON line. *)
EXTENDS Suppression, Json
SetToSeq(S) == LET RECURSIVE f(_) f(T) == IF T = {} THEN << >> ELSE LET x == CHOOSE y \in T : TRUE IN <<x>> \o f(T \ {x}) IN f(S)
EmitDone == pc = "done" =>
    PrintT(ToJson([lines |-> case.lines, disabled |-> SetToSeq(case.disabled),
                   unused_on |-> case.unused_on, bare_on |-> case.bare_on]))
=============================================================================
