INIT Init
NEXT Next
CONSTANTS
  MaxTargets = 2
  ChainAny = TRUE
  FlagBlind = FALSE
INVARIANT AppliedIsIntended
CHECK_DEADLOCK FALSE
