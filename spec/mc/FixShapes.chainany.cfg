INIT Init
NEXT Next
CONSTANTS
  MaxTargets = 2
  ChainAny = TRUE
INVARIANT AppliedIsIntended
CHECK_DEADLOCK FALSE
