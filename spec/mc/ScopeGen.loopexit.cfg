INIT GInit
NEXT GNext
CONSTANTS
  MaxStmts = 7
  MaxDepth = 2
  Kinds = {"for", "try", "withsupp"}
  GenVars = {"x"}
  SimpleKinds = {"assign", "use", "call", "break", "return"}
  Shape = "loop"
INVARIANT EmitLoopExit
CHECK_DEADLOCK FALSE
