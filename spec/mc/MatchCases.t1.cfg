INIT MInit
NEXT MNext
CONSTANTS
  Mode = "pairs"
  Depth = 1
  NFixed = {"len_reversed_mirrored"}
  NBug = "none"
  NVSpace = "none"
  NCompoundV = "none"
  NKinds = {}
  MSubjects = {"oi", "isn", "b", "col", "lit", "tup", "dm"}
  MPatterns = {"None", "True", "1", "a", "RED", "int()", "str()", "tuple()", "1|None", "[a]", "[a,*r]", "{}", "_", "z"}
  MGuards = {"none", "flag", "guse", "xnn", "xint", "ynone"}
  MMaxCases = 2
  MBug = "none"
INVARIANT InvMatchEmit
CHECK_DEADLOCK FALSE
