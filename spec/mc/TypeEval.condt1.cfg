INIT Init
NEXT Next
CONSTANTS
  Profile = "cenv"
  MaxLines = 5
  MaxIfs = 2
  MaxDepth = 2
  MaxAtoms = 2
  MaxCondAtoms = 1
  Bug = "none"
  Fixed = {}
  EmitMod = 4
  EmitRes = 0
INVARIANT ArgumentKindsFollowSpec
INVARIANT EvalFollowsSpec
INVARIANT EmitDone
CHECK_DEADLOCK FALSE
