INIT PTInit
NEXT PTNext
CONSTANTS
  Mode = "pairs"
  Depth = 1
  HistLen = 2
  HistSpace = "rec"
  PMode = "pairs"
  PFlags = "real"
  PNoDev = ""
CHECK_DEADLOCK FALSE
