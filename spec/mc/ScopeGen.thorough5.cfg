INIT GInit
NEXT GNext
CONSTANTS
  MaxStmts = 5
  MaxDepth = 3
  Kinds = {"if", "while", "whiletrue", "for", "with", "withsupp", "try"}
  GenVars = {"x", "y"}
  SimpleKinds = {"assign", "use", "call", "return", "raise", "break", "continue"}
  Shape = "any"
INVARIANT InvAllLive
CHECK_DEADLOCK FALSE
