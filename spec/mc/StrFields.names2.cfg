INIT XInit
NEXT XNext
CONSTANTS
  FTokens = {}
  MaxFTokens = 0
  PosVals = {}
  MaxPos = 0
  KwNames = {}
  KwVals = {}
  MaxKw = 0
  FBug = "none"
  XMaxItems = 2
  XLits <- N1XLits
  XNames <- N2XNames
  XChains <- N2XChains
  XConvs <- N2XConvs
  XSpecs <- N2XSpecs
  XPosVals <- Q1XPos
  XExtraVals <- XOne
  XKwNames <- KwEdge
  XKwVals <- XOne
  XKwExtraVals <- XOne
INVARIANT Modelled
INVARIANT Soundness
INVARIANT Precision
INVARIANT ResultType
INVARIANT NoCrash
INVARIANT EmitDone
CHECK_DEADLOCK FALSE
