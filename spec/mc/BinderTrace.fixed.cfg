INIT TInit
NEXT TNext
CONSTANTS
  MaxParams = 6
  MaxPos = 4
  MaxStarLit = 2
  MaxPost = 1
  MaxKw = 4
  MaxDKeys = 2
  Unknowns = TRUE
  MaxExp = 4
  Mutant = "none"
  FixStarKw = TRUE
  FixExtraKw = TRUE
CHECK_DEADLOCK FALSE
