INIT Init
NEXT Next
CONSTANTS
  Pinned = FALSE
  NSeeds = 4
  MaxHist = 3
INVARIANT Deterministic
CHECK_DEADLOCK FALSE
