INIT CInit
NEXT CNext
CONSTANTS
  Mode = "pairs"
  Depth = 1
  LitSet = "fullplus"
  MaxPos = 4
  MaxKw = 2
  MaxArgs = 5
  FnFilter = "all"
  Shapes = {"plain", "star", "mixed", "mixedk"}
  MaxSess = 3
  FixProtoCache = TRUE
  Bug = "none"
INVARIANT EmitLib
INVARIANT EmitDone
INVARIANT EmitSess
CHECK_DEADLOCK FALSE
