CONSTANTS
  Mode = "pairs"
  Depth = 1
  HistLen = 3
  HistSpace = "rec3"
CHECK_DEADLOCK FALSE
INIT PInit
NEXT PNext
CONSTANTS
  PMode = "hist"
  PFlags = "real"
  PNoDev = ""
INVARIANT InvPHistIndep
INVARIANT InvPHistIndepRepaired
