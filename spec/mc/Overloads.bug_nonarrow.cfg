INIT Init
NEXT Next
CONSTANTS
  Bug = "no_narrow"
  MinOv = 2
  MaxOv = 2
  MinParams = 0
  MaxParams = 1
  ParamTypes = {"int", "str", "any"}
  ArgTypes = {"int", "any", "int|str", "int|none"}
  Names = {"x"}
  Kinds = {"pk"}
  Defaults = {FALSE}
  MaxArgs = 1
  KwCalls = TRUE
  MaxRet = 4
  DistinctRets = FALSE
  MaxUnionArgs = 1
INVARIANT PropertyHolds
CHECK_DEADLOCK FALSE
