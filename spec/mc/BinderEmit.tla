----------------------------- MODULE BinderEmit -----------------------------
(* Emission wrapper: prints every completed case (signature, call) as one JSON line so that the    *)
(* harness can replay it through the real binder, the real visitor and real CPython.               *)
EXTENDS Binder, Json
EmitDone == stage = "done" => PrintT(ToJson(case))
=============================================================================
