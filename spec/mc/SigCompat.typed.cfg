INIT SCInit
NEXT SCNext
CONSTANTS
  MaxExpected = 2
  MaxActual = 2
  ActNames = {"a", "b"}
  MaxCallPos = 3
  MaxCallKw = 3
  TypeRanks = {1, 2, 9}
  RetRanks = {2}
  SCMutant = "none"
INVARIANT BehaviourallySound
INVARIANT TypesSound
INVARIANT DevIsTight
INVARIANT MachineIsFoldC
INVARIANT EmitPair
CHECK_DEADLOCK FALSE
