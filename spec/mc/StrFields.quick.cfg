INIT XInit
NEXT XNext
CONSTANTS
  FTokens = {}
  MaxFTokens = 0
  PosVals = {}
  MaxPos = 0
  KwNames = {}
  KwVals = {}
  MaxKw = 0
  FBug = "none"
  XMaxItems = 1
  XLits <- Q1XLits
  XNames <- Q1XNames
  XChains <- Q1XChains
  XConvs <- Q1XConvs
  XSpecs <- Q1XSpecs
  XPosVals <- Q1XPos
  XExtraVals <- XOne
  XKwNames <- KwABW
  XKwVals <- Q1XKw
  XKwExtraVals <- XOne
INVARIANT Modelled
INVARIANT Soundness
INVARIANT Precision
INVARIANT ResultType
INVARIANT EmitDone
CHECK_DEADLOCK FALSE
