INIT NInit
NEXT NNext
CONSTANTS
  Mode = "pairs"
  Depth = 1
  NFixed = {"len_reversed_mirrored"}
  NBug = "none"
  NVSpace = "d2"
  NCompoundV = "d1"
  NKinds = {"isinstance", "issubclass", "typeis", "typeguard", "is", "eq", "in", "truthy", "len", "cmp", "lenr", "c_isinstance", "c_isvalue", "match", "matchseq", "not", "and", "or", "deep"}
INVARIANT EmitDone
CHECK_DEADLOCK FALSE
