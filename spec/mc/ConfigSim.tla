----------------------------- MODULE ConfigSim -----------------------------
(* Emission wrapper: prints completed cases as one JSON line each so that the harness can replay     *)
(* them through the real code.  The invariants of Config.tla are checked on EVERY state; what is     *)
(* printed can be thinned out where the space is larger than what can be replayed: a case of the     *)
(* error-code kind is printed iff CaseCode(case) % C18_EMIT_MOD = C18_EMIT_REM, a case of another    *)
(* kind iff CaseCode(case) % C18_EMIT_MOD_REST = C18_EMIT_REM (environment variables, default 1 / 0  *)
(* = print everything).  Malformed configurations are always printed.  CaseCode is a deterministic   *)
(* multiplicative hash of the case, so the sample depends only on the seed given by the harness.     *)
EXTENDS Config, Json, IOUtils

EnvInt(name, dflt) == IF name \in DOMAIN IOEnv THEN atoi(IOEnv[name]) ELSE dflt
EmitMod == EnvInt("C18_EMIT_MOD", 1)
EmitModRest == EnvInt("C18_EMIT_MOD_REST", 1)
EmitRem == EnvInt("C18_EMIT_REM", 0)

Mix(x) == (x * 7919 + 12347) % 100003         \* x < 110000: stays below 2^31

ValCode(v) == CASE v = "absent" -> 0 [] v = "none" -> 1 [] v = "v1" -> 2 [] v = "v2" -> 3
SecCode(s) == 2 * ValCode(s.val) + (IF s.da THEN 1 ELSE 0)
FileCode(f) == SecCode(f.top) + 8 * SecCode(f.ova) + 64 * SecCode(f.ovab) + 512 * (IF f.abfirst THEN 1 ELSE 0)
               + 1024 * (CASE f.extpos = "first" -> 0 [] f.extpos = "mid" -> 1 [] f.extpos = "last" -> 2)
RECURSIVE FilesCode(_, _)
FilesCode(fs, i) == IF i > Len(fs) THEN 17 ELSE Mix(FilesCode(fs, i + 1) + FileCode(fs[i]))
TokCode(t) == CASE t \in {"pos", "v1", "a1", "f1", "en"} -> 1 [] t \in {"neg", "v2", "a2", "f2", "dis"} -> 2
                [] t = "enall" -> 3 [] t = "disall" -> 4
RECURSIVE ArgvCode(_)
ArgvCode(a) == IF a = << >> THEN 0 ELSE TokCode(Head(a)) + 5 * ArgvCode(Tail(a))
KindCode(k) == CASE k = "bool" -> 0 [] k = "flag" -> 1 [] k = "int" -> 2 [] k = "list" -> 3 [] k = "paths" -> 4 [] k = "files" -> 5
RECURSIVE LookupsCode(_, _)
LookupsCode(ls, i) ==
    IF i > Len(ls) THEN 23
    ELSE Mix(LookupsCode(ls, i + 1) + KindCode(ls[i].kind) + 8 * Len(ls[i].q) + (IF ls[i].q = <<"c">> THEN 32 ELSE 0))
CaseCode(c) ==
    LET h1 == Mix(FilesCode(c.files, 1) + ValCode(c.cmd) + 4 * Len(c.q) + (IF c.q = <<"c">> THEN 16 ELSE 0))
        h2 == Mix(h1 + ArgvCode(c.argv)
                  + 32 * (CASE c.route = "inst" -> 0 [] c.route = "kwargs" -> 1 [] c.route = "argv" -> 2)
                  + 128 * (CASE c.cfgsrc = "arg" -> 0 [] c.cfgsrc = "class" -> 1 [] c.cfgsrc = "none" -> 2)
                  + (IF c.layout = "nested" THEN 512 ELSE 0) + (IF c.default = <<"F">> THEN 1024 ELSE 0))
        sp == CASE c.spell = "same" -> 0 [] c.spell = "dot" -> 1 [] c.spell = "up" -> 2 [] c.spell = "abs" -> 3
                 [] c.spell = "redundant" -> 4 [] c.spell = "symlink" -> 5
    IN Mix(Mix(h2 + LookupsCode(c.lookups, 1)) + sp)

Emitted(c) ==
    \/ c.bad # "none"
    \/ CaseCode(c) % (IF c.kind = "bool" THEN EmitMod ELSE EmitModRest) = EmitRem % (IF c.kind = "bool" THEN EmitMod ELSE EmitModRest)

\* histories: those with at least two lookups, thinned out like the kinds other than the error codes
EmittedHist(c) == Len(c.lookups) >= 2 /\ CaseCode(c) % EmitModRest = EmitRem % EmitModRest

EmitDone == ((stage = "done" /\ Emitted(case)) \/ (stage = "hist" /\ EmittedHist(case))) => PrintT(ToJson(case))
=============================================================================
