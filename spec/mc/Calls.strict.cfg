INIT CInit
NEXT CNext
CONSTANTS
  Mode = "pairs"
  Depth = 1
  LitSet = "small"
  MaxPos = 2
  MaxKw = 1
  MaxArgs = 0
  FnFilter = "nogeneric3"
  Shapes = {"plain"}
  MaxSess = 2
  FixProtoCache = FALSE
  Bug = "none"
INVARIANT InvSessDiagnosisStrict
CHECK_DEADLOCK FALSE
