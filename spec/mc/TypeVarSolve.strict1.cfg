INIT Init
NEXT Next
CONSTANTS
  Mode = "raw"
  ValSeq <- ValsSmall
  OneOfSeq <- OneOfsSmall
  OrSeq <- NoOrs
  MaxBounds = 2
  ParamSeq <- ParamsSmall
  DeclSeq <- DeclsFull
  MaxParams = 1
  MinSize = 0
  Bug = "none"
INVARIANT SolutionSatisfiesBoundsStrict
CHECK_DEADLOCK FALSE
