INIT Init
NEXT Next
CONSTANTS
  FTokens <- FTokCore
  MaxFTokens = 5
  PosVals <- FValsCore
  MaxPos = 1
  KwNames <- NamesA
  KwVals <- FValsKw
  MaxKw = 1
  FBug = "none"
INVARIANT Modelled
INVARIANT Soundness
INVARIANT Precision
INVARIANT ResultType
CHECK_DEADLOCK FALSE
