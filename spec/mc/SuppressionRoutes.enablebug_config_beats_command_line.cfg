INIT EInit
NEXT ENext
CONSTANTS
  MaxLines = 1
  Pinned = FALSE
  MinLines = 1
  Bug = "config_beats_command_line"
  RDiagSets <- DiagsSmall
  RIgnSet <- IgnsSmall
  RShapes <- ShapesFlat
  ROtherShapes <- OtherPlain
  CfgCodes <- CodesEnable
  CfgAlls <- AllsAll
  CfgFlags <- FlagsAll
  CfgTris <- TrisAll
  RPrefixes <- NoPrefix
INVARIANT EEnabledOK
CHECK_DEADLOCK FALSE
