INIT GInit
NEXT GNext
CONSTANTS
  MaxStmts = 4
  MaxDepth = 1
  Kinds = {"if"}
  GenVars = {"x"}
  SimpleKinds = {"assign", "use", "defg", "defn", "callg"}
INVARIANT InvC09Strict
INVARIANT EmitDone
CHECK_DEADLOCK FALSE
