INIT GInit
NEXT GNext
CONSTANTS
  MaxStmts = 4
  MaxDepth = 1
  Kinds = {"if"}
  GenVars = {"x"}
  SimpleKinds = {"assign", "use", "defg", "defn", "callg"}
  Shape = "any"

INVARIANT EmitDone
CHECK_DEADLOCK FALSE
INVARIANT InvAll
