INIT GInit
NEXT GNext
CONSTANTS
  GMode = "sorted"
INVARIANT InvGSound
INVARIANT InvGRefl
INVARIANT InvGExact
INVARIANT InvGInverted
INVARIANT EmitG
INVARIANT EmitGTab
CHECK_DEADLOCK FALSE
