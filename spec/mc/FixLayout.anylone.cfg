INIT Init
NEXT Next
CONSTANTS
  Kinds = {"unused_variable", "use_fstrings"}
  Layouts = {"single", "trail_comment", "comment_dq", "str_dq", "str_sq", "paren_close", "paren_hang", "paren_flush", "backslash", "backslash_flush", "tq_lone", "tq_lone_sq", "tq_closeparen", "tq_later_lone", "tq_later_lone_sqfirst", "if_header", "deco_def", "semi_before", "semi_after", "oneline_if", "bs_second", "fstr_multi", "tq_then_diag", "deco2_def"}
  Blocks = {"def"}
  Befores = {"stmt"}
  Afters = {"none", "stmt", "blank", "comment", "comment_deep", "dq_block", "sq_block", "dq_block_deep", "doc1", "bs_stmt", "deco_def", "two_blocks"}
  Eofs = {"no"}
  AnyLoneDelim = TRUE
INVARIANT RangeExact
CHECK_DEADLOCK FALSE
