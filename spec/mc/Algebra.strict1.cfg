INIT AInit
NEXT ANext
CONSTANTS
  Mode = "pairs"
  Depth = 1
INVARIANT InvEqHashStrict
CHECK_DEADLOCK FALSE
