INIT Init
NEXT Next
CONSTANTS
  MaxTargets = 3
  ChainAny = FALSE
INVARIANT AppliedIsIntended
INVARIANT EmitCase
CHECK_DEADLOCK FALSE
