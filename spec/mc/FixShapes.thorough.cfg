INIT Init
NEXT Next
CONSTANTS
  MaxTargets = 3
  ChainAny = FALSE
  FlagBlind = FALSE
INVARIANT AppliedIsIntended
INVARIANT EmitCase
CHECK_DEADLOCK FALSE
