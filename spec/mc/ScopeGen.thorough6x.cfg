INIT GInit
NEXT GNext
CONSTANTS
  MaxStmts = 6
  MaxDepth = 3
  Kinds = {"if", "while", "whiletrue", "for", "with", "withsupp", "try"}
  GenVars = {"x"}
  SimpleKinds = {"assign", "use", "call", "return", "raise", "break", "continue"}
  Shape = "any"
INVARIANT InvAllLive
CHECK_DEADLOCK FALSE
