INIT Init
NEXT Next
CONSTANTS
  MaxFragments = 3
INVARIANT Converges
INVARIANT EachStepFixesOne
INVARIANT EmitProg
CHECK_DEADLOCK FALSE
