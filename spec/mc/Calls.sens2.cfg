INIT CInit
NEXT CNext
CONSTANTS
  Mode = "pairs"
  Depth = 1
  LitSet = "small"
  MaxPos = 1
  MaxKw = 0
  MaxArgs = 2
  FnFilter = "nogeneric3"
  Shapes = {"plain"}
  MaxSess = 0
  FixProtoCache = TRUE
  Bug = "no_inherent_bounds"
INVARIANT InvDiagnosis
CHECK_DEADLOCK FALSE
