----------------------------- MODULE AssignEmit -----------------------------
(* Emission wrapper: prints every generated pair (A, B) as one JSON line. *)
EXTENDS Assign, Json
EmitDone == Done => PrintT(ToJson([a |-> ta, b |-> tb]))
EmitObj == stage = "doneobj" => PrintT(ToJson([a |-> ta, o |-> ob]))
=============================================================================
