-------------------------- MODULE TypeVarSolveEmit --------------------------
(* Emission wrapper: prints every multiset of bounds (raw) / every declaration x multiset of       *)
(* parameters (call) once, in catalogue order, at the state in which the orders start to branch.   *)
EXTENDS TypeVarSolve, Json
EmitCase ==
    /\ (pc = "fold" /\ order = << >>) => PrintT(ToJson([mode |-> "raw", bounds |-> case.bounds]))
    /\ (pc = "cpick" /\ order = << >>) => PrintT(ToJson([mode |-> "call", decl |-> case.decl, ps |-> case.ps]))
=============================================================================
