INIT Init
NEXT Next
CONSTANTS
  FTokens <- FTokCore
  MaxFTokens = 4
  PosVals <- FValsCore
  MaxPos = 1
  KwNames <- NamesA
  KwVals <- FValsKw
  MaxKw = 0
  FBug = "none"
INVARIANT Modelled
INVARIANT Soundness
INVARIANT Precision
INVARIANT ResultType
INVARIANT EmitDone
CHECK_DEADLOCK FALSE
