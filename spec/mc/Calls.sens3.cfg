INIT CInit
NEXT CNext
CONSTANTS
  Mode = "pairs"
  Depth = 1
  LitSet = "dflt"
  MaxPos = 2
  MaxKw = 2
  MaxArgs = 2
  FnFilter = "new"
  Shapes = {"plain", "star", "mixed", "mixedk"}
  MaxSess = 0
  FixProtoCache = TRUE
  Bug = "default_by_equality"
INVARIANT InvDiagnosis
CHECK_DEADLOCK FALSE
