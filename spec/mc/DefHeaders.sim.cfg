INIT HInit
NEXT HNext
CONSTANTS
  Leaves = {"int"}
  Unary = {"list"}
  Binary = {"Or"}
  TopOnly = {"Final"}
  MaxNodes = 1
  MaxStack = 1
  BugOptionalDropsNone = FALSE
  FixedStar = TRUE
  FixedFinalInString = TRUE
  FixedNestedLiteral = TRUE
  BugBuiltinsFirst = FALSE
  AnnChoices = {"noann", "int", "str", "QA", "QTE", "TE", "OptInt", "ListInt", "T"}
  DefaultChoices = {"none", "int:1", "None", "..."}
  RetChoices = {"noann", "int", "QA", "QTE", "None", "T"}
  AsyncChoices = {FALSE, TRUE}
  FutureChoices = {FALSE, TRUE}
  DunderChoices = {FALSE, TRUE}
  MaxParams = 4
  MaxPos = 3
  MaxKw = 2
  BugRuntimeIgnoresKwDefaults = FALSE
  BugStringDropsAllowUnpack = FALSE
  FixedDunder = FALSE
INVARIANT HeaderViewsAgree
INVARIANT ViewsMatchInspect
INVARIANT EmitHeader
CHECK_DEADLOCK FALSE
