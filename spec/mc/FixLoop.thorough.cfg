INIT FInit
NEXT FNext
CONSTANTS
  MaxLines = 4
  Pinned = FALSE
  MaxIter = 10
  MetaChoices = {FALSE, TRUE}
INVARIANT Converges
INVARIANT TargetsOne
INVARIANT TreeUnchanged
CHECK_DEADLOCK FALSE
