INIT Init
NEXT Next
CONSTANTS
  Kinds = {"ignore"}
  Layouts = {"single", "trail_comment", "comment_dq", "str_dq", "str_sq", "paren_close", "paren_hang", "paren_flush", "backslash", "backslash_flush", "tq_lone", "tq_lone_sq", "tq_closeparen", "tq_later_lone", "tq_later_lone_sqfirst", "if_header", "deco_def", "semi_before", "semi_after", "oneline_if", "bs_second", "fstr_multi", "tq_then_diag", "deco2_def"}
  Blocks = {"def"}
  Befores = {"stmt"}
  Afters = {"stmt"}
  Eofs = {"no"}
  AnyLoneDelim = FALSE
INVARIANT InsertStrict
CHECK_DEADLOCK FALSE
