INIT MInit
NEXT MNext
CONSTANTS
  MaxStmts = 1
  MaxDepth = 1
INVARIANT Inhabited
INVARIANT EmitDone
CHECK_DEADLOCK FALSE
