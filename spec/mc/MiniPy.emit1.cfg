INIT MInit
NEXT MNext
CONSTANTS
  MaxStmts = 1
  MaxDepth = 1
  UseY = FALSE
  Cats = {"assign-v", "unpack", "aug", "expr", "return", "assert", "save", "mut"}
INVARIANT Inhabited
INVARIANT EmitDone
CHECK_DEADLOCK FALSE
