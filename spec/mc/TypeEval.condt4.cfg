INIT Init
NEXT Next
CONSTANTS
  Profile = "ccmp"
  MaxLines = 4
  MaxIfs = 2
  MaxDepth = 2
  MaxAtoms = 3
  MaxCondAtoms = 2
  Bug = "none"
  Fixed = {}
  EmitMod = 16
  EmitRes = 0
INVARIANT ArgumentKindsFollowSpec
INVARIANT EvalFollowsSpec
INVARIANT EmitDone
CHECK_DEADLOCK FALSE
