INIT Init
NEXT Next
CONSTANTS
  Kinds = {"list"}
  MaxFiles = 2
  Rich = FALSE
  WithBad = FALSE
  Routes = {}
  Layouts = {"flat"}
  Slim = TRUE
  Spells = {"same"}
  HistKinds = {"list", "int"}
  MaxLookups = 2
INVARIANT AliasFirstFollowsDocs
CHECK_DEADLOCK FALSE
