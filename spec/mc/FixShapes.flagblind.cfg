INIT Init
NEXT Next
CONSTANTS
  MaxTargets = 2
  ChainAny = FALSE
  FlagBlind = TRUE
INVARIANT AppliedIsIntended
CHECK_DEADLOCK FALSE
