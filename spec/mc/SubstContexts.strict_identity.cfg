INIT CInit
NEXT CNext
CONSTANTS
  Mode = "pairs"
  Depth = 1
  PairOuter = "few"
  Lean = TRUE
  MaxDepth = 1
  Bug = "none"
INVARIANT InvIdentityStrict
CHECK_DEADLOCK FALSE
