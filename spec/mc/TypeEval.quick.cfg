INIT Init
NEXT Next
CONSTANTS
  Profile = "quick"
  MaxLines = 4
  MaxIfs = 2
  MaxDepth = 2
  MaxAtoms = 2
  Bug = "none"
INVARIANT ArgumentKindsFollowSpec
INVARIANT ExactOnSingletons
INVARIANT EvalFollowsSpec
CHECK_DEADLOCK FALSE
