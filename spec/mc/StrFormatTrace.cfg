INIT TInit
NEXT TNext
CONSTANTS
  FTokens = {}
  MaxFTokens = 0
  PosVals = {}
  MaxPos = 0
  KwNames = {}
  KwVals = {}
  MaxKw = 0
  FBug = "none"
CHECK_DEADLOCK FALSE
