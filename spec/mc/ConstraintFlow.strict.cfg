INIT FInit
NEXT FNext
CONSTANTS
  Mode = "pairs"
  Depth = 1
  NFixed = {"len_reversed_mirrored"}
  NBug = "none"
  NVSpace = "none"
  NCompoundV = "none"
  NKinds = {}
  FKinds = {"save", "okflag", "use", "ifflag", "ifok", "else"}
  FConds = {"int"}
  FLits = {"a"}
  FDecls = {"is"}
  FMaxStmts = 5
  FMaxDepth = 2
  FBits = 3
  FMaxTicks = 2
  FBug = "none"
  FFixed = {"fresh_fake_nodes"}
INVARIANT InvFlowStrict
CHECK_DEADLOCK FALSE
