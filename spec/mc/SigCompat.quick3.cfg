INIT SCInit
NEXT SCNext
CONSTANTS
  MaxExpected = 1
  MaxActual = 3
  ActNames = {"a", "b", "c"}
  MaxCallPos = 2
  MaxCallKw = 2
  TypeRanks = {9}
  RetRanks = {9}
  SCMutant = "none"
INVARIANT BehaviourallySound
INVARIANT TypesSound
INVARIANT DevIsTight
INVARIANT MachineIsFoldC
INVARIANT EmitPair
CHECK_DEADLOCK FALSE
