INIT GTInit
NEXT GTNext
CONSTANTS
  GMode = "sorted"
CHECK_DEADLOCK FALSE
