INIT TInit
NEXT TNext
CONSTANTS
  MaxTargets = 3
  ChainAny = FALSE
  FlagBlind = FALSE
CHECK_DEADLOCK FALSE
