INIT TInit
NEXT TNext
CONSTANTS
  MaxTargets = 3
  ChainAny = FALSE
CHECK_DEADLOCK FALSE
