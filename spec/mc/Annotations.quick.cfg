INIT Init
NEXT Next
CONSTANTS
  Leaves = {"int", "str", "None", "A", "TimeoutError", "Warning", "B", "object", "Any", "NT", "TD", "P", "T", "TB", "TC", "list", "dict", "tuple", "type", "List", "Dict", "Tuple", "Type", "Callable", "Sequence", "Lit1", "Lit1a", "LitNested", "LitTrue", "LitNone", "LitNeg", "LitDup", "tuple0", "Tuple0"}
  Unary = {"Quote", "Optional", "Union1", "list", "List", "TList", "Sequence", "type", "Type", "tupleEll", "TupleEll", "tuple1", "Tuple1", "Annotated1", "CallableEll", "Callable0", "CallableToNone", "AbcCallable", "dictStr", "StarTail", "StarOnly", "UnpackTail"}
  Binary = {"Or", "Union2", "tuple2", "Tuple2", "dict2", "Dict2", "Callable1"}
  TopOnly = {"Final", "ClassVar"}
  MaxNodes = 3
  MaxStack = 3
  BugOptionalDropsNone = FALSE
  FixedStar = TRUE
  FixedFinalInString = TRUE
  FixedNestedLiteral = TRUE
  BugBuiltinsFirst = FALSE
INVARIANT AnnotationRoutesAgree
INVARIANT NoRouteRaises
INVARIANT EmitDone
CHECK_DEADLOCK FALSE
