INIT Init
NEXT Next
CONSTANTS
  Kinds = {"unused_variable", "use_fstrings"}
  Layouts = {"single", "tq_lone", "paren_close"}
  Blocks = {"module", "def", "if", "if_else", "try", "for", "with", "class_method", "nested_def"}
  Befores = {"none", "stmt", "comment", "blank", "paren_stmt", "bs_stmt", "dq_block", "doc1"}
  Afters = {"none", "stmt", "dq_block", "comment_deep"}
  Eofs = {"no", "nl", "nonl"}
  AnyLoneDelim = FALSE
INVARIANT RangeExact
INVARIANT ApplyExact
INVARIANT LineOwned
INVARIANT BlockKept
INVARIANT InsertSafe
INVARIANT EmitCase
CHECK_DEADLOCK FALSE
