-------------------------- MODULE GenericBasesEmit --------------------------
EXTENDS GenericBases, Json
EmitG == GDone => PrintT(ToJson([e |-> ge, o |-> go]))
EmitGTab == gstage = "e" => \A c \in GUser : PrintT(ToJson([cls |-> c, bases |-> GTab[c], params |-> Params(c, "ref")]))
=============================================================================
