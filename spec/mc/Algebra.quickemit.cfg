INIT AInit
NEXT ANext
CONSTANTS
  Mode = "pairs"
  Depth = 1
INVARIANT InvIdem
INVARIANT InvNeverId
INVARIANT InvComm
INVARIANT InvNoNest
INVARIANT InvAccepts
INVARIANT InvMembers
INVARIANT InvEqHash
INVARIANT InvAssoc
INVARIANT InvSubstClosed
INVARIANT InvSubstAll
INVARIANT InvSubstUnite
INVARIANT EmitDone3
CHECK_DEADLOCK FALSE
