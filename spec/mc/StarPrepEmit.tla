----------------------------- MODULE StarPrepEmit -----------------------------
(* Emission wrapper: prints every completed case [sig, call] of StarPrep.tla as one JSON line. *)
EXTENDS StarPrep, Json
PEmitDone == stage = "done" => PrintT(ToJson(case))
=============================================================================
