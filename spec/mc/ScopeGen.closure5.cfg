INIT GInit
NEXT GNext
CONSTANTS
  MaxStmts = 5
  MaxDepth = 2
  Kinds = {"if", "while", "try", "withsupp"}
  GenVars = {"x"}
  SimpleKinds = {"assign", "use", "defg", "defn", "callg", "return"}
  Shape = "any"
INVARIANT InvAll
INVARIANT EmitDone
CHECK_DEADLOCK FALSE
