INIT TInit
NEXT TNext
CONSTANTS
  Mode = "pairs"
  Depth = 1
  LitSet = "small"
  MaxPos = 1
  MaxKw = 1
  MaxArgs = 1
  FnFilter = "all"
  Shapes = {"plain"}
  MaxSess = 0
  FixProtoCache = TRUE
  Bug = "none"
CHECK_DEADLOCK FALSE
