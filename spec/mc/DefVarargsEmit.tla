--------------------------- MODULE DefVarargsEmit ---------------------------
(* Emission wrapper: every completed header of the *args / **kwargs slice with its call family, one JSON line each. *)
EXTENDS DefVarargs, Json
SetToSeq(S) == LET RECURSIVE f(_) f(T) == IF T = {} THEN << >> ELSE LET x == CHOOSE y \in T : TRUE IN <<x>> \o f(T \ {x}) IN f(S)
EmitVararg == (stage = "done" /\ InSlice(case)) =>
    PrintT(ToJson([h |-> case,
                   calls |-> SetToSeq({[npos |-> c.npos, kws |-> SetToSeq(c.kws), bad |-> c.bad] : c \in VCalls(case)})]))
=============================================================================
