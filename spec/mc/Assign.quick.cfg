INIT Init
NEXT Next
CONSTANTS
  Mode = "pairs"
  Depth = 1
INVARIANT InvSound
INVARIANT InvRefl
INVARIANT InvNeverBottom
INVARIANT InvObjectTop
INVARIANT InvUnionLeft
INVARIANT InvUnionRight
INVARIANT InvAnyBoth
INVARIANT InvExcludeAnyMonotone
INVARIANT InvLiteralExact
CHECK_DEADLOCK FALSE
