---------------------------- MODULE ProtocolsEmit ----------------------------
(* Emission wrapper for the protocol sub-universe of C04: prints every generated pair / history as one JSON line,  *)
(* and once (in the initial state) the class table and the derived member sets for the driver's self-test.         *)
EXTENDS Protocols, Json
EmitP == PDone => PrintT(ToJson([a |-> pa, b |-> pb]))
EmitH == pstage = "hdone" => PrintT(ToJson([steps |-> phist]))
TabRow(c) == [cls |-> c, kind |-> PTab[c].kind, rt |-> PTab[c].rt, mro |-> PTab[c].mro, own |-> PTab[c].own, gargs |-> PTab[c].gargs,
              req |-> IF PTab[c].kind = "proto" THEN SelectSeq(PNameOrder, LAMBDA n : n \in RefReqNames(c)) ELSE << >>,
              implmembers |-> IF PTab[c].kind = "proto" THEN ImplMemberSeq(c, RealF) ELSE << >>]
EmitTab == (pstage = "a" /\ phist = << >>) =>
              /\ PrintT(ToJson([order |-> PNameOrder]))
              /\ \A c \in PClassNames : PrintT(ToJson(TabRow(c)))
              /\ \A f \in DOMAIN PFun : PrintT(ToJson([fn |-> f, ps |-> PFun[f].ps, t |-> PFun[f].t]))
=============================================================================
