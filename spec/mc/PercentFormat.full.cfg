INIT Init
NEXT Next
CONSTANTS
  PKinds = {"str", "bytes"}
  PTokens <- TokFull
  MaxTokens = 3
  ScalarVals <- ValsAll
  TupleVals <- ValsSmall
  MaxTuple = 2
  DictKeys <- KeysFull
  DictVals <- ValsSmall
  MaxDict = 1
  BugFlag = "none"
INVARIANT Soundness
INVARIANT Precision
INVARIANT ResultType
INVARIANT NoCrash
CHECK_DEADLOCK FALSE
