---------------------------- MODULE DefHeadersEmit ----------------------------
(* Emission wrapper: prints every completed def header together with its call family as one JSON line. *)
EXTENDS DefHeaders, Json
SetToSeq(S) == LET RECURSIVE f(_) f(T) == IF T = {} THEN << >> ELSE LET x == CHOOSE y \in T : TRUE IN <<x>> \o f(T \ {x}) IN f(S)
EmitHeader == stage = "done" =>
    PrintT(ToJson([h |-> case,
                   calls |-> SetToSeq({[npos |-> c.npos, kws |-> SetToSeq(c.kws), bad |-> c.bad] : c \in Calls(case)})]))
=============================================================================
