INIT TInit
NEXT TNext
CONSTANTS
  Leaves = {"int"}
  Unary = {"list"}
  Binary = {"Or"}
  TopOnly = {"Final"}
  MaxNodes = 1
  MaxStack = 1
  BugOptionalDropsNone = FALSE
  FixedStar = TRUE
  FixedFinalInString = TRUE
  FixedNestedLiteral = TRUE
  BugBuiltinsFirst = FALSE
  CtxForms = {"q"}
  CtxRefNames = {"K"}
  CtxFuture = {FALSE}
  CtxShared = {TRUE}
  CtxAgents = {"gthA"}
  MaxHist = 0
  CtxPairs = "same"
  BugPreferCachedForward = FALSE
  BugFallbackAnyModule = FALSE
CHECK_DEADLOCK FALSE
