INIT CInit
NEXT CNext
CONSTANTS
  Mode = "pairs"
  Depth = 1
  LitSet = "full"
  MaxPos = 3
  MaxKw = 2
  MaxArgs = 3
  FnFilter = "old"
  Shapes = {"plain", "star"}
  MaxSess = 3
  FixProtoCache = TRUE
  Bug = "none"
INVARIANT EmitLib
INVARIANT EmitDone
INVARIANT EmitSess
CHECK_DEADLOCK FALSE
