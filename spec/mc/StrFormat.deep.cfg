INIT Init
NEXT Next
CONSTANTS
  FTokens <- FTokDeep
  MaxFTokens = 5
  PosVals <- FValsOne
  MaxPos = 3
  KwNames <- NamesA
  KwVals <- FValsOne
  MaxKw = 1
  FBug = "none"
INVARIANT Modelled
INVARIANT Soundness
INVARIANT Precision
INVARIANT ResultType
INVARIANT EmitDone
CHECK_DEADLOCK FALSE
