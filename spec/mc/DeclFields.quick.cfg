INIT DInit
NEXT DNext
CONSTANTS
  Kinds = {"td", "dc", "nt"}
  Bases = {"typing", "ext"}
  Totals = {TRUE, FALSE}
  Stacks = {"-", "Req", "NotReq", "RO", "RO/Req", "Req/RO", "NotReq/RO", "RO/NotReq", "Ann/RO", "RO/Ann", "Ann/NotReq", "NotReq/Ann", "Req/Ann/RO"}
  Spellings = {"obj", "quoted", "future"}
  Inherits = {FALSE, TRUE}
  DcQuals = {"none", "ClassVar", "InitVar", "Final"}
  Dflts = {FALSE, TRUE}
  BugReadOnlyOnlyWithoutKeys = FALSE
  BugRequiredFromKeysOnly = FALSE
INVARIANT DeclaredMeaning
INVARIANT FieldRoutesAgree
INVARIANT SpellingIndependent
INVARIANT ConstructorTyped
INVARIANT EmitDecl
CHECK_DEADLOCK FALSE
