INIT Init
NEXT Next
CONSTANTS
  MaxTargets = 2
  ChainAny = FALSE
INVARIANT AppliedIsIntended
INVARIANT EmitCase
CHECK_DEADLOCK FALSE
