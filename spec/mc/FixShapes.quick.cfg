INIT Init
NEXT Next
CONSTANTS
  MaxTargets = 2
  ChainAny = FALSE
  FlagBlind = FALSE
INVARIANT AppliedIsIntended
INVARIANT EmitCase
CHECK_DEADLOCK FALSE
