INIT Init
NEXT Next
CONSTANTS
  Bug = "none"
  MinOv = 2
  MaxOv = 3
  MinParams = 1
  MaxParams = 1
  ParamTypes = {"int", "str", "any", "L1", "La", "E", "EA"}
  ArgTypes = {"L1|La", "L1|L2", "L1|str", "EA|EB", "EA|int", "E", "L1", "EA", "any"}
  Names = {"x"}
  Kinds = {"pk"}
  Defaults = {FALSE}
  MaxArgs = 1
  KwCalls = TRUE
  MaxRet = 4
  DistinctRets = FALSE
  MaxUnionArgs = 1
  EmitOneIn = 2
INVARIANT PropertyHolds
INVARIANT MachineIsOperator
INVARIANT BinderAgrees
INVARIANT RefFirstIsClause1
INVARIANT EmitDone
CHECK_DEADLOCK FALSE
